#!/bin/bash
# usage: tools/try_mutant.sh <patch.diff> <check-id> [<check-id>...]
# Applies a seeded change to /repo, runs the given checks (quick tier), and always restores /repo.
set -u
patch=$1; shift
cd /repo || exit 2
if ! git diff --quiet; then echo "/repo has uncommitted changes"; exit 2; fi
if ! git apply --check "$patch" 2>/dev/null; then
  if ! git apply --3way --check "$patch" 2>/dev/null; then echo "PATCH DOES NOT APPLY: $patch"; exit 3; fi
  git apply --3way "$patch"; git reset -q
else
  git apply "$patch"
fi
# evidence written while the change is applied does not describe /repo: put the committed files back
trap 'git -C /verif checkout -q -- evidence; cd /repo && git checkout -q -- . && git clean -fdq -- nervusdb nervusdb-storage nervusdb-query nervusdb-api nervusdb-capi 2>/dev/null' EXIT
cd /verif
for c in "$@"; do
  ./check "$c" 2>&1 | grep -E "^C[0-9]+:|^VIOLATION|signature|BUILD FAILED|broken" | head -8
done
