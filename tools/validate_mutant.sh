#!/bin/bash
# usage: tools/validate_mutant.sh <ID>   (runs inside the sub-agent's scratch worktree /tmp/mut/<ID>)
# Confirms: patch applies, workspace builds, demo fails with patch and passes without it, suite passes with patch.
id=$1; wt=/tmp/mut/$id; out=$wt/validation.txt
cd $wt || exit 2
export CARGO_TARGET_DIR=$wt/target CARGO_NET_OFFLINE=true
demo_cmd=$(python3 -c "import json;print(json.load(open('$wt/meta.json'))['demo_cmd'])")
{
echo "== $id validation $(date -u +%FT%TZ)"
echo "demo_cmd: $demo_cmd"
# make sure patch is applied
git checkout -q -- . 2>/dev/null
git apply patch.diff || { echo "PATCH_APPLY=FAIL"; exit 1; }
echo "PATCH_APPLY=ok"
# locate demo test file: copy demo.rs to where meta says (demo_cmd usually handles cp)
( eval "$demo_cmd" ) > demo_with.log 2>&1; echo "DEMO_WITH_PATCH_EXIT=$?"
git apply -R patch.diff
( eval "$demo_cmd" ) > demo_without.log 2>&1; echo "DEMO_WITHOUT_PATCH_EXIT=$?"
git apply patch.diff
cargo test --workspace --no-fail-fast --offline 2>&1 | grep -E "^test result|FAILED|failed" > suite.log
awk '/test result/{p+=$4; f+=$6} END{print "SUITE_WITH_PATCH passed=" p " failed=" f}' suite.log
grep -E "^test .* FAILED" suite.log | head -5
} > $out 2>&1
cat $out
