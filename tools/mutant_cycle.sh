#!/bin/bash
# usage: tools/mutant_cycle.sh <ID> <check-id>...   validate the seeded change in /tmp/mut/<ID> (if not
# done yet) and run the given checks against that worktree (VERIF_REPO), leaving /repo untouched.
id=$1; shift
wt=/tmp/mut/$id
[ -f $wt/validation.txt ] || bash /verif/tools/validate_mutant.sh $id > /dev/null 2>&1
cd $wt && git apply --check patch.diff 2>/dev/null && git apply patch.diff   # make sure the change is applied
cd /verif
{
echo "== detection run $(date -u +%FT%TZ) for $id: $*"
grep -E "PATCH_APPLY|DEMO_|SUITE_" $wt/validation.txt
for c in "$@"; do
  VERIF_REPO=$wt ./check $c 2>&1 | grep -E "^C[0-9]+:|^VIOLATION|^KNOWN|signature|summary|BUILD FAILED|broken|INCONC" | cut -c1-400 | head -14
done
} > $wt/detect.log 2>&1
cat $wt/detect.log
