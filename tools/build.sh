#!/bin/bash
# Build the rel flavour of the monitor binary with the same settings as ./check (for development).
cd /verif/harness && CARGO_NET_OFFLINE=true CARGO_TARGET_DIR=/verif/target/rel RUSTFLAGS="--cfg nervusdb_verif" cargo build --offline --release 2>&1 | grep -E "^(error|warning: unused)|-->|^\s+\|" | head -${1:-80}
exit ${PIPESTATUS[0]}
