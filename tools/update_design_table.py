#!/usr/bin/env python3
"""Rewrites the seeded-changes table of DESIGN.md §9.6 from /verif/seeded/*/meta.json."""
import subprocess, os, re
V = os.path.dirname(os.path.dirname(os.path.abspath(__file__)))
t = subprocess.run(["python3", os.path.join(V, "tools", "seeded_table.py")], capture_output=True, text=True).stdout
p = os.path.join(V, "DESIGN.md")
s = open(p).read()
s = re.sub(r"<!-- SEEDED-TABLE-BEGIN -->.*?<!-- SEEDED-TABLE-END -->", "<!-- SEEDED-TABLE-BEGIN -->\n" + t.replace("\\", "\\\\") + "<!-- SEEDED-TABLE-END -->", s, flags=re.S)
open(p, "w").write(s)
