#!/bin/bash
# usage: tools/run_all.sh [tier] [seed]  — runs every registered check once, prints one line per check
tier=${1:-quick}; seed=${2:-1}
cd /verif
ids=$(python3 -c "import json; print(' '.join(c['property_id'] for c in json.load(open('MANIFEST.json'))['checks']))")
for id in $ids; do
  s=$(date +%s)
  out=$(VERIF_SEED=$seed ./check $id --tier $tier 2>&1); rc=$?
  e=$(( $(date +%s) - s ))
  echo "$id rc=$rc ${e}s $(echo "$out" | grep -E "^C[0-9]+:" | cut -c1-110) $(echo "$out" | grep -c '^VIOLATION') violation-lines $(echo "$out" | grep -c '^INCONCLUSIVE') floor-misses"
done
