#!/usr/bin/env python3
"""Regenerates /verif/MANIFEST.json from the table below (kept in one place so the manifest
stays valid while checks are added)."""
import json, os, subprocess
VERIF = os.path.dirname(os.path.dirname(os.path.abspath(__file__)))
props = [json.loads(l) for l in open(os.path.join(VERIF, "properties.jsonl"))]

# id -> (engine, category, technique, level text, level note, design ref)
CRASH_NOTE = "Crash model: directory operations durable when issued; power loss keeps everything written before a file's last sync and any subset (last write possibly torn) of later writes. Oracle is differential against the uncrashed run of the same history."
CHECKS = {
 "C01": ("crashmon", "fault_enumeration", "recorded I/O log -> offline crash-image enumeration (process death + power-loss variants) -> real Db::open + dump oracle, continuation commit + reopen",
         "Held on the explored crash points apart from the listed known findings: for every explored cut of the recorded I/O log and every crash variant the recovered content contains every transaction acknowledged before the cut, also after one more commit and reopen.",
         CRASH_NOTE, "DESIGN.md §4.1 C01"),
 "C02": ("crashmon", "fault_enumeration", "recorded I/O log -> offline crash-image enumeration -> real Db::open + prefix oracle over all read views incl. index lookups",
         "Held on the explored crash points apart from the listed known findings: every image opens and equals the uncrashed content at a commit count between acknowledged and started.",
         CRASH_NOTE, "DESIGN.md §4.1 C02"),
 "C08": ("crashmon", "fault_enumeration", "single I/O fault injected at every I/O step index of an operation (error and short write), in-process and post-reopen all-or-nothing oracle",
         "Held on the injected faults apart from the listed known findings: one failure at each I/O step of commit/compact/checkpoint/create_index/close, judged in process, after a later transaction and after two reopens.",
         "Exactly one failure per run; the failing call performs no I/O or the declared short prefix.", "DESIGN.md §4.1 C08"),
 "C17": ("crashmon", "fault_enumeration", "hostile log tails appended to exact acknowledgement-point images; open + dump + commit + reopen oracle",
         "Held on the generated tails: truncations of the next transaction, zero fill, random bytes, hostile frame headers, valid frames without commit, bit flips; open succeeds, content is exactly the completely written transactions, later commits survive two reopens.",
         "Base images are exact acknowledgement-point states, so the page file never runs ahead of the log.", "DESIGN.md §4.1 C17"),
 "C04": ("storemon", "exploration", "differential replay of generated histories (with/without reopen) + online dump comparison, witness shrinking",
         "Held on the generated histories: every dump view (ids, labels, properties, both neighbour directions with multiplicity) is compared step by step between a database that is reopened at generated points and one that is not, and before/after every reopen. Sampling of histories, not a proof.",
         "Well-formed writes only; release build; hooks compiled in and idle.", "DESIGN.md §4.2 C04"),
 "C05": ("storemon", "exploration", "differential replay of generated histories (with/without compaction/checkpoint) + online dump comparison, witness shrinking",
         "Held on the generated histories apart from the listed known findings: step-wise dump equality between a database that compacts/checkpoints at generated points and one that never does, plus before/after equality around every compaction.",
         "Well-formed writes only; release build; half of the cases avoid the triggers of recorded known findings so that the remaining behaviour is still explored.", "DESIGN.md §4.2 C05"),
 "C06": ("storemon", "exploration", "reference-model monitor (plain in-memory property graph) over generated histories, all read interfaces cross-checked",
         "Held on the generated histories apart from the listed known finding: after every commit all read interfaces are compared with an independent in-memory property graph and with each other.",
         "Well-formed writes only (properties removed before their relationship/node is deleted).", "DESIGN.md §4.2 C06"),
 "C07": ("storemon", "exploration", "differential replay (with/without abandoned transactions) incl. vector-search view",
         "Held on the generated histories: dumps and vector-search results are compared step by step between a history with abandoned transactions and the same history without them, across compaction and reopen.",
         "Label/type *names* interned by an abandoned transaction are not observable through data reads and are not compared.", "DESIGN.md §4.2 C07"),
 "C25": ("robust", "exploration", "round-trip oracle + hostile-input decoding in child processes under a counting allocator (exit status, panic capture, allocation accounting)",
         "Held on the generated inputs: exact (bit-level) round trips for generated and small-exhaustive values and all 17 log record variants; hostile decodes (mutations, hostile counts, nesting bombs, random bytes, whole log files, statistics blobs) never panicked, killed the child or allocated beyond 64 x input + 1 MiB.",
         "8 MiB stack, RLIMIT_AS 8 GiB in the child; allocation bound is the harness's restatement of 'without bound'.", "DESIGN.md §4.5 C25"),
 "C26": ("structmon", "exploration", "reference-model monitor (sorted multimap) over generated insert/delete/reopen sequences on the real B-tree and pager",
         "Held on the generated sequences: full scans, per-key lookups, most-recent-first order and exact deletes agree with a reference multimap after every step, incl. long runs of equal keys spanning leaves, emptied leaves and pager reopen.",
         "Unique payloads make histories unambiguous; key alphabets are small by design.", "DESIGN.md §4.6 C26"),
 "C27": ("structmon", "exploration", "pairwise law checking of the key encoder over boundary-exhaustive pools and seeded random pairs",
         "Held on the sampled + boundary-exhaustive domain apart from the listed known finding (lists/maps): order, equality and prefix freedom of encode_ordered_value.",
         "'All integers/floats' is sampled plus boundary-exhaustive; NaN pairs are not judged.", "DESIGN.md §4.6 C27"),
 "C03": ("concmon", "exploration", "schedule-point parking (writer parked x reader action, reader parked x writer operation) + free-running stress with lock noise; snapshot-prefix and self-equality oracle over dumps of uniquely marked commits",
         "Held on the explored schedules apart from the listed known findings: at every schedule point of commit, compaction and snapshot construction the partner ran (or waited) and the snapshot equalled the state before or after; in stress every snapshot equalled the content after j commits, acked-before-call <= j <= started-before-return, and long-lived snapshots were re-read across compactions.",
         "Real threads; interleavings inside std locks are not controlled; workload writes are append-only markers.", "DESIGN.md §4.3 C03"),
 "C09": ("concmon", "exploration", "real-thread stress of ndb_execute_write on few keys + parked statement before the writer lock; conservation oracle (acknowledged increments == final value, one node per merged key)",
         "Held on the explored schedules: N threads of increments/conditional creates through the C API on 1-3 counters; every acknowledged increment is in the final value and every merged key has one node; one statement parked before its writer-lock acquisition while another completes.",
         "Statements that returned an error are excluded; all threads joined before the final read.", "DESIGN.md §4.3 C09"),
 "C10": ("concmon", "exploration", "second open attempted from another thread and another process in four first-handle states; outcome oracle (refused / waited / opened) + sequential reopen",
         "Held on the explored cases: while a first handle is open (just opened, after commit, after compaction, with an open write transaction) a second open from a thread and from a child process was refused or waited; sequential close/open kept working.",
         "Two processes on one host, local files.", "DESIGN.md §4.3 C10"),
 "C29": ("concmon", "exploration", "backup thread parked between page-file copy and log copy while the writer commits/compacts + free-running backups under a writer; restore + open + dump, prefix oracle",
         "Held on the explored schedules apart from the listed known finding: every completed backup restored, opened and equalled the source content after j commits with acked-before-backup <= j <= started-before-return.",
         "A backup call that returns an error is not a completed backup (inconclusive).", "DESIGN.md §4.3 C29"),
 "C35": ("concmon", "exploration", "lock-shim event monitor: live wait-for-graph cycle detection + per-operation progress watchdog + accumulated lock-order graph over seeded multi-thread stress of all public operations",
         "Held on the explored runs: no persistent wait-for cycle among lock waiters, every operation completed, no gate-free cycle in the accumulated lock-order graph. 'Forever' is restated as bounded progress.",
         "Interleavings inside std's lock implementations are not controlled; a watchdog firing without a cycle is inconclusive.", "DESIGN.md §4.3 C35"),
 "C18": ("storemon", "exploration", "online page-ownership monitor over the pager's allocate/ensure/write/free events (page hook) + reference-model monitor of the dump before and after reopen, on generated growth histories",
         "Held on the generated growth histories apart from the listed known finding: no structure class wrote or claimed a page owned by another, and the dump equalled the model before and after reopen; histories cross the 512- and 1024-record boundaries of the node table with other structures allocating in between.",
         "Owner = class (source file) that allocated the page; a history step that fails for another reason ends the case as inconclusive.", "DESIGN.md §4.2 C18"),
 "C28": ("storemon", "exploration", "differential monitor: vacuumed database vs byte copy of the same closed database, all read views incl. index lookups and vector searches, continued writes and a further reopen on both",
         "Held on the generated histories: vacuum succeeded, the vacuumed database opened and agreed with its un-vacuumed copy on every read view, after a generated continuation of writes and after one more reopen.",
         "The un-vacuumed copy is the reference, so defects recorded under other properties cancel out.", "DESIGN.md §4.2 C28"),
 "C30": ("storemon", "exploration", "differential monitor: bulk-loaded vs transactionally loaded database from one generated input; dump views, Cypher view and ~45 generated queries, again after compaction+reopen and after a later write",
         "Held on the generated inputs: both databases agreed on every dump view, the Cypher view and every generated query, fresh, after compaction+reopen and after the same later transaction.",
         "Inputs respect the bulk API (one label per node, unique external ids).", "DESIGN.md §4.2 C30"),
 "C31": ("storemon", "exploration", "online result monitor for vector search against a brute-force reference over generated insert/re-insert/delete/compact/reopen sequences, with NERVUSDB_HNSW_M=4 and default",
         "Held on the generated sequences apart from the listed known finding: at most k distinct live nodes with vectors, non-decreasing exact Euclidean distances, exactly the k nearest while the index holds at most 2m+1 vectors, results unchanged by reopen.",
         "Relative tolerance 1e-4 on distances; random HNSW levels: witnesses are re-executed 5 times.", "DESIGN.md §4.2 C31"),
 "C32": ("storemon", "exploration", "clock-hook controlled identity allocation (stalled/backward/alternating/1 ns per call/real) under create-heavy Cypher histories; uniqueness and stability monitor over all internal->external pairs after every step",
         "Held on the generated histories: no statement failed on identity allocation, all external ids were distinct, and no node's identity changed across later statements, compaction and reopen.",
         "The controlled clock returns only values a real clock can return.", "DESIGN.md §4.2 C32"),
 "C15": ("cyphermon", "exploration", "differential monitor: same generated statement history with and without create_index at a generated position; 9 equality-query shapes x 15 probe values compared after every step, per-node cause classification of disagreements",
         "Held on the generated histories apart from the listed known findings: every query returned the same row multiset with and without the index and every statement reported the same change count; half of the histories avoid the triggers of the recorded findings so that index maintenance on updates, compaction and reopen is still explored.",
         "Node identity through a uid property.", "DESIGN.md §4.4 C15"),
 "C19": ("cyphermon", "exploration", "ternary-logic partitioning (metamorphic): rows(Q WHERE p) + rows(Q WHERE NOT p) + rows(Q WHERE p IS NULL) == rows(Q) on random graphs, bases and predicates; engine checked against itself",
         "Held on the generated quadruples: no row lost or duplicated by a filter, over 10 base shapes x 16 predicate constructs, with and without indexes, on runs, compacted and reopened storage.",
         "Deterministic predicates; OPTIONAL MATCH bases are filtered on completed rows; a quadruple with an erroring query is inconclusive.", "DESIGN.md §4.4 C19"),
 "C20": ("cyphermon", "exploration", "independent-comparator monitor over ORDER BY output of generated mixed-type value lists; permutation check; SKIP/LIMIT key-slice check",
         "Held on the generated lists apart from the listed known finding: output is a permutation of the input, sorted under Cypher's value ordering (exact int/float comparison), and SKIP s LIMIT l is the key slice of the full order.",
         "Ties and pairs the comparator does not judge may permute.", "DESIGN.md §4.4 C20"),
 "C21": ("cyphermon", "exploration", "direct-fold oracle (exact i128 sums, exact ordering) + in-engine reduce()/collect() rewrite over generated groups and grouping keys",
         "Held on the generated groups: one row per distinct grouping key; count(*), count, sum, avg, min, max, collect and DISTINCT forms equal a direct fold; integer sums beyond 64 bits are a Float or an error, never a wrapped Int.",
         "Grouping keys avoid numeric coercion ambiguity; groups with several NaN are not judged for DISTINCT.", "DESIGN.md §4.4 C21"),
 "C22": ("cyphermon", "exploration", "implication monitor: plain UNWIND..RETURN f(x) fails => the same rows under 23 consuming wrappers must fail; self-calibrating candidate list of error-raising functions",
         "Held on the generated combinations: no wrapper (DISTINCT, UNION arms, ORDER BY, aggregates, grouping, WITH forms, coalesce, CASE, list comprehension, quantifiers, reduce) returned rows when the plain query failed.",
         "Error kinds are not compared.", "DESIGN.md §4.4 C22"),
 "C23": ("cyphermon", "exploration", "law checking over boundary value pools: truth tables, De Morgan, null propagation, equality equivalence, exact numeric comparison, comparison-operator consistency, i128 overflow rule",
         "Held on the boundary pools: three-valued logic tables from three operand sources, null propagation, = reflexive/symmetric/transitive, <,<=,>,>=,=,<> equal to exact int/float arithmetic and consistent with each other, + - * / % unary - abs() in range exact and out of range a finite Float.",
         "Sampled + boundary-exhaustive domain, not all values.", "DESIGN.md §4.4 C23"),
 "C33": ("cyphermon", "exploration", "differential monitor: limited vs unlimited run of generated queries under limits set around the true sizes; emitted-row counter hook for bounded extra work; huge-bound watchdog for the soft timeout",
         "Held on the generated (query, options) pairs: a limited run returned exactly the unlimited result or a ResourceLimitExceeded error; after a row-limit trip at most limit+1 rows had been emitted; effectively infinite queries stopped within the bound after the soft timeout.",
         "Only 'never stops' is decided by the clock.", "DESIGN.md §4.4 C33"),
 "C12": ("cyphermon", "exploration", "reference-model monitor: generated sequences of update statements executed by the engine (execute_mixed, and execute_write on a twin database) and by an independent model of Cypher update semantics; uid-keyed content compared after every statement, outcome (must fail / must succeed), unambiguous change counts, RETURN count(*), repeated MERGE",
         "Held on the generated statement sequences: after every statement the whole graph equalled the model's; statements the model says must fail failed without effect; pure CREATE and pure DELETE counts equalled the number of entities created/deleted; execute_write and execute_mixed agreed; a repeated MERGE whose pattern matched created nothing.",
         "A statement never reads a property it writes and never creates a second relationship of one type between the same two nodes; statements rejected at prepare or reported unsupported are not judged.", "DESIGN.md §4.4 C12"),
 "C34": ("cyphermon", "exploration", "differential monitor in child processes: the same generated statements and parameters on two copies of one database, one through the Rust API and one through the C ABI (ndb_query, statement API, ndb_execute_write, explicit transactions); fixed Value->JSON mapping, change counts, content through both APIs, error category by the engine's message convention, entry-point acceptance judged against the generator's knowledge of what it generated, exit status of the child; thorough tier adds the C-ABI lifecycle script under Miri and the same generated workload rebuilt with AddressSanitizer (one report file per child process)",
         "Held on the generated statements: rows and values equal as multisets under the fixed mapping through ndb_query and the statement API; change counts and final database content equal; error categories equal where the Rust error carries a category; read entry points refused every generated update (top level, FOREACH, CALL {}, UNION arms) without effect and write entry points refused statements without updates; no C API call terminated the process.",
         "Non-finite floats have no JSON form and are only required not to become numbers; row order and which rows SKIP/LIMIT keep are not compared; errors whose message has no category prefix are not compared.", "DESIGN.md §4.4 C34"),
 "C13": ("cyphermon", "exploration", "differential monitor through the C API: script with a constructed failing statement vs the same script without it, auto-commit and explicit-transaction modes, uid-keyed content comparison",
         "Held on the generated scripts: a statement failing at a generated row (runtime type errors, refused deletes, compile errors) left the final content equal to the run without it, in ndb_execute_write and inside ndb_begin_write/ndb_txn_query/ndb_txn_commit.",
         "A constructed statement that does not fail is not judged.", "DESIGN.md §4.4 C13"),
 "C14": ("cyphermon", "exploration", "invariant monitor after every statement of generated create/delete histories: endpoint liveness in both traversal directions (API and Cypher), out/in symmetry, refusal of non-DETACH deletes judged against a harness-side reference",
         "Held on the generated histories: no read returned a relationship with a missing endpoint; deletes of connected nodes without DETACH were refused, including relationships created earlier in the same statement or explicit transaction.",
         "Refusal is judged only where the reference is certain.", "DESIGN.md §4.4 C14"),
 "C24": ("cyphermon", "exploration", "differential monitor through the C API: generated dependency scripts in one explicit transaction vs the same statements as consecutive auto-commit statements, uid-keyed content comparison",
         "On the current tree this property is violated for 8 of the 9 generated dependency kinds (recorded known finding); the check keeps watching the kind that holds and reports any difference outside the recorded cause.",
         "The sequential auto-commit run is the reference.", "DESIGN.md §4.4 C24"),
 "C16": ("robust", "exploration", "hostile-input monitor in child processes (exit status / signal, caught panics, per-input run time against a huge bound) over six input families incl. depth bombs and run-time harvested seed queries",
         "Held on the generated inputs apart from the listed known finding: no child died by signal (stack overflow, allocation failure), no panic was caught and no call ran past max(20 x timeout, timeout + 20 s), on the main thread with an 8 MiB stack and RLIMIT_AS 16 GiB, against an uncompacted and a compacted graph.",
         "Errors are fine; inputs bounded to 4 MiB of text; dev-profile and sanitizer passes are thorough-tier extras.", "DESIGN.md §4.5 C16"),
 "C11": ("cyphermon", "exploration", "reference-model monitor: grammar-generated well-typed read queries evaluated by the engine and by an independent reference evaluator on random graphs; multiset / key-sequence / sub-multiset comparison; disagreements re-run, shrunk and classified by imitating one recorded deviation at a time; sandwich oracle (Cypher rows <= engine rows <= rows without uniqueness) for the relationship-uniqueness family",
         "Held on the generated queries apart from the listed known findings: rows equal the reference evaluator's for the fragment (patterns with labels, inline properties, types, three directions, variable length, OPTIONAL MATCH, WHERE with three-valued logic, WITH, UNWIND, DISTINCT, aggregation, ORDER BY, SKIP, LIMIT, UNION) on runs, compacted and reopened storage.",
         "(src, type, dst) unique in generated graphs; engine-rejected queries are inconclusive; the main generator keeps bound variables at the start of patterns and variable-length hops alone in their pattern, the other shapes are exercised by the uniqueness family.", "DESIGN.md §4.4 C11"),
}

checks = []
for p in props:
    pid = p["id"]
    if pid not in CHECKS:
        continue
    eng, cat, tech, text, note, ref = CHECKS[pid]
    checks.append({
        "property_id": pid,
        "quick_cmd": f"./check {pid} --tier quick",
        "thorough_cmd": f"./check {pid} --tier thorough",
        "evidence_file": f"/verif/evidence/{pid}.json",
        "replay_cmd_template": f"./check {pid} --replay {{path}}",
        "engine": eng,
        "level_claimed": {"category": cat, "text": text, "design_ref": ref},
        "level_note": note,
        "technique": tech,
    })
na = [{"property_id": p["id"], "reason": "no check is registered for this property"}
      for p in props if p["id"] not in CHECKS]
hooks_commits = subprocess.run(["git", "-C", "/repo", "log", "--format=%h %s", "--grep", "^verif:"], capture_output=True, text=True).stdout.strip().splitlines()
engines = {}
for pid, c in CHECKS.items():
    engines.setdefault(c[0], []).append(pid)
m = {
 "version": 1,
 "setup_cmd": "./check --setup",
 "hooks": {
  "guard": "nervusdb_verif",
  "enable": "RUSTFLAGS=\"--cfg nervusdb_verif\" (set by ./check for every build of /verif/harness against /repo's working tree)",
  "baseline_off_cmd": "cd /repo && (cargo nextest run --workspace --no-fail-fast --tool-config-file pb:/w/lib/nextest.toml --profile pb --test-threads 8 --offline || cargo test --workspace --no-fail-fast --offline)",
  "source_commits": [c.split()[0] for c in hooks_commits],
  "add_only": True,
 },
 "engines": [{"name": e, "path": f"/verif/harness/src/{e}", "serves_properties": sorted(ps),
              "kind_free_text": "runtime monitor: generated workloads against the real code with online oracles"} for e, ps in sorted(engines.items())],
 "checks": checks,
 "not_applicable": na,
 "notes": "Single entry point ./check; monitors are one Rust binary (harness/) built against /repo's working tree with the hooks enabled. Known findings: /verif/known_findings.json.",
}
json.dump(m, open(os.path.join(VERIF, "MANIFEST.json"), "w"), indent=1)
print(len(checks), "checks;", len(na), "not claimed")
