#!/usr/bin/env python3
"""Prints the markdown table of kept seeded changes (from /verif/seeded/*/meta.json) for DESIGN.md §9.5."""
import json, glob, os, re
VERIF = os.path.dirname(os.path.dirname(os.path.abspath(__file__)))
rows = []
for d in sorted(glob.glob(os.path.join(VERIF, "seeded", "*"))):
    try:
        m = json.load(open(os.path.join(d, "meta.json")))
    except Exception:
        continue
    s = re.sub(r"\s+", " ", str(m.get("summary", ""))).strip()
    first = s.split(". ")[0][:230]
    need = re.sub(r"\s+", " ", str(m.get("needs_to_manifest", ""))).strip().split(". ")[0][:200]
    det = ", ".join(m.get("detected_by_checks", []) or []) or "—"
    hist = m.get("detection_history")
    note = ""
    if hist:
        note = "missed at first; " + re.sub(r"\s+", " ", str(hist if isinstance(hist, str) else hist[-1] if isinstance(hist, list) else hist))[:260]
    rows.append((os.path.basename(d), first, need, det, note))
print("| seeded for | change (first sentence of the author's summary) | needs | caught by | history |")
print("|---|---|---|---|---|")
for r in rows:
    print("| " + " | ".join(x.replace("|", "\\|") for x in r) + " |")
