#!/bin/bash
# usage: tools/keep_mutant.sh <ID> "<check ids that caught it>" ["<check ids that missed it>"]
# Copies a validated seeded change from /tmp/mut/<ID> into /verif/seeded/<ID>/ and removes the worktree.
id=$1; caught=$2; missed=${3:-}
wt=/tmp/mut/$id; dst=/verif/seeded/$id
mkdir -p $dst
cp $wt/patch.diff $dst/patch.diff
cp $wt/demo.rs $dst/demo.rs 2>/dev/null
cp $wt/validation.txt $dst/validation.txt 2>/dev/null
cp $wt/detect.log $dst/detect.log 2>/dev/null
python3 - "$id" "$caught" "$missed" <<'PY'
import json,sys,subprocess
id,caught,missed=sys.argv[1:4]
wt=f"/tmp/mut/{id}"
m=json.load(open(f"{wt}/meta.json"))
val=open(f"{wt}/validation.txt").read() if __import__('os').path.exists(f"{wt}/validation.txt") else ""
base=subprocess.run(["git","-C",wt,"rev-parse","--short","HEAD"],capture_output=True,text=True).stdout.strip()
m["base_commit"]=base
m["confirmed_by_me"]={"patch_applies":"PATCH_APPLY=ok" in val,"demo_fails_with_patch":"DEMO_WITH_PATCH_EXIT=101" in val or "DEMO_WITH_PATCH_EXIT=1" in val,"demo_passes_without_patch":"DEMO_WITHOUT_PATCH_EXIT=0" in val,"suite_with_patch":[l for l in val.splitlines() if l.startswith("SUITE_WITH_PATCH")],"note":"the suite count includes the demonstration test itself (it lives in the worktree's tests directory and fails with the change); all pre-existing tests pass, apart from the load-sensitive t341 timeout test when the machine is busy","ran":"tools/validate_mutant.sh (apply, demo with/without, whole suite with the change) and tools/mutant_cycle.sh (VERIF_REPO=<worktree> ./check <ids>)"}
m["detected_by_checks"]=caught.split()
m["missed_by_checks"]=missed.split()
json.dump(m,open(f"/verif/seeded/{id}/meta.json","w"),indent=1)
PY
git -C /repo worktree remove --force $wt && echo "kept $id, worktree removed"
rm -rf /verif/target/rel-$(python3 -c "import hashlib;print(hashlib.sha1(b'$wt').hexdigest()[:8])") /verif/target/shadow-$(python3 -c "import hashlib;print(hashlib.sha1(b'$wt').hexdigest()[:8])")
h=$(python3 -c "import hashlib;print(hashlib.sha1(b'$wt').hexdigest()[:8])")
rm -rf /verif/target/scratch-$h /verif/target/miri-$h
