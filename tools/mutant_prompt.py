#!/usr/bin/env python3
"""Print the prompt given to a seeding sub-agent for one property (only the property text is shared)."""
import json, sys
pid = sys.argv[1]
wt = sys.argv[2] if len(sys.argv) > 2 else f"/tmp/mut/{pid}"
hint = sys.argv[3] if len(sys.argv) > 3 else ""
props = {json.loads(l)["id"]: json.loads(l) for l in open("/verif/properties.jsonl")}
p = props[pid]
print(f"""You are working in a scratch git worktree of the Rust project LuQing-Studio/nervusdb at {wt} (an embedded property-graph database: WAL / pager / B-tree / CSR storage engine, single-writer snapshot-reader transactions, and a Cypher parser, planner and executor; crates nervusdb-api, nervusdb-storage, nervusdb-query, nervusdb (facade), nervusdb-capi). Work ONLY inside {wt}; never touch /repo, /verif or any other directory. There is no network: always pass --offline to cargo and set CARGO_TARGET_DIR={wt}/target.

PROPERTY ({pid}) "{p['title']}": {p['statement']}
Scope of the quantifier: {p['quantifier']['text']}

TASK: produce a realistic change to the library source (not to tests) that BREAKS this property — the kind of bug a developer could plausibly introduce (a refactor slip, a misplaced or missing call, an off-by-one, a wrong ordering of two steps, a lost flush, a wrong lock order, a wrong boundary comparison ...) — such that:
 (1) the workspace still compiles;
 (2) the whole existing test suite still passes: `cargo test --workspace --no-fail-fast --offline` (the `tck_harness` test target fails to start on the unchanged tree as well because its feature files are absent — ignore that one target; everything else, 506 tests, must still pass);
 (3) the breakage needs something SPECIFIC to manifest — a particular interleaving, a crash or I/O fault at a particular point, a multi-step sequence of operations, an unusual input or value, or two cooperating code sites that each look fine alone. It must NOT be something ordinary use would expose at once.
{hint}
Lines guarded by `#[cfg(nervusdb_verif)]` are inert instrumentation: do not modify, remove or rely on them, and do not put your change inside such a guard. The machine is shared with other builds: pass `-j 6` to cargo, run the FULL test suite only once (at the end, with your change applied), and use targeted `cargo test -p <crate> --test <name>` runs while iterating. Keep the change small (a few lines, at most two sites) and make it look like an honest mistake, not sabotage.

DELIVERABLES (all inside {wt}):
 - leave the source change applied (uncommitted) in the worktree and also write it to {wt}/patch.diff with `git diff -- <the source files you changed> > patch.diff` (library source only, no demo/test files in it);
 - a demonstration: a new integration test file (for example nervusdb/tests/mut_demo.rs) or a small program that FAILS with your change and PASSES without it; copy it to {wt}/demo.rs and record the exact command that runs it. Verify BOTH directions yourself (e.g. `git apply -R patch.diff` / `git apply patch.diff`). If the demonstration needs a fault or interleaving, build it into the demo (e.g. truncate/corrupt files between steps, use threads with barriers/sleeps, copy database files mid-way to emulate a crash) without relying on the nervusdb_verif hooks;
 - {wt}/meta.json: {{"property": "{pid}", "summary": "...", "needs_to_manifest": "...", "files_changed": [...], "demo_cmd": "...", "demo_fails_with_patch": true, "demo_passes_without_patch": true, "suite_result_with_patch": "N passed, M failed"}}.
Finish by reporting a short summary (what you changed, why the suite does not see it, what the demo does).""")
