//! C16: for any query text, parameters and graph, preparing and executing a query returns rows or
//! an error; it never panics, never aborts the process (stack overflow, allocation failure) and
//! never runs past the configured timeout.
//!
//! Inputs run in child processes of this binary, on the child's main thread (8 MiB stack), with
//! RLIMIT_AS; the parent interprets exit status / signal, caught panics and per-input run time.

use crate::common::child::{Exit, read_batch, run_worker, signal_name, write_batch};
use crate::common::dump::panic_msg;
use crate::common::report::{Args, CaseOut, Report, Violation};
use crate::common::rng::Rng;
use crate::common::sut::ScratchDir;
use ndb_core::Db;
use ndb_core::query::{ExecuteOptions, Params, Value, prepare};
use serde_json::json;
use std::panic::{AssertUnwindSafe, catch_unwind};
use std::time::{Duration, Instant};

const SOFT_TIMEOUT_MS: u64 = 250;

fn setup_graph(db: &Db, compacted: bool) {
    let p = Params::new();
    for s in [
        "CREATE (a:Person {name: 'Alice', age: 30, uid: 1})-[:KNOWS {since: 2020}]->(b:Person {name: 'Bob', age: 25, uid: 2})",
        "MATCH (b:Person {uid: 2}) CREATE (b)-[:KNOWS]->(c:Person:Admin {name: 'Carol', uid: 3, tags: ['x', 'y'], score: 1.5})",
        "MATCH (a:Person {uid: 1}), (c:Person {uid: 3}) CREATE (c)-[:LIKES {w: 0.5}]->(a), (a)-[:LIKES]->(a)",
        "CREATE (:Thing {uid: 4}), (:Thing {uid: 5, flag: true})",
    ] {
        let _ = crate::common::cypher::run_write(db, s, &p);
    }
    if compacted {
        let _ = db.compact();
    }
}

fn params_for(input: &[u8]) -> Params {
    let mut rng = Rng::new(input.iter().fold(1469598103934665603u64, |h, b| (h ^ *b as u64).wrapping_mul(1099511628211)));
    let mut p = Params::with_execute_options(ExecuteOptions { soft_timeout_ms: SOFT_TIMEOUT_MS, ..ExecuteOptions::default() });
    let vals = [
        Value::Null,
        Value::Int(rng.range(-5, 5)),
        Value::Int(i64::MAX),
        Value::Int(i64::MIN),
        Value::Float(f64::NAN),
        Value::Float(1e308),
        Value::String("x".into()),
        Value::String(String::new()),
        Value::Bool(true),
        Value::List(vec![Value::Int(1), Value::Null, Value::String("a".into())]),
        Value::Map([("a".to_string(), Value::Int(1))].into_iter().collect()),
        Value::List((0..50).map(Value::Int).collect()),
    ];
    for name in ["p", "x", "xs", "v", "list", "name", "props", "param", "a", "n"] {
        p.insert(name, rng.pick(&vals).clone());
    }
    p
}

/// `vmon C16-worker <batch> <compacted:0|1>`
pub fn worker(batch: &str, compacted: &str) {
    let inputs = read_batch(std::path::Path::new(batch));
    let dir = ScratchDir::new("c16w");
    let db = Db::open(dir.db_base()).expect("open");
    setup_graph(&db, compacted == "1");
    for (i, inp) in inputs.iter().enumerate() {
        println!("{i} start");
        let text = String::from_utf8_lossy(inp).to_string();
        let params = params_for(inp);
        let t0 = Instant::now();
        let r = catch_unwind(AssertUnwindSafe(|| {
            let prepared = match prepare(&text) {
                Ok(p) => p,
                Err(_) => return "rejected",
            };
            // read path
            let snap = db.snapshot();
            let mut n = 0usize;
            let mut failed = false;
            for row in prepared.execute_streaming(&snap, &params) {
                match row {
                    Ok(r) => {
                        // reify as a client would
                        let _ = r.reify(&snap);
                        n += 1;
                        if n > 20_000 {
                            break;
                        }
                    }
                    Err(_) => {
                        failed = true;
                        break;
                    }
                }
            }
            // write path (the transaction is dropped: inputs must not accumulate state)
            let mut txn = db.begin_write();
            let w = prepared.execute_mixed(&snap, &mut txn, &params);
            drop(txn);
            if failed && w.is_err() { "error" } else { "executed" }
        }));
        let ms = t0.elapsed().as_millis();
        match r {
            Ok(what) => println!("{i} {what} {ms}"),
            Err(p) => println!("{i} panic {ms} {}", panic_msg(&p).replace('\n', " ")),
        }
    }
}

// ---------------------------------------------------------------------------------------------
// input families
// ---------------------------------------------------------------------------------------------

fn harvest_seeds() -> Vec<String> {
    let repo = std::env::var("VERIF_REPO").unwrap_or_else(|_| "/repo".into());
    let mut out: Vec<String> = Vec::new();
    let mut dirs = vec![format!("{repo}/nervusdb/tests"), format!("{repo}/fuzz/regressions"), format!("{repo}/nervusdb-query/src")];
    while let Some(d) = dirs.pop() {
        let Ok(rd) = std::fs::read_dir(&d) else { continue };
        for e in rd.flatten() {
            let p = e.path();
            if p.is_dir() {
                if out.len() < 4000 {
                    dirs.push(p.to_string_lossy().to_string());
                }
                continue;
            }
            let Ok(text) = std::fs::read_to_string(&p) else { continue };
            if p.extension().map(|x| x == "rs").unwrap_or(false) {
                // string literals that look like Cypher
                let bytes = text.as_bytes();
                let mut i = 0;
                while i < bytes.len() {
                    if bytes[i] == b'"' {
                        let start = i + 1;
                        let mut j = start;
                        while j < bytes.len() && bytes[j] != b'"' {
                            if bytes[j] == b'\\' {
                                j += 1;
                            }
                            j += 1;
                        }
                        if j < bytes.len() {
                            let lit = &text[start..j.min(text.len())];
                            let up = lit.to_ascii_uppercase();
                            if lit.len() > 8 && lit.len() < 400 && (up.contains("MATCH") || up.contains("RETURN") || up.contains("CREATE") || up.contains("UNWIND") || up.contains("MERGE")) {
                                out.push(lit.replace("\\\"", "\"").replace("\\n", "\n"));
                            }
                        }
                        i = j + 1;
                    } else {
                        i += 1;
                    }
                }
            } else if text.len() < 2000 {
                out.push(text);
            }
        }
    }
    out.sort();
    out.dedup();
    out
}

const KEYWORDS: [&str; 40] = [
    "MATCH", "OPTIONAL MATCH", "WHERE", "RETURN", "WITH", "UNWIND", "CREATE", "MERGE", "SET", "REMOVE", "DELETE", "DETACH DELETE", "ORDER BY", "SKIP", "LIMIT", "DISTINCT", "UNION", "UNION ALL", "CALL", "YIELD",
    "FOREACH", "ON CREATE SET", "ON MATCH SET", "AS", "AND", "OR", "XOR", "NOT", "IN", "IS NULL", "IS NOT NULL", "STARTS WITH", "ENDS WITH", "CONTAINS", "CASE", "WHEN", "THEN", "ELSE", "END", "EXISTS",
];
const FUNCS: [&str; 60] = [
    "abs", "ceil", "floor", "round", "sign", "sqrt", "exp", "log", "log10", "sin", "cos", "tan", "rand", "toInteger", "toFloat", "toString", "toBoolean", "size", "length", "head", "last", "tail", "reverse", "range", "keys", "labels", "type", "id", "properties", "nodes",
    "relationships", "coalesce", "substring", "left", "right", "trim", "ltrim", "rtrim", "toUpper", "toLower", "replace", "split", "date", "datetime", "localdatetime", "time", "localtime", "duration", "count", "sum", "avg", "min", "max", "collect", "percentileDisc", "percentileCont", "stDev", "startNode", "endNode", "shortestPath",
];

fn gen_expr(rng: &mut Rng, depth: u32) -> String {
    let atoms = ["n", "m", "r", "x", "n.name", "n.age", "m.uid", "r.since", "$p", "$xs", "$props", "1", "0", "-1", "2.5", "'a'", "''", "null", "true", "false", "[]", "[1, 2, 3]", "{a: 1}", "9223372036854775807", "1e308", "'2020-01-01'", "n.tags", "*"];
    if depth > 3 || rng.chance(1, 3) {
        return rng.pick(&atoms).to_string();
    }
    match rng.below(14) {
        0 => format!("{}({})", rng.pick(&FUNCS), gen_expr(rng, depth + 1)),
        1 => format!("{}({}, {})", rng.pick(&FUNCS), gen_expr(rng, depth + 1), gen_expr(rng, depth + 1)),
        2 => format!("({} {} {})", gen_expr(rng, depth + 1), rng.pick(&["+", "-", "*", "/", "%", "^", "=", "<>", "<", "<=", ">", ">=", "AND", "OR", "XOR", "IN", "STARTS WITH", "ENDS WITH", "CONTAINS", "=~"]), gen_expr(rng, depth + 1)),
        3 => format!("NOT {}", gen_expr(rng, depth + 1)),
        4 => format!("-{}", gen_expr(rng, depth + 1)),
        5 => format!("[{}, {}]", gen_expr(rng, depth + 1), gen_expr(rng, depth + 1)),
        6 => format!("{}[{}]", gen_expr(rng, depth + 1), gen_expr(rng, depth + 1)),
        7 => format!("{}[{}..{}]", gen_expr(rng, depth + 1), gen_expr(rng, depth + 1), gen_expr(rng, depth + 1)),
        8 => format!("CASE WHEN {} THEN {} ELSE {} END", gen_expr(rng, depth + 1), gen_expr(rng, depth + 1), gen_expr(rng, depth + 1)),
        9 => format!("[y IN {} WHERE {} | {}]", gen_expr(rng, depth + 1), gen_expr(rng, depth + 1), gen_expr(rng, depth + 1)),
        10 => format!("{}(y IN {} WHERE {})", rng.pick(&["any", "all", "none", "single"]), gen_expr(rng, depth + 1), gen_expr(rng, depth + 1)),
        11 => format!("reduce(acc = {}, y IN {} | acc + {})", gen_expr(rng, depth + 1), gen_expr(rng, depth + 1), gen_expr(rng, depth + 1)),
        12 => format!("{} IS {}NULL", gen_expr(rng, depth + 1), if rng.chance(1, 2) { "NOT " } else { "" }),
        _ => format!("{{k: {}, j: {}}}", gen_expr(rng, depth + 1), gen_expr(rng, depth + 1)),
    }
}

fn gen_pattern(rng: &mut Rng) -> String {
    let node = |rng: &mut Rng| match rng.below(6) {
        0 => "()".to_string(),
        1 => "(n)".to_string(),
        2 => "(n:Person)".to_string(),
        3 => "(m:Person:Admin {uid: 3})".to_string(),
        4 => format!("(x {{name: {}}})", gen_expr(rng, 3)),
        _ => "(m)".to_string(),
    };
    let rel = |rng: &mut Rng| rng.pick(&["-->", "<--", "--", "-[r]->", "-[r:KNOWS]->", "<-[r:KNOWS|LIKES]-", "-[*]->", "-[*1..3]-", "-[r:KNOWS*0..2]->", "-[r {since: 2020}]-", "-[*..]->"]).to_string();
    let mut s = node(rng);
    for _ in 0..rng.below(3) {
        s.push_str(&rel(rng));
        s.push_str(&node(rng));
    }
    if rng.chance(1, 6) {
        s = format!("p = {s}");
    }
    if rng.chance(1, 10) {
        s = format!("p = shortestPath({s})");
    }
    s
}

fn gen_query(rng: &mut Rng) -> String {
    let mut parts: Vec<String> = Vec::new();
    for _ in 0..1 + rng.below(4) {
        parts.push(match rng.below(16) {
            0 | 1 => format!("MATCH {}", gen_pattern(rng)),
            2 => format!("OPTIONAL MATCH {}", gen_pattern(rng)),
            3 => format!("WHERE {}", gen_expr(rng, 0)),
            4 => format!("WITH {} AS x", gen_expr(rng, 0)),
            5 => format!("UNWIND {} AS x", gen_expr(rng, 0)),
            6 => format!("CREATE {}", gen_pattern(rng)),
            7 => format!("MERGE {}", gen_pattern(rng)),
            8 => format!("SET n.k = {}", gen_expr(rng, 0)),
            9 => format!("SET n += {}", gen_expr(rng, 1)),
            10 => "DETACH DELETE n".to_string(),
            11 => format!("FOREACH (y IN {} | SET n.z = y)", gen_expr(rng, 1)),
            12 => format!("CALL {{ WITH n MATCH {} RETURN count(*) AS c }}", gen_pattern(rng)),
            13 => "REMOVE n:Admin".to_string(),
            14 => format!("WITH DISTINCT n ORDER BY {} SKIP {} LIMIT {}", gen_expr(rng, 1), gen_expr(rng, 2), gen_expr(rng, 2)),
            _ => format!("WITH *, {} AS y", gen_expr(rng, 0)),
        });
    }
    parts.push(match rng.below(5) {
        0 => format!("RETURN {}", gen_expr(rng, 0)),
        1 => format!("RETURN DISTINCT {} AS a, {} AS b ORDER BY a DESC, b LIMIT 10", gen_expr(rng, 0), gen_expr(rng, 0)),
        2 => format!("RETURN {}, count(*)", gen_expr(rng, 0)),
        3 => "RETURN *".to_string(),
        _ => format!("RETURN {} UNION RETURN {}", gen_expr(rng, 0), gen_expr(rng, 0)),
    });
    parts.join(" ")
}

fn mutate(rng: &mut Rng, seed: &str) -> String {
    let mut toks: Vec<String> = seed.split_whitespace().map(|s| s.to_string()).collect();
    if toks.is_empty() {
        return seed.to_string();
    }
    for _ in 0..1 + rng.below(3) {
        let i = rng.below(toks.len());
        match rng.below(8) {
            0 => {
                toks.remove(i);
            }
            1 => {
                let t = toks[i].clone();
                toks.insert(i, t);
            }
            2 => toks[i] = rng.pick(&KEYWORDS).to_string(),
            3 => toks[i] = rng.pick(&["9223372036854775808", "-9223372036854775809", "1e999", "0x7fffffffffffffffff", "''", "'\\u0000'", "null", "$p", "[]", "{}", "*", "..", "0.0", "-0"]).to_string(),
            4 => toks.insert(i, gen_expr(rng, 1)),
            5 => {
                let j = rng.below(toks.len());
                toks.swap(i, j);
            }
            6 => toks[i] = format!("{}{}", toks[i], rng.pick(&["(", ")", "[", "]", "{", "}", ",", ":", "|", "'", "\"", "`", "\u{202e}", "\u{0}", "é", "🦀"])),
            _ => toks.truncate(i.max(1)),
        }
        if toks.is_empty() {
            break;
        }
    }
    toks.join(" ")
}

fn depth_bombs(rng: &mut Rng, max_depth: usize) -> Vec<(String, String)> {
    let mut out = Vec::new();
    let depths: Vec<usize> = [10usize, 100, 1000, 5000, 20_000, 100_000, 200_000].into_iter().filter(|d| *d <= max_depth).collect();
    for &d in &depths {
        let wrap = |open: &str, inner: &str, close: &str| format!("{}{}{}", open.repeat(d), inner, close.repeat(d));
        out.push((format!("parens:{d}"), format!("RETURN {}", wrap("(", "1", ")"))));
        out.push((format!("lists:{d}"), format!("RETURN {}", wrap("[", "1", "]"))));
        out.push((format!("maps:{d}"), format!("RETURN {}", wrap("{a: ", "1", "}"))));
        out.push((format!("not:{d}"), format!("RETURN {}true", "NOT ".repeat(d))));
        out.push((format!("unary-minus:{d}"), format!("RETURN {}1", "- ".repeat(d))));
        out.push((format!("function-calls:{d}"), format!("RETURN {}", wrap("abs(", "1", ")"))));
        out.push((format!("case:{d}"), format!("RETURN {}", wrap("CASE WHEN true THEN ", "1", " END"))));
        out.push((format!("list-comprehension:{d}"), format!("RETURN {}", wrap("[y IN ", "[1]", " | y]"))));
        out.push((format!("add-chain:{d}"), format!("RETURN 1{}", " + 1".repeat(d))));
        out.push((format!("and-chain:{d}"), format!("RETURN true{}", " AND true".repeat(d))));
        // operator chains the parser rewrites or folds in its own loops: chained comparisons
        // (a < b < c is (a < b) AND (b < c)), mixed arithmetic, string and list operators, postfix tests
        out.push((format!("comparison-chain:{d}"), format!("RETURN 0{} AS r", (1..=d).map(|i| format!(" < {i}")).collect::<String>())));
        out.push((format!("comparison-chain-mixed:{d}"), format!("RETURN 0{} AS r", (1..=d).map(|i| format!(" {} {i}", ["<", "<=", "<>", "="][i % 4])).collect::<String>())));
        out.push((format!("or-xor-chain:{d}"), format!("RETURN false{}", (0..d).map(|i| if i % 2 == 0 { " OR false" } else { " XOR true" }).collect::<String>())));
        out.push((format!("mul-mod-chain:{d}"), format!("RETURN 1{}", (0..d).map(|i| [" * 1", " % 7", " - 0", " / 1"][i % 4]).collect::<String>())));
        out.push((format!("string-op-chain:{d}"), format!("RETURN 'a'{}", " + 'b'".repeat(d))));
        out.push((format!("in-chain:{d}"), format!("RETURN 1{}", " IN [true]".repeat(d))));
        out.push((format!("is-null-chain:{d}"), format!("RETURN 1{}", " IS NOT NULL".repeat(d))));
        out.push((format!("power-chain:{d}"), format!("RETURN 1{}", " ^ 1".repeat(d))));
        out.push((format!("index-chain:{d}"), format!("RETURN [[1]]{}", "[0]".repeat(d))));
        out.push((format!("property-chain:{d}"), format!("RETURN {{a: 1}}{}", ".a".repeat(d))));
        if d <= 5000 {
            out.push((format!("subquery:{d}"), format!("{}RETURN 1{}", "CALL { ".repeat(d), " }".repeat(d))));
            out.push((format!("exists:{d}"), format!("MATCH (n) WHERE {}true{} RETURN n", "exists { MATCH (n) WHERE ".repeat(d.min(500)), " }".repeat(d.min(500)))));
            out.push((format!("with-chain:{d}"), format!("WITH 1 AS x{} RETURN x", " WITH x".repeat(d))));
            out.push((format!("union-chain:{d}"), format!("RETURN 1 AS x{}", " UNION RETURN 1 AS x".repeat(d))));
            out.push((format!("pattern-chain:{d}"), format!("MATCH (a){} RETURN a", "-->()".repeat(d))));
        }
    }
    let _ = rng;
    out
}

fn huge_literals() -> Vec<(String, String)> {
    vec![
        ("string-4MiB".into(), format!("RETURN '{}'", "a".repeat(4 << 20))),
        ("list-100k".into(), format!("RETURN [{}]", (0..100_000).map(|i| i.to_string()).collect::<Vec<_>>().join(","))),
        ("int-overflow".into(), "RETURN 99999999999999999999999999999999999999".into()),
        ("float-400-digits".into(), format!("RETURN {}.0", "9".repeat(400))),
        ("float-tiny".into(), format!("RETURN 0.{}1", "0".repeat(400))),
        ("range-huge".into(), "RETURN range(0, 9223372036854775807)".into()),
        ("range-huge-step".into(), "UNWIND range(-9223372036854775808, 9223372036854775807, 4611686018427387904) AS x RETURN x".into()),
        ("repeat-string".into(), "RETURN reduce(s = 'x', i IN range(1, 40) | s + s)".into()),
        ("substring-huge".into(), "RETURN substring('abc', 9223372036854775807, 9223372036854775807)".into()),
        ("left-huge".into(), "RETURN left('abc', 9223372036854775807), right('abc', 9223372036854775807)".into()),
        ("varlen-unbounded".into(), "MATCH p = (a)-[*]-(b) RETURN count(p)".into()),
        ("cartesian-6".into(), "MATCH (a), (b), (c), (d), (e), (f) RETURN count(*)".into()),
        ("ident-1MiB".into(), format!("RETURN 1 AS {}", "a".repeat(1 << 20))),
        ("many-columns".into(), format!("RETURN {}", (0..20_000).map(|i| format!("{i} AS c{i}")).collect::<Vec<_>>().join(", "))),
        ("unicode-escapes".into(), "RETURN '\\uD800', '\\uFFFF', '\\x', '\u{1F980}'".into()),
        ("toInteger-huge".into(), "RETURN toInteger(1e300), toInteger('99999999999999999999'), toFloat('1e99999')".into()),
        ("date-extremes".into(), "RETURN date({year: 999999999, month: 13, day: 40}), datetime('99999-99-99T99:99:99'), duration({days: 9223372036854775807})".into()),
        ("percentile-bad".into(), "UNWIND [1, 2] AS x RETURN percentileCont(x, -1), percentileDisc(x, 1e308)".into()),
        ("split-empty".into(), "RETURN split('', ''), replace('aaaa', '', 'b'), split('abc', '')".into()),
        ("modulo-min".into(), "RETURN -9223372036854775808 % -1, -9223372036854775808 / -1, abs(-9223372036854775808)".into()),
    ]
}

/// Family name used in signatures: depth bombs without their depth, huge literals with their name.
fn sig_family(fam: &str) -> String {
    let parts: Vec<&str> = fam.split(':').collect();
    match parts.first().copied() {
        Some("depth-bomb") | Some("huge-literal") => parts.iter().take(2).cloned().collect::<Vec<_>>().join(":"),
        Some(f) => f.to_string(),
        None => "?".into(),
    }
}

struct Judged {
    crashed: bool,
}

/// Runs one batch; a crashing or hanging input ends the child, the rest continues in a new one.
fn judge(inputs: &[(String, Vec<u8>)], compacted: bool, out: &mut CaseOut) -> Judged {
    let dir = ScratchDir::new("c16b");
    let mut start = 0usize;
    let mut crashed = false;
    let bound_ms: u128 = (20 * SOFT_TIMEOUT_MS as u128).max(SOFT_TIMEOUT_MS as u128 + 20_000);
    while start < inputs.len() {
        let path = dir.path.join(format!("batch-{start}"));
        write_batch(&path, &inputs[start..].iter().map(|(_, b)| b.clone()).collect::<Vec<_>>());
        let n_left = inputs.len() - start;
        let res = run_worker(&["C16-worker".into(), path.to_string_lossy().to_string(), if compacted { "1".into() } else { "0".into() }], Duration::from_secs(60 + (n_left as u64) / 4), Some(16 << 30), &[]);
        let mut last_started: Option<usize> = None;
        let mut done = 0usize;
        for l in &res.lines {
            let parts: Vec<&str> = l.splitn(4, ' ').collect();
            if parts.len() == 2 && parts[1] == "start" {
                last_started = parts[0].parse().ok();
                continue;
            }
            if parts.len() < 3 {
                continue;
            }
            let i: usize = parts[0].parse().unwrap_or(0);
            let (fam, inp) = &inputs[start + i];
            let ms: u128 = parts[2].parse().unwrap_or(0);
            out.evaluations += 1;
            done = i + 1;
            out.count(&format!("outcome.{}", parts[1]), 1);
            let famk = fam.split(':').next().unwrap_or("?");
            out.count(&format!("family.{famk}"), 1);
            out.cell(format!("{famk}:{}", parts[1]));
            if parts[1] != "rejected" {
                out.count("inputs_reaching_execution", 1);
            }
            if parts[1] == "panic" {
                let msg = parts.get(3).copied().unwrap_or("");
                out.violations.push(Violation {
                    signature: format!("C16|panic|{}", crate::storemon::normalise_msg(msg).chars().take(90).collect::<String>()),
                    summary: format!("query processing panicked: {msg}"),
                    detail: json!({"family": fam, "query": String::from_utf8_lossy(&inp[..inp.len().min(600)]), "query_len": inp.len(), "graph": if compacted { "compacted" } else { "runs" }}),
                    replay: json!({"engine":"robust","property":"C16","family":fam,"query_b64_prefix": String::from_utf8_lossy(&inp[..inp.len().min(2000)])}),
                });
            } else if ms > bound_ms {
                // measured inside a batch on a machine that may be busy: only an input that is past
                // the bound again when it runs alone counts
                let p1 = dir.path.join("single-slow");
                write_batch(&p1, &[inp.clone()]);
                let alone = run_worker(&["C16-worker".into(), p1.to_string_lossy().to_string(), if compacted { "1".into() } else { "0".into() }], Duration::from_millis(bound_ms as u64 + 5000), Some(16 << 30), &[]);
                let ms2: Option<u128> = alone.lines.iter().filter_map(|l| l.splitn(4, ' ').nth(2).and_then(|x| x.parse().ok())).next_back();
                let again = matches!(alone.exit, Exit::Timeout) || ms2.map(|m| m > bound_ms).unwrap_or(false);
                if again {
                    out.violations.push(Violation {
                        signature: format!("C16|runs-past-timeout|{}", sig_family(fam)),
                        summary: format!("with soft_timeout_ms = {SOFT_TIMEOUT_MS} the call returned after {ms} ms in its batch and after {} alone (bound {bound_ms} ms)", ms2.map(|m| format!("{m} ms")).unwrap_or_else(|| "more than the watchdog".into())),
                        detail: json!({"family": fam, "query": String::from_utf8_lossy(&inp[..inp.len().min(600)]), "elapsed_ms": ms as u64}),
                        replay: json!({"engine":"robust","property":"C16","family":fam}),
                    });
                } else {
                    out.inconclusive("slow-in-batch-but-within-the-bound-alone");
                }
            }
        }
        if matches!(res.exit, Exit::Ok) && done >= n_left {
            break;
        }
        // the child ended early: attribute to the input it had started
        let culprit = last_started.unwrap_or(done);
        if culprit < n_left && !matches!(res.exit, Exit::Ok) {
            let (fam, inp) = &inputs[start + culprit];
            let famk = fam.split(':').next().unwrap_or("?");
            out.evaluations += 1;
            out.count(&format!("family.{famk}"), 1);
            match &res.exit {
                Exit::Signal(s) => {
                    crashed = true;
                    let what = if res.stderr_tail.contains("stack overflow") || res.stderr_tail.contains("overflowed its stack") { "stack-overflow" } else if res.stderr_tail.contains("memory allocation") { "allocation-failure" } else { signal_name(*s) };
                    out.cell(format!("{famk}:aborted"));
                    out.violations.push(Violation {
                        signature: format!("C16|process-aborted:{what}|{}", sig_family(fam)),
                        summary: format!("the process was killed by {} ({what}) while processing a query of family {fam}", signal_name(*s)),
                        detail: json!({"family": fam, "query_prefix": String::from_utf8_lossy(&inp[..inp.len().min(300)]), "query_len": inp.len(), "stderr_tail": res.stderr_tail.chars().rev().take(300).collect::<String>().chars().rev().collect::<String>()}),
                        replay: json!({"engine":"robust","property":"C16","family":fam}),
                    });
                }
                Exit::Timeout => {
                    // confirm alone with the property's own bound
                    let p1 = dir.path.join("single");
                    write_batch(&p1, &[inp.clone()]);
                    let alone = run_worker(&["C16-worker".into(), p1.to_string_lossy().to_string(), if compacted { "1".into() } else { "0".into() }], Duration::from_millis(bound_ms as u64 + 5000), Some(16 << 30), &[]);
                    if matches!(alone.exit, Exit::Timeout) {
                        out.cell(format!("{famk}:hang"));
                        out.violations.push(Violation {
                            signature: format!("C16|runs-past-timeout|{}", sig_family(fam)),
                            summary: format!("with soft_timeout_ms = {SOFT_TIMEOUT_MS} the query was still running after {} ms", bound_ms + 5000),
                            detail: json!({"family": fam, "query_prefix": String::from_utf8_lossy(&inp[..inp.len().min(300)]), "query_len": inp.len()}),
                            replay: json!({"engine":"robust","property":"C16","family":fam}),
                        });
                    } else {
                        out.inconclusive("batch-watchdog-fired-but-input-finishes-alone");
                    }
                }
                Exit::Code(c) => {
                    out.inconclusive(&format!("worker-exit-code-{c}"));
                }
                Exit::Ok => {}
            }
            start += culprit + 1;
        } else {
            start += done.max(1);
        }
    }
    Judged { crashed }
}

pub fn main(args: &Args) -> Report {
    let mut rep = Report::new(
        "C16",
        &args.tier,
        args.seed,
        "exploration",
        "query texts from six families — random bytes/Unicode; grammar-generated Cypher over all clauses and ~60 functions; token-level mutations of query strings harvested at run time from the repository's tests, fuzz regressions and sources; depth bombs (25 constructs x nesting/chain depths 10 .. 200000); huge and extreme literals; random parameters of every kind — prepared and executed (streaming read with reification, then execute_mixed in a dropped transaction) with soft_timeout_ms=250 in child processes on the main thread (8 MiB stack, RLIMIT_AS 16 GiB), on an uncompacted and a compacted graph. Oracle: the child does not die by signal, no panic is caught, and no call returns later than max(20 x timeout, timeout + 20 s). A cell is (family, outcome)",
    );
    rep.assume("errors are fine; only abnormal termination, caught panics and the huge time bound count; inputs are bounded to 4 MiB of text");
    let mut rng = Rng::new(args.seed);
    let t = args.thorough();
    let seeds = harvest_seeds();
    let mut out = CaseOut::default();
    out.count("seed_queries_harvested", seeds.len() as u64);
    let deadline = Instant::now() + Duration::from_secs(args.budget_s(140, 1500));
    let rounds = if t { 60 } else { 3 };
    let per_family = if t { 3000 } else { 1500 };
    let only_special = std::env::var("VERIF_C16_ONLY").map(|v| v == "special").unwrap_or(false);
    for round in 0..rounds {
        if Instant::now() > deadline {
            break;
        }
        let compacted = round % 2 == 1;
        let mut inputs: Vec<(String, Vec<u8>)> = Vec::new();
        for _ in 0..if only_special { 0 } else { per_family } {
            // (1) random bytes / strings
            let b = match rng.below(3) {
                0 => rng.bytes_upto(200),
                1 => (0..rng.below(120)).map(|_| *rng.pick(b"MATCHRETUNWIDmatchreturn()[]{}<>-=:.,'\"$*|+ 0123456789\n\t")).collect(),
                _ => {
                    let alphabet: Vec<char> = "MATCH (n) RETURN n é🦀\u{202e}\u{0}\u{feff}ﬁ∑'\"`\\".chars().collect();
                    (0..rng.below(80)).map(|_| *rng.pick(&alphabet)).collect::<String>().into_bytes()
                }
            };
            inputs.push(("random".into(), b));
            // (2) grammar
            inputs.push(("grammar".into(), gen_query(&mut rng).into_bytes()));
            // (3) mutated seeds
            if !seeds.is_empty() {
                let s = rng.pick(&seeds).clone();
                inputs.push(("mutated-seed".into(), mutate(&mut rng, &s).into_bytes()));
                inputs.push(("seed".into(), s.into_bytes()));
            }
        }
        // shards run in parallel children
        let shards: Vec<Vec<(String, Vec<u8>)>> = {
            let n = crate::common::report::threads().max(1);
            let mut v: Vec<Vec<(String, Vec<u8>)>> = (0..n).map(|_| Vec::new()).collect();
            for (i, inp) in inputs.into_iter().enumerate() {
                v[i % n].push(inp);
            }
            v
        };
        let results: Vec<CaseOut> = std::thread::scope(|sc| {
            let hs: Vec<_> = shards
                .iter()
                .map(|sh| {
                    sc.spawn(move || {
                        let mut o = CaseOut::default();
                        if !sh.is_empty() {
                            judge(sh, compacted, &mut o);
                        }
                        o
                    })
                })
                .collect();
            hs.into_iter().map(|h| h.join().unwrap_or_default()).collect()
        });
        for o in results {
            out.merge(o);
        }
        // (4) depth bombs and (5) huge literals: one child each, so that a crash names its input
        let max_depth = if round == 0 { 200_000 } else { 5000 };
        if round < 1 || t {
            // one child per input (a crash names its input), all of them in parallel
            let mut special: Vec<(String, Vec<u8>)> = depth_bombs(&mut rng, max_depth).into_iter().map(|(f, q)| (format!("depth-bomb:{f}"), q.into_bytes())).collect();
            special.extend(huge_literals().into_iter().map(|(f, q)| (format!("huge-literal:{f}"), q.into_bytes())));
            let next = std::sync::atomic::AtomicUsize::new(0);
            let merged = std::sync::Mutex::new(CaseOut::default());
            std::thread::scope(|sc| {
                for _ in 0..crate::common::report::threads().max(1) {
                    sc.spawn(|| {
                        loop {
                            let i = next.fetch_add(1, std::sync::atomic::Ordering::SeqCst);
                            if i >= special.len() {
                                break;
                            }
                            let mut o = CaseOut::default();
                            judge(std::slice::from_ref(&special[i]), compacted, &mut o);
                            merged.lock().unwrap().merge(o);
                        }
                    });
                }
            });
            out.merge(merged.into_inner().unwrap());
        }
    }
    out.samples.push(json!({"family": "grammar", "query": gen_query(&mut Rng::new(args.seed))}));
    out.samples.push(json!({"family": "depth-bomb", "query": "RETURN ((((( ... 100000 deep ... 1 )))))"}));
    if let Some(s) = seeds.first() {
        out.samples.push(json!({"family": "mutated-seed", "seed": s, "mutant": mutate(&mut Rng::new(args.seed), s)}));
    }
    let mut seen = std::collections::BTreeMap::<String, usize>::new();
    out.violations.retain(|v| {
        let c = seen.entry(v.signature.clone()).or_default();
        *c += 1;
        *c <= 2
    });
    rep.out = out;
    rep.floor("inputs", rep.out.evaluations, if t { 30_000 } else { 4_000 });
    rep.floor("inputs reaching execution", rep.counter("inputs_reaching_execution"), if t { 8_000 } else { 700 });
    for f in ["random", "grammar", "mutated-seed", "depth-bomb", "huge-literal"] {
        rep.floor(&format!("family {f}"), rep.counter(&format!("family.{f}")), if matches!(f, "depth-bomb" | "huge-literal") { 20 } else { 1000 });
    }
    rep
}
