//! robust: monitors whose subject is "never crashes the host" (C25 codecs, C16 query processing).

pub mod alloc;
pub mod codec;
pub mod query;
