//! Counting global allocator: lets a monitor observe how much memory a call requests.
//! Counting is off unless a worker switches it on, so ordinary runs pay two relaxed loads.

use std::alloc::{GlobalAlloc, Layout, System};
use std::sync::atomic::{AtomicBool, AtomicUsize, Ordering};

pub struct Counting;

static ON: AtomicBool = AtomicBool::new(false);
static LIVE: AtomicUsize = AtomicUsize::new(0);
static PEAK: AtomicUsize = AtomicUsize::new(0);
static MAX_REQ: AtomicUsize = AtomicUsize::new(0);
/// Requests above this size fail (return null) while counting is on: the caller sees an
/// allocation failure exactly as it would on a machine with less memory.
static LIMIT: AtomicUsize = AtomicUsize::new(usize::MAX);

unsafe impl GlobalAlloc for Counting {
    unsafe fn alloc(&self, l: Layout) -> *mut u8 {
        if ON.load(Ordering::Relaxed) {
            MAX_REQ.fetch_max(l.size(), Ordering::Relaxed);
            if l.size() > LIMIT.load(Ordering::Relaxed) {
                return std::ptr::null_mut();
            }
            let live = LIVE.fetch_add(l.size(), Ordering::Relaxed) + l.size();
            PEAK.fetch_max(live, Ordering::Relaxed);
        }
        unsafe { System.alloc(l) }
    }
    unsafe fn dealloc(&self, p: *mut u8, l: Layout) {
        if ON.load(Ordering::Relaxed) {
            let _ = LIVE.fetch_update(Ordering::Relaxed, Ordering::Relaxed, |v| Some(v.saturating_sub(l.size())));
        }
        unsafe { System.dealloc(p, l) }
    }
    unsafe fn realloc(&self, p: *mut u8, l: Layout, new_size: usize) -> *mut u8 {
        if ON.load(Ordering::Relaxed) {
            MAX_REQ.fetch_max(new_size, Ordering::Relaxed);
            if new_size > LIMIT.load(Ordering::Relaxed) {
                return std::ptr::null_mut();
            }
            if new_size > l.size() {
                let live = LIVE.fetch_add(new_size - l.size(), Ordering::Relaxed) + (new_size - l.size());
                PEAK.fetch_max(live, Ordering::Relaxed);
            } else {
                let _ = LIVE.fetch_update(Ordering::Relaxed, Ordering::Relaxed, |v| Some(v.saturating_sub(l.size() - new_size)));
            }
        }
        unsafe { System.realloc(p, l, new_size) }
    }
}

pub fn start() {
    LIVE.store(0, Ordering::Relaxed);
    PEAK.store(0, Ordering::Relaxed);
    MAX_REQ.store(0, Ordering::Relaxed);
    ON.store(true, Ordering::SeqCst);
}

/// Returns (peak live bytes since start, largest single request).
pub fn stop() -> (usize, usize) {
    ON.store(false, Ordering::SeqCst);
    (PEAK.load(Ordering::Relaxed), MAX_REQ.load(Ordering::Relaxed))
}

pub fn set_limit(bytes: usize) {
    LIMIT.store(bytes, Ordering::Relaxed);
}
