//! C25: property values and log records decode to exactly what was encoded; decoding arbitrary
//! bytes yields a value or an error without panicking, aborting or allocating without bound.

use super::alloc;
use crate::common::child::{Exit, read_batch, run_worker, signal_name, write_batch};
use crate::common::dump::panic_msg;
use crate::common::report::{Args, CaseOut, Report, Violation, par_cases, threads};
use crate::common::rng::Rng;
use crate::common::sut::ScratchDir;
use crate::common::value::{gen_value, to_json};
use nervusdb_api::PropertyValue as PV;
use nervusdb_storage::wal::{SegmentPointer, Wal, WalRecord};
use serde_json::{Value as J, json};
use std::collections::BTreeMap;
use std::panic::{AssertUnwindSafe, catch_unwind};
use std::time::Duration;

// ---------------------------------------------------------------- exact equality

pub fn exact_eq(a: &PV, b: &PV) -> bool {
    match (a, b) {
        (PV::Null, PV::Null) => true,
        (PV::Bool(x), PV::Bool(y)) => x == y,
        (PV::Int(x), PV::Int(y)) => x == y,
        (PV::Float(x), PV::Float(y)) => x.to_bits() == y.to_bits(),
        (PV::String(x), PV::String(y)) => x == y,
        (PV::DateTime(x), PV::DateTime(y)) => x == y,
        (PV::Blob(x), PV::Blob(y)) => x == y,
        (PV::List(x), PV::List(y)) => x.len() == y.len() && x.iter().zip(y).all(|(p, q)| exact_eq(p, q)),
        (PV::Map(x), PV::Map(y)) => {
            x.len() == y.len() && x.iter().zip(y).all(|((k1, v1), (k2, v2))| k1 == k2 && exact_eq(v1, v2))
        }
        _ => false,
    }
}

fn rec_eq(a: &WalRecord, b: &WalRecord) -> bool {
    match (a, b) {
        (WalRecord::SetNodeProperty { node: n1, key: k1, value: v1 }, WalRecord::SetNodeProperty { node: n2, key: k2, value: v2 }) => {
            n1 == n2 && k1 == k2 && exact_eq(v1, v2)
        }
        (
            WalRecord::SetEdgeProperty { src: s1, rel: r1, dst: d1, key: k1, value: v1 },
            WalRecord::SetEdgeProperty { src: s2, rel: r2, dst: d2, key: k2, value: v2 },
        ) => s1 == s2 && r1 == r2 && d1 == d2 && k1 == k2 && exact_eq(v1, v2),
        _ => a == b,
    }
}

// ---------------------------------------------------------------- generators

fn gen_deep(rng: &mut Rng, depth: u32) -> PV {
    if depth >= 6 || rng.chance(1, 3) {
        return match rng.below(4) {
            0 => PV::Float(f64::from_bits(rng.next_u64())), // arbitrary bits incl. NaN payloads
            1 => PV::Float([0.0, -0.0, f64::NAN, -f64::NAN, f64::INFINITY][rng.below(5)]),
            _ => gen_value(rng, 3),
        };
    }
    if rng.chance(1, 2) {
        PV::List((0..rng.below(4)).map(|_| gen_deep(rng, depth + 1)).collect())
    } else {
        let mut m = BTreeMap::new();
        for _ in 0..rng.below(4) {
            m.insert(["", "k", "ключ", "a\0b", "zz"][rng.below(5)].to_string(), gen_deep(rng, depth + 1));
        }
        PV::Map(m)
    }
}

fn gen_key(rng: &mut Rng) -> String {
    ["", "k", "name", "ключ", "a\0b", "a-rather-long-property-name"][rng.below(6)].to_string()
}

const N_VARIANTS: usize = 17;

fn gen_record(rng: &mut Rng, variant: usize) -> WalRecord {
    let u = |rng: &mut Rng| [0u32, 1, 7, u32::MAX, 65536][rng.below(5)];
    let x = |rng: &mut Rng| [0u64, 1, u64::MAX, 1 << 40, 42][rng.below(5)];
    match variant {
        0 => WalRecord::BeginTx { txid: x(rng) },
        1 => WalRecord::CommitTx { txid: x(rng) },
        2 => {
            let mut page = Box::new([0u8; nervusdb_storage::PAGE_SIZE]);
            for b in rng.bytes(64).iter().enumerate() {
                page[b.0 * 100] = *b.1;
            }
            WalRecord::PageWrite { page_id: x(rng), page }
        }
        3 => WalRecord::PageFree { page_id: x(rng) },
        4 => WalRecord::CreateLabel { name: gen_key(rng), label_id: u(rng) },
        5 => WalRecord::CreateNode { external_id: x(rng), label_id: u(rng), internal_id: u(rng) },
        6 => WalRecord::AddNodeLabel { node: u(rng), label_id: u(rng) },
        7 => WalRecord::RemoveNodeLabel { node: u(rng), label_id: u(rng) },
        8 => WalRecord::CreateEdge { src: u(rng), rel: u(rng), dst: u(rng) },
        9 => WalRecord::TombstoneNode { node: u(rng) },
        10 => WalRecord::TombstoneEdge { src: u(rng), rel: u(rng), dst: u(rng) },
        11 => WalRecord::ManifestSwitch {
            epoch: x(rng),
            segments: (0..rng.below(4)).map(|_| SegmentPointer { id: x(rng), meta_page_id: x(rng) }).collect(),
            properties_root: x(rng),
            stats_root: x(rng),
        },
        12 => WalRecord::Checkpoint { up_to_txid: x(rng), epoch: x(rng), properties_root: x(rng), stats_root: x(rng) },
        13 => WalRecord::SetNodeProperty { node: u(rng), key: gen_key(rng), value: gen_deep(rng, 2) },
        14 => WalRecord::SetEdgeProperty { src: u(rng), rel: u(rng), dst: u(rng), key: gen_key(rng), value: gen_deep(rng, 2) },
        15 => WalRecord::RemoveNodeProperty { node: u(rng), key: gen_key(rng) },
        _ => WalRecord::RemoveEdgeProperty { src: u(rng), rel: u(rng), dst: u(rng), key: gen_key(rng) },
    }
}

/// Exhaustive small values: all values of nesting size <= 2 over a 3-element alphabet per kind.
fn small_values() -> Vec<PV> {
    let atoms = vec![
        PV::Null, PV::Bool(false), PV::Bool(true), PV::Int(0), PV::Int(-1), PV::Int(i64::MIN),
        PV::Float(0.0), PV::Float(-0.0), PV::Float(f64::NAN), PV::String(String::new()), PV::String("é".into()),
        PV::String("a\0".into()), PV::DateTime(0), PV::DateTime(i64::MAX), PV::Blob(vec![]), PV::Blob(vec![0, 255]),
    ];
    let mut out = atoms.clone();
    for a in &atoms {
        out.push(PV::List(vec![a.clone()]));
        out.push(PV::Map([("k".to_string(), a.clone())].into_iter().collect()));
        for b in atoms.iter().take(6) {
            out.push(PV::List(vec![a.clone(), b.clone()]));
            out.push(PV::Map([("".to_string(), a.clone()), ("k".to_string(), b.clone())].into_iter().collect()));
        }
    }
    out
}

fn hostile_inputs(rng: &mut Rng, n: usize) -> Vec<Vec<u8>> {
    let mut out = Vec::with_capacity(n);
    while out.len() < n {
        let base = gen_deep(rng, 0).encode();
        let v = match rng.below(9) {
            0 => rng.bytes_upto(64),
            1 => {
                // truncation at a random offset
                let cut = rng.below(base.len() + 1);
                base[..cut].to_vec()
            }
            2 | 3 => {
                // a length/count field set to a hostile value
                let mut b = base.clone();
                if b.len() >= 5 {
                    let pos = rng.below(b.len() - 4);
                    let val: u32 = [0, 1, 0x7fff_ffff, 0x8000_0000, u32::MAX, 0x00ff_ffff, 65536][rng.below(7)];
                    b[pos..pos + 4].copy_from_slice(&val.to_le_bytes());
                }
                b
            }
            4 => {
                // type byte flips
                let mut b = base.clone();
                if !b.is_empty() {
                    let pos = rng.below(b.len());
                    b[pos] = rng.below(12) as u8;
                }
                b
            }
            5 => {
                // list/map header with a huge count and nothing behind it
                let tag = if rng.chance(1, 2) { 7u8 } else { 8 };
                let mut b = vec![tag];
                b.extend_from_slice(&[0xffu8, 0xff, 0xff, [0x7f, 0xff, 0x0f][rng.below(3)]]);
                b.extend_from_slice(&rng.bytes_upto(8));
                b
            }
            6 => {
                // nesting bomb: 07 01 00 00 00 repeated
                let depth = [10usize, 100, 1000, 10_000, 100_000][rng.below(5)];
                let mut b = Vec::with_capacity(depth * 5 + 1);
                for _ in 0..depth {
                    b.extend_from_slice(&[7, 1, 0, 0, 0]);
                }
                b.push(0);
                b
            }
            7 => {
                // map nesting bomb: 08 01 00 00 00 | 00 00 00 00 (empty key) ...
                let depth = [10usize, 1000, 50_000][rng.below(3)];
                let mut b = Vec::with_capacity(depth * 9 + 1);
                for _ in 0..depth {
                    b.extend_from_slice(&[8, 1, 0, 0, 0, 0, 0, 0, 0]);
                }
                b.push(0);
                b
            }
            _ => {
                let mut b = base.clone();
                for _ in 0..1 + rng.below(3) {
                    if !b.is_empty() {
                        let pos = rng.below(b.len());
                        b[pos] ^= 1 << rng.below(8);
                    }
                }
                b
            }
        };
        out.push(v);
    }
    out
}

fn hostile_records(rng: &mut Rng, n: usize) -> Vec<Vec<u8>> {
    let mut out = Vec::with_capacity(n);
    while out.len() < n {
        let variant = rng.below(N_VARIANTS);
        let rec = gen_record(rng, variant);
        let base = rec.verif_encode().unwrap_or_default();
        let mut b = base.clone();
        match rng.below(6) {
            0 => b = rng.bytes_upto(80),
            1 => {
                let cut = rng.below(b.len() + 1);
                b.truncate(cut);
            }
            2 | 3 => {
                if b.len() >= 5 {
                    let pos = 1 + rng.below(b.len() - 4);
                    let val: u32 = [0, 1, 0x7fff_ffff, u32::MAX, 0x0fff_ffff][rng.below(5)];
                    b[pos..pos + 4].copy_from_slice(&val.to_le_bytes());
                }
            }
            4 => {
                if !b.is_empty() {
                    b[0] = rng.below(20) as u8;
                }
            }
            _ => {
                // ManifestSwitch with hostile segment count
                b = vec![9];
                b.extend_from_slice(&1u64.to_le_bytes());
                b.extend_from_slice(&[0xff, 0xff, 0xff, [0x0f, 0x7f, 0xff][rng.below(3)]]);
                b.extend_from_slice(&rng.bytes(32));
            }
        }
        out.push(b);
    }
    out
}

// ---------------------------------------------------------------- worker (child process)

/// `vmon C25-worker <kind> <batch-file>`; prints one line per input: `<i> <status> <peak> <maxreq>`.
pub fn worker(kind: &str, batch: &str) {
    let inputs = read_batch(std::path::Path::new(batch));
    let dir = ScratchDir::new("c25w");
    for (i, inp) in inputs.iter().enumerate() {
        println!("{i} start");
        alloc::start();
        let r = catch_unwind(AssertUnwindSafe(|| match kind {
            "value" => PV::decode(inp).is_ok(),
            "record" => WalRecord::verif_decode(inp).is_ok(),
            "stats" => nervusdb_storage::stats::GraphStatistics::decode(inp).is_some(),
            _ => {
                let p = dir.path.join("f.wal");
                let _ = std::fs::write(&p, inp);
                Wal::replay_committed_from_path(&p).is_ok()
            }
        }));
        let (peak, maxreq) = alloc::stop();
        match r {
            Ok(ok) => println!("{i} {} {peak} {maxreq}", if ok { "ok" } else { "err" }),
            Err(p) => println!("{i} panic {peak} {maxreq} {}", panic_msg(&p).replace('\n', " ")),
        }
    }
}

fn judge_batch(kind: &str, inputs: &[Vec<u8>], out: &mut CaseOut, tag: &str) {
    let dir = ScratchDir::new("c25b");
    let mut start = 0usize;
    // a crashing input ends the child; continue with the rest of the batch in a new child
    while start < inputs.len() {
        let path = dir.path.join(format!("batch-{start}"));
        write_batch(&path, &inputs[start..]);
        let res = run_worker(
            &["C25-worker".into(), kind.into(), path.to_string_lossy().to_string()],
            Duration::from_secs(120),
            Some(8 << 30),
            &[],
        );
        let mut last_started: Option<usize> = None;
        let mut done = 0usize;
        for l in &res.lines {
            let parts: Vec<&str> = l.splitn(5, ' ').collect();
            if parts.len() == 2 && parts[1] == "start" {
                last_started = parts[0].parse().ok();
                continue;
            }
            if parts.len() < 4 {
                continue;
            }
            let i: usize = parts[0].parse().unwrap_or(0);
            let inp = &inputs[start + i];
            let peak: usize = parts[2].parse().unwrap_or(0);
            let maxreq: usize = parts[3].parse().unwrap_or(0);
            out.evaluations += 1;
            done = i + 1;
            out.count(&format!("decode.{kind}.{}", parts[1]), 1);
            let bound = 64 * inp.len() + (1 << 20);
            if parts[1] == "panic" {
                out.violations.push(Violation {
                    signature: format!("C25|decode-{kind}-panic|{}", crate::storemon::normalise_msg(parts.get(4).copied().unwrap_or(""))),
                    summary: format!("decoder panicked: {}", parts.get(4).copied().unwrap_or("")),
                    detail: json!({"input_hex": hex(inp, 200), "input_len": inp.len(), "family": tag}),
                    replay: json!({"engine":"robust","property":"C25","kind":kind,"input_hex":hex(inp, usize::MAX)}),
                });
            } else if peak > bound || maxreq > bound {
                out.violations.push(Violation {
                    signature: format!("C25|decode-{kind}-unbounded-allocation|{}", first_byte(inp)),
                    summary: format!("decoding {} input bytes requested {} bytes in one allocation (peak live {}), bound is {}", inp.len(), maxreq, peak, bound),
                    detail: json!({"input_hex": hex(inp, 200), "input_len": inp.len(), "peak": peak, "max_request": maxreq, "family": tag}),
                    replay: json!({"engine":"robust","property":"C25","kind":kind,"input_hex":hex(inp, usize::MAX)}),
                });
            }
        }
        match res.exit {
            Exit::Ok => break,
            other => {
                // the input that was started but never finished killed the process
                let culprit = last_started.filter(|s| *s >= done).unwrap_or(done);
                if start + culprit >= inputs.len() {
                    out.inconclusive(&format!("worker-ended-abnormally-after-last-input:{other:?}"));
                    break;
                }
                let inp = &inputs[start + culprit];
                out.evaluations += 1;
                match other {
                    Exit::Signal(s) => {
                        let how = if res.stderr_tail.contains("overflowed its stack") {
                            "stack-overflow".to_string()
                        } else if res.stderr_tail.contains("memory allocation of") {
                            "allocation-failure-abort".to_string()
                        } else {
                            signal_name(s).to_string()
                        };
                        out.violations.push(Violation {
                            signature: format!("C25|decode-{kind}-process-abort|{how}"),
                            summary: format!("decoding aborted the process ({how}, signal {s})"),
                            detail: json!({"input_hex": hex(inp, 200), "input_len": inp.len(), "stderr": res.stderr_tail.chars().take(300).collect::<String>(), "family": tag}),
                            replay: json!({"engine":"robust","property":"C25","kind":kind,"input_hex":hex(inp, 4000), "input_len": inp.len()}),
                        });
                    }
                    Exit::Timeout => out.inconclusive("worker-timeout"),
                    Exit::Code(c) => out.inconclusive(&format!("worker-exit-code-{c}")),
                    Exit::Ok => {}
                }
                start += culprit + 1;
            }
        }
    }
}

fn first_byte(b: &[u8]) -> String {
    b.first().map(|x| format!("tag{x}")).unwrap_or_else(|| "empty".into())
}

fn hex(b: &[u8], max: usize) -> String {
    b.iter().take(max).map(|x| format!("{x:02x}")).collect()
}

fn unhex(s: &str) -> Vec<u8> {
    (0..s.len() / 2).map(|i| u8::from_str_radix(&s[2 * i..2 * i + 2], 16).unwrap_or(0)).collect()
}

pub fn main(args: &Args) -> Report {
    let mut rep = Report::new(
        "C25",
        &args.tier,
        args.seed,
        "exploration",
        "round trips: decode(encode(v)) compared structurally with float bit patterns for generated and exhaustively enumerated small PropertyValues, and for every WalRecord variant through the verif_encode/verif_decode hook; hostile decodes: mutated encodings, hostile length/count fields, nesting bombs and random bytes are decoded in a child process under a counting allocator (peak live bytes and largest request must stay below 64 x input + 1 MiB), process death (stack overflow, allocation failure) is read from the child's exit status; a cell is (codec, input family, outcome)",
    );
    rep.assume("decoders run on an 8 MiB main-thread stack with RLIMIT_AS = 8 GiB in the child");
    if let Some(p) = &args.replay {
        let j: J = serde_json::from_str(&std::fs::read_to_string(p).expect("read")).expect("json");
        let mut out = CaseOut::default();
        let inp = unhex(j["input_hex"].as_str().unwrap_or(""));
        judge_batch(j["kind"].as_str().unwrap_or("value"), &[inp], &mut out, "replay");
        rep.out = out;
        return rep;
    }
    let thorough = args.thorough();
    let seed = args.seed;
    // (a) round trips, in process
    let blocks = if thorough { 400 } else { 64 };
    let (mut out, _) = par_cases(blocks, threads(), None, |b| {
        let mut rng = Rng::derive(seed ^ 0x25, b as u64);
        let mut o = CaseOut::default();
        for _ in 0..1500 {
            let v = gen_deep(&mut rng, 0);
            o.evaluations += 1;
            o.count("roundtrip.value", 1);
            let r = catch_unwind(AssertUnwindSafe(|| PV::decode(&v.encode())));
            match r {
                Ok(Ok(d)) if exact_eq(&v, &d) => {}
                Ok(Ok(d)) => o.violations.push(Violation {
                    signature: "C25|value-roundtrip-differs|-".into(),
                    summary: "decode(encode(v)) != v".into(),
                    detail: json!({"v": to_json(&v), "decoded": to_json(&d)}),
                    replay: json!({"engine":"robust","property":"C25","kind":"value","input_hex":hex(&v.encode(), usize::MAX)}),
                }),
                Ok(Err(e)) => o.violations.push(Violation {
                    signature: "C25|value-roundtrip-error|-".into(),
                    summary: format!("decode(encode(v)) failed: {e}"),
                    detail: json!({"v": to_json(&v)}),
                    replay: json!({"engine":"robust","property":"C25","kind":"value","input_hex":hex(&v.encode(), usize::MAX)}),
                }),
                Err(p) => o.violations.push(Violation {
                    signature: "C25|value-roundtrip-panic|-".into(),
                    summary: format!("panic: {}", panic_msg(&p)),
                    detail: json!({"v": to_json(&v)}),
                    replay: json!({}),
                }),
            }
        }
        for variant in 0..N_VARIANTS {
            for _ in 0..60 {
                let rec = gen_record(&mut rng, variant);
                o.evaluations += 1;
                o.count(&format!("roundtrip.record.{variant}"), 1);
                o.cell(format!("record-variant-{variant}"));
                let r = catch_unwind(AssertUnwindSafe(|| rec.verif_encode().and_then(|b| WalRecord::verif_decode(&b))));
                match r {
                    Ok(Ok(d)) if rec_eq(&rec, &d) => {}
                    Ok(Ok(d)) => o.violations.push(Violation {
                        signature: format!("C25|record-roundtrip-differs|variant-{variant}"),
                        summary: "verif_decode(verif_encode(r)) != r".into(),
                        detail: json!({"record": format!("{rec:?}").chars().take(300).collect::<String>(), "decoded": format!("{d:?}").chars().take(300).collect::<String>()}),
                        replay: json!({}),
                    }),
                    Ok(Err(e)) => o.violations.push(Violation {
                        signature: format!("C25|record-roundtrip-error|variant-{variant}"),
                        summary: format!("record round trip failed: {e}"),
                        detail: json!({"record": format!("{rec:?}").chars().take(300).collect::<String>()}),
                        replay: json!({}),
                    }),
                    Err(p) => o.violations.push(Violation {
                        signature: format!("C25|record-roundtrip-panic|variant-{variant}"),
                        summary: format!("panic: {}", panic_msg(&p)),
                        detail: json!({}),
                        replay: json!({}),
                    }),
                }
            }
        }
        o
    });
    // deep but legal nesting (the storable maximum is PropertyValue::MAX_NESTING_DEPTH)
    for depth in [64usize, 500, 1000, 1024] {
        let mut v = PV::Int(7);
        for i in 0..depth {
            v = if i % 2 == 0 { PV::List(vec![v]) } else { PV::Map([("k".to_string(), v)].into_iter().collect()) };
        }
        out.evaluations += 1;
        out.count("roundtrip.deep", 1);
        let enc = v.encode();
        let r = std::thread::Builder::new().stack_size(2 << 20).spawn(move || PV::decode(&enc).map(|d| exact_eq(&d, &v))).unwrap().join();
        match r {
            Ok(Ok(true)) => {}
            other => out.violations.push(Violation {
                signature: format!("C25|value-roundtrip-deep-nesting|depth-{depth}"),
                summary: format!("a value nested {depth} deep does not round trip on a 2 MiB stack: {:?}", other.map(|x| x.map_err(|e| e.to_string()))),
                detail: json!({"depth": depth}),
                replay: json!({}),
            }),
        }
    }
    for v in small_values() {
        out.evaluations += 1;
        out.count("roundtrip.small_exhaustive", 1);
        match PV::decode(&v.encode()) {
            Ok(d) if exact_eq(&v, &d) => {}
            _ => out.violations.push(Violation {
                signature: "C25|value-roundtrip-differs|small".into(),
                summary: "small value does not round trip".into(),
                detail: json!({"v": to_json(&v)}),
                replay: json!({}),
            }),
        }
    }
    out.cell("roundtrip:value");
    // (b) hostile decodes in child processes
    let hostile_blocks = if thorough { 320 } else { 48 };
    let per_block = if thorough { 2500 } else { 1000 };
    let (o2, _) = par_cases(hostile_blocks, threads(), None, |b| {
        let mut rng = Rng::derive(seed ^ 0x2525, b as u64);
        let mut o = CaseOut::default();
        match b % 4 {
            0 | 1 => {
                let inputs = hostile_inputs(&mut rng, per_block);
                judge_batch("value", &inputs, &mut o, "mutated-value");
                o.cell("hostile:value");
            }
            2 => {
                let inputs = hostile_records(&mut rng, per_block);
                judge_batch("record", &inputs, &mut o, "mutated-record");
                o.cell("hostile:record");
            }
            _ => {
                // whole files for Wal::replay_committed_from_path: valid frames around hostile bodies
                let mut inputs = Vec::new();
                for _ in 0..per_block / 10 {
                    let mut f = Vec::new();
                    let nrec = 1 + rng.below(4);
                    for body in hostile_records(&mut rng, nrec) {
                        let len = if rng.chance(1, 8) { [0u32, u32::MAX, 1 << 20, (1 << 20) + 1][rng.below(4)] } else { body.len() as u32 };
                        f.extend_from_slice(&len.to_le_bytes());
                        f.extend_from_slice(&crc32(&body).to_le_bytes());
                        f.extend_from_slice(&body);
                    }
                    if rng.chance(1, 4) {
                        f.extend_from_slice(&rng.bytes_upto(40));
                    }
                    inputs.push(f);
                }
                judge_batch("walfile", &inputs, &mut o, "wal-file");
                let stats_inputs: Vec<Vec<u8>> = (0..per_block / 10).map(|_| {
                    let mut b = rng.bytes_upto(60);
                    if b.len() > 12 && rng.chance(1, 2) { b[8..12].copy_from_slice(&u32::MAX.to_le_bytes()); }
                    b
                }).collect();
                judge_batch("stats", &stats_inputs, &mut o, "stats-blob");
                o.cell("hostile:walfile+stats");
            }
        }
        o
    });
    out.merge(o2);
    // keep at most 3 witnesses per signature
    let mut seen = BTreeMap::<String, usize>::new();
    out.violations.retain(|v| {
        let c = seen.entry(v.signature.clone()).or_default();
        *c += 1;
        *c <= 3
    });
    out.samples.push(json!({"roundtrip": "Map{\"ключ\": List[Float(NaN payload bits), Blob(9000 bytes)]}"}));
    out.samples.push(json!({"hostile_value": "07 ff ff ff 7f (list, count 2^31-1, no elements)"}));
    out.samples.push(json!({"hostile_value": "07 01 00 00 00 x 100000 (nesting bomb)"}));
    rep.out = out;
    rep.floor("value round trips", rep.counter("roundtrip.value"), if thorough { 500_000 } else { 90_000 });
    let hostile: u64 = rep.out.counters.iter().filter(|(k, _)| k.starts_with("decode.")).map(|(_, v)| *v).sum();
    rep.floor("hostile decodes", hostile, if thorough { 500_000 } else { 30_000 });
    for v in 0..N_VARIANTS {
        rep.floor(&format!("record variant {v}"), rep.counter(&format!("roundtrip.record.{v}")), 1000);
    }
    rep
}

fn crc32(b: &[u8]) -> u32 {
    // plain CRC-32 (IEEE), bitwise; independent of the crate the WAL uses
    let mut c: u32 = 0xffff_ffff;
    for x in b {
        c ^= *x as u32;
        for _ in 0..8 {
            c = if c & 1 != 0 { (c >> 1) ^ 0xedb8_8320 } else { c >> 1 };
        }
    }
    !c
}
