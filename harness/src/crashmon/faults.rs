//! C08: a single injected I/O failure during an operation leaves it all-or-nothing, in the
//! running process and after reopen, and the database keeps accepting and storing transactions.

use super::recorder::{Mode, Recorder};
use super::{IndexView, full_dump, gen_history, index_view, op_name};
use crate::common::dump::panic_msg;
use crate::common::r#gen::GenCfg;
use crate::common::model::{Facts, Op, W, diff_facts, op_to_json};
use crate::common::report::{Args, CaseOut, Report, Violation, par_cases, threads};
use crate::common::sut::{ScratchDir, Sut, apply_writes};
use crate::common::{diff_signature, facts_diff_json};
use ndb_core::Db;
use serde_json::{Value as J, json};
use std::panic::{AssertUnwindSafe, catch_unwind};
use std::sync::Arc;
use std::time::{Duration, Instant};

fn suffix_op(tag: u64) -> Op {
    Op::Tx {
        writes: vec![
            W::CreateNode { ext: 7_000_000 + tag, labels: vec!["A".into()] },
        ],
        commit: true,
    }
}

/// Apply the suffix: a node with a marker property (its internal id is whatever the engine assigns).
fn run_suffix(db: &Db, tag: u64) -> Result<(), String> {
    let mut txn = db.begin_write();
    let l = txn.get_or_create_label("A").map_err(|e| e.to_string())?;
    let id = txn.create_node(7_000_000 + tag, l).map_err(|e| e.to_string())?;
    txn.set_node_property(id, "k".into(), ndb_core::PropertyValue::Int(tag as i64)).map_err(|e| e.to_string())?;
    txn.commit().map_err(|e| e.to_string())
}

/// Facts with internal node ids replaced by external ids, so that two runs that assigned ids
/// differently (because a failed operation did or did not consume ids) can be compared.
fn by_ext(f: &Facts) -> Facts {
    let mut map = std::collections::BTreeMap::new();
    for (k, v) in f {
        let p: Vec<&str> = k.split('/').collect();
        if p.len() == 3 && p[0] == "n" && p[2] == "ext" {
            map.insert(p[1].to_string(), format!("x{v}"));
        }
    }
    let tr = |s: &str| map.get(s).cloned().unwrap_or_else(|| format!("?{s}"));
    let mut out = Facts::new();
    for (k, v) in f {
        let p: Vec<&str> = k.split('/').collect();
        let nk = match p[0] {
            "n" if p.len() >= 3 => format!("n/{}/{}", tr(p[1]), p[2..].join("/")),
            "o" | "i" if p.len() == 4 => format!("{}/{}/{}/{}", p[0], tr(p[1]), p[2], tr(p[3])),
            "e" if p.len() >= 6 => format!("e/{}/{}/{}/{}", tr(p[1]), p[2], tr(p[3]), p[4..].join("/")),
            "dead" | "count" => continue,
            "x" => {
                let ids: Vec<String> = v.split(',').map(tr).collect();
                out.insert(k.clone(), ids.join(","));
                continue;
            }
            _ => k.clone(),
        };
        out.insert(nk, v.clone());
    }
    out
}

struct Refs {
    d0: Facts,
    d0_x: Facts,
    d0_suffix: Facts,
    d0_x_suffix: Facts,
    steps: usize,
    last_log_sync: Option<usize>,
}

fn open_and_prefix(cfg: &GenCfg, prefix: &[Op], dir: &ScratchDir) -> Option<Sut> {
    let _ = cfg;
    let mut sut = Sut::open(&dir.db_base()).ok()?;
    for op in prefix {
        sut.apply(op).ok()?;
    }
    Some(sut)
}

fn apply_x(sut: &mut Sut, x: &Op) -> Result<(), String> {
    // Reopen steps are split: the fault is injected into close(); the reopen happens later.
    match x {
        Op::Reopen { close: true } => {
            let db = sut.db.take().expect("open");
            let r = catch_unwind(AssertUnwindSafe(|| db.close().map_err(|e| e.to_string())));
            match r {
                Ok(r) => r,
                Err(p) => Err(format!("panic: {}", panic_msg(&p))),
            }
        }
        Op::Tx { writes, commit: true } => {
            let db = sut.db();
            let r = catch_unwind(AssertUnwindSafe(|| {
                let mut txn = db.begin_write();
                apply_writes(&mut txn, writes)?;
                txn.commit().map_err(|e| e.to_string())
            }));
            match r {
                Ok(r) => r,
                Err(p) => Err(format!("panic: {}", panic_msg(&p))),
            }
        }
        other => sut.apply(other).map_err(|e| e.to_string()),
    }
}

pub fn run_case(seed: u64, k: usize, thorough: bool, only: Option<(usize, usize)>) -> CaseOut {
    let mut out = CaseOut::default();
    let (cfg, h) = gen_history(seed ^ 0x08, k);
    let iv: IndexView = index_view(&h);
    if h.len() < 2 {
        return out;
    }
    // X = the last operation of the history that does I/O of interest; prefix = everything before
    let xi = h.len() - 1;
    let x = match &h[xi] {
        Op::Reopen { close: false } => Op::Reopen { close: true },
        Op::Tx { commit: false, writes } => Op::Tx { writes: writes.clone(), commit: true },
        o => o.clone(),
    };
    let prefix = &h[..xi];
    let xname = match &x {
        Op::Reopen { .. } => "close",
        o => op_name(o),
    };
    let tag = k as u64;
    let rec = Recorder::new();
    ndb_core::verif::install_thread(rec.clone() as Arc<dyn ndb_core::verif::Hooks>);
    let mut body = || -> Option<()> {
        // reference runs (no injection)
        let refs = {
            let dir = ScratchDir::new("f-ref");
            let mut sut = open_and_prefix(&cfg, prefix, &dir)?;
            let d0 = full_dump(sut.db(), &cfg, &iv);
            // count the I/O steps of X
            rec.set_mode(Mode::FailAt { at: usize::MAX, short: 0 });
            let r = apply_x(&mut sut, &x);
            let steps = rec.steps();
            // the commit point of X: its last log fsync (everything before it can still be undone)
            let last_log_sync = rec.sites.lock().unwrap().iter().rposition(|(s, _)| *s == "wal.fsync");
            rec.set_mode(Mode::Off);
            if r.is_err() {
                return None;
            }
            if sut.db.is_none() {
                sut.db = Some(Db::open(&dir.db_base()).ok()?);
            }
            let d0_x = full_dump(sut.db(), &cfg, &iv);
            run_suffix(sut.db(), tag).ok()?;
            let d0_x_suffix = full_dump(sut.db(), &cfg, &iv);
            let dir2 = ScratchDir::new("f-ref2");
            let sut2 = open_and_prefix(&cfg, prefix, &dir2)?;
            run_suffix(sut2.db(), tag).ok()?;
            let d0_suffix = full_dump(sut2.db(), &cfg, &iv);
            Refs { d0, d0_x, d0_suffix, d0_x_suffix, steps, last_log_sync }
        };
        out.count(&format!("x.{xname}"), 1);
        out.count("io_steps_of_x", refs.steps as u64);
        let kinds: &[usize] = if thorough { &[0, 1, 700, 4096] } else { &[0, 3, 700] };
        for n in 0..refs.steps {
            for (ki, short) in kinds.iter().enumerate() {
                if let Some((on, ok)) = only
                    && (on != n || ok != ki)
                {
                    continue;
                }
                let dir = ScratchDir::new("f-inj");
                let Some(mut sut) = open_and_prefix(&cfg, prefix, &dir) else {
                    out.inconclusive("prefix-failed");
                    continue;
                };
                rec.set_mode(Mode::FailAt { at: n, short: *short });
                let r = apply_x(&mut sut, &x);
                let injected = *rec.injected.lock().unwrap();
                rec.set_mode(Mode::Off);
                let Some((_, site, op)) = injected else {
                    out.inconclusive("injection-point-not-reached");
                    continue;
                };
                out.evaluations += 1;
                out.count(&format!("site.{site}"), 1);
                out.cell(format!("{xname}:{site}:{op:?}:short{short}:{}", if r.is_ok() { "ok" } else { "err" }));
                let replay = json!({"engine":"crashmon","property":"C08","seed":seed,"case":k,"thorough":thorough,"step":n,"kind":ki});
                let mk = |kind: String, summary: String, detail: J| Violation {
                    signature: format!(
                        "C08|{kind}|{xname}@{site}#{}{}",
                        match refs.last_log_sync {
                            Some(p) if n > p => "after-commit-point",
                            Some(_) => "before-commit-point",
                            None => "no-log-sync",
                        },
                        // the failing call wrote part of its buffer before it failed
                        if *short > 0 { "/partial-write" } else { "" }
                    ),
                    summary,
                    detail,
                    replay: replay.clone(),
                };
                let x_json = op_to_json(&x);
                if let Err(e) = &r
                    && e.starts_with("panic:")
                {
                    out.violations.push(mk(format!("operation-panicked:{}", crate::storemon::normalise_msg(e)), format!("{xname} panicked on an injected I/O error at step {n} ({site}): {e}"), json!({"x": x_json})));
                    continue;
                }
                // (a) in-process visibility
                if sut.db.is_some() {
                    let d = full_dump(sut.db(), &cfg, &iv);
                    let expect = if r.is_ok() { &refs.d0_x } else { &refs.d0 };
                    let diff = diff_facts(&by_ext(expect), &by_ext(&d), 8);
                    if !diff.is_empty() {
                        let kind = if r.is_ok() { "reported-ok-but-content-differs" } else { "failed-operation-visible-in-process" };
                        out.violations.push(mk(
                            format!("{kind}:{}", diff_signature(&diff)),
                            format!("{xname} returned {} after an injected failure at step {n} ({site}, {op:?}) but the running process shows a different content", if r.is_ok() { "Ok" } else { "Err" }),
                            json!({"x": x_json, "step": n, "diff": facts_diff_json(&diff, "expected", "observed")}),
                        ));
                        continue;
                    }
                    if r.is_err() {
                        out.count("failed_and_invisible", 1);
                    }
                }
                // (c) the database keeps accepting transactions
                if sut.db.is_none() {
                    match catch_unwind(AssertUnwindSafe(|| Db::open(&dir.db_base()))) {
                        Ok(Ok(db)) => sut.db = Some(db),
                        Ok(Err(e)) => {
                            out.violations.push(mk(format!("reopen-after-failed-close-failed:{}", crate::storemon::normalise_msg(&e.to_string())), format!("after a failed close the database no longer opens: {e}"), json!({"step": n})));
                            continue;
                        }
                        Err(p) => {
                            out.violations.push(mk("reopen-after-failed-close-panicked".into(), format!("open panicked: {}", panic_msg(&p)), json!({"step": n})));
                            continue;
                        }
                    }
                }
                let sres = catch_unwind(AssertUnwindSafe(|| run_suffix(sut.db(), tag)));
                match sres {
                    Ok(Ok(())) => {}
                    Ok(Err(e)) => {
                        out.violations.push(mk(
                            format!("later-transaction-refused:{}", crate::storemon::normalise_msg(&e)),
                            format!("after the failed {xname} (step {n}, {site}) a later transaction is refused: {e}"),
                            json!({"x": x_json, "step": n}),
                        ));
                        continue;
                    }
                    Err(p) => {
                        out.violations.push(mk(format!("later-transaction-panicked:{}", crate::storemon::normalise_msg(&panic_msg(&p))), format!("later transaction panicked: {}", panic_msg(&p)), json!({"step": n})));
                        continue;
                    }
                }
                let live_after = full_dump(sut.db(), &cfg, &iv);
                // (b) after reopen: all or nothing, later transaction durable
                drop(sut);
                let mut ok_rounds = 0;
                for round in 0..2 {
                    match catch_unwind(AssertUnwindSafe(|| Db::open(&dir.db_base()))) {
                        Ok(Ok(db)) => {
                            let d = by_ext(&full_dump(&db, &cfg, &iv));
                            let a = diff_facts(&by_ext(&refs.d0_suffix), &d, 8);
                            let b = diff_facts(&by_ext(&refs.d0_x_suffix), &d, 8);
                            if !a.is_empty() && !b.is_empty() {
                                let best = if a.len() <= b.len() { &a } else { &b };
                                let vs_live = diff_facts(&by_ext(&live_after), &d, 8);
                                out.violations.push(mk(
                                    format!("after-reopen-neither-all-nor-nothing:{}", diff_signature(best)),
                                    format!("after a failure at step {n} of {xname} ({site}) and reopen #{} the content is neither 'operation absent' nor 'operation present' (+ the later transaction)", round + 1),
                                    json!({"x": x_json, "step": n, "operation_reported": if r.is_ok() { "Ok" } else { "Err" }, "diff_vs_nearest": facts_diff_json(best, "expected", "observed"), "diff_vs_live_before_reopen": facts_diff_json(&vs_live, "live", "reopened")}),
                                ));
                                break;
                            }
                            if r.is_ok() && !b.is_empty() {
                                out.violations.push(mk(
                                    format!("acknowledged-operation-lost-after-reopen:{}", diff_signature(&b)),
                                    format!("{xname} returned Ok despite the injected failure at step {n} ({site}) but its effects are gone after reopen"),
                                    json!({"x": x_json, "step": n}),
                                ));
                                break;
                            }
                            ok_rounds += 1;
                        }
                        Ok(Err(e)) => {
                            out.violations.push(mk(format!("reopen-failed:{}", crate::storemon::normalise_msg(&e.to_string())), format!("after a failure at step {n} of {xname} ({site}) reopen fails: {e}"), json!({"x": x_json, "step": n})));
                            break;
                        }
                        Err(p) => {
                            out.violations.push(mk(format!("reopen-panicked:{}", crate::storemon::normalise_msg(&panic_msg(&p))), format!("reopen panicked: {}", panic_msg(&p)), json!({"step": n})));
                            break;
                        }
                    }
                }
                if ok_rounds == 2 {
                    out.count("cases_all_or_nothing_after_reopen", 1);
                }
            }
        }
        Some(())
    };
    let ok = body().is_some();
    if !ok {
        out.inconclusive("reference-run-failed");
    }
    rec.set_mode(Mode::Off);
    ndb_core::verif::uninstall_thread();
    if k < 2 {
        out.samples.push(json!({"case": k, "x": op_to_json(&x), "prefix_ops": prefix.len(), "suffix": op_to_json(&suffix_op(tag))}));
    }
    let mut seen = std::collections::BTreeMap::<String, usize>::new();
    out.violations.retain(|v| {
        let c = seen.entry(v.signature.clone()).or_default();
        *c += 1;
        *c <= 2
    });
    out
}

pub fn main(args: &Args) -> Report {
    let mut rep = Report::new(
        "C08",
        &args.tier,
        args.seed,
        "fault_enumeration",
        "for a generated history prefix and a final operation X (commit, compact, checkpoint, create_index, close): one I/O failure is injected at every I/O step index of X (plain error, and a short write followed by an error); if X returned Err the running process must show the pre-X content, if Ok the post-X content; a later transaction must be accepted; after reopen (twice) the content must be 'X absent' or 'X present' plus the later transaction; a cell is (X kind, hook site, I/O op, failure kind, X's result)",
    );
    rep.assume("exactly one failure is injected per run and the failing call performs no I/O (or the declared short prefix), as a failing syscall would");
    rep.assume("node identities are compared by external id because a failed operation may or may not have consumed internal ids");
    if let Some(p) = &args.replay {
        let j: J = serde_json::from_str(&std::fs::read_to_string(p).expect("read")).expect("json");
        rep.out = run_case(j["seed"].as_u64().unwrap_or(1), j["case"].as_u64().unwrap_or(0) as usize, j["thorough"].as_bool().unwrap_or(false), Some((j["step"].as_u64().unwrap_or(0) as usize, j["kind"].as_u64().unwrap_or(0) as usize)));
        return rep;
    }
    let thorough = args.thorough();
    let n_cases = if thorough { 6000 } else { 240 };
    let deadline = Instant::now() + Duration::from_secs(args.budget_s(150, 2400));
    let seed = args.seed;
    let (out, done) = par_cases(n_cases, threads(), Some(deadline), |k| run_case(seed, k, thorough, None));
    rep.out = out;
    rep.extra.insert("cases_done".into(), json!(done));
    rep.floor("injected failures", rep.out.evaluations, if thorough { 30_000 } else { 1500 });
    rep.floor("failed operations whose effects stayed invisible", rep.counter("failed_and_invisible"), 100);
    rep
}
