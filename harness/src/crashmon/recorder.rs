//! I/O recorder and fault injector (implements the repository's `verif::Hooks`).
//!
//! Installed per thread: the engine does all its I/O on the calling thread, so several histories
//! can be recorded in parallel without mixing their logs.

use ndb_core::verif::{Hooks, IoEvent, IoOp};
use std::os::fd::AsRawFd;
use std::sync::Mutex;
use std::sync::atomic::{AtomicUsize, Ordering};

#[derive(Clone, Debug)]
pub enum Ev {
    /// A mutating file operation; `file` is the file *name* (last path component).
    Io {
        site: &'static str,
        op: IoOp,
        file: String,
        file2: Option<String>,
        offset: u64,
        data: Vec<u8>,
    },
    Mark(String),
}

#[derive(Clone, Debug, PartialEq)]
pub enum Mode {
    Off,
    Record,
    /// Inject one failure at I/O step `at` (0-based, counted from the moment the mode was set).
    /// `short` > 0: perform the first `short` bytes of the write, then fail.
    FailAt { at: usize, short: usize },
}

pub struct Recorder {
    pub log: Mutex<Vec<Ev>>,
    mode: Mutex<Mode>,
    step: AtomicUsize,
    pub injected: Mutex<Option<(usize, &'static str, IoOp)>>,
    /// sites seen while counting steps (for coverage)
    pub sites: Mutex<Vec<(&'static str, IoOp)>>,
}

impl Recorder {
    pub fn new() -> std::sync::Arc<Recorder> {
        std::sync::Arc::new(Recorder {
            log: Mutex::new(Vec::new()),
            mode: Mutex::new(Mode::Off),
            step: AtomicUsize::new(0),
            injected: Mutex::new(None),
            sites: Mutex::new(Vec::new()),
        })
    }

    pub fn set_mode(&self, m: Mode) {
        *self.mode.lock().unwrap() = m;
        self.step.store(0, Ordering::SeqCst);
        *self.injected.lock().unwrap() = None;
        self.sites.lock().unwrap().clear();
    }

    pub fn steps(&self) -> usize {
        self.step.load(Ordering::SeqCst)
    }

    pub fn mark(&self, s: impl Into<String>) {
        if *self.mode.lock().unwrap() == Mode::Record {
            self.log.lock().unwrap().push(Ev::Mark(s.into()));
        }
    }

    pub fn take_log(&self) -> Vec<Ev> {
        std::mem::take(&mut *self.log.lock().unwrap())
    }
}

fn file_name_of(ev: &IoEvent<'_>) -> String {
    if let Some(p) = ev.path {
        return p.file_name().map(|s| s.to_string_lossy().to_string()).unwrap_or_default();
    }
    if let Some(f) = ev.file {
        let link = format!("/proc/self/fd/{}", f.as_raw_fd());
        if let Ok(p) = std::fs::read_link(link) {
            let s = p.file_name().map(|s| s.to_string_lossy().to_string()).unwrap_or_default();
            // a file that was renamed over / unlinked shows up as "name (deleted)"
            return s.trim_end_matches(" (deleted)").to_string();
        }
    }
    "?".to_string()
}

impl Hooks for Recorder {
    fn io(&self, ev: &IoEvent<'_>) -> std::io::Result<()> {
        let mode = self.mode.lock().unwrap().clone();
        match mode {
            Mode::Off => Ok(()),
            Mode::Record => {
                self.step.fetch_add(1, Ordering::SeqCst);
                self.log.lock().unwrap().push(Ev::Io {
                    site: ev.site,
                    op: ev.op,
                    file: file_name_of(ev),
                    file2: ev.path2.map(|p| p.file_name().map(|s| s.to_string_lossy().to_string()).unwrap_or_default()),
                    offset: ev.offset,
                    data: ev.data.to_vec(),
                });
                Ok(())
            }
            Mode::FailAt { at, short } => {
                let n = self.step.fetch_add(1, Ordering::SeqCst);
                self.sites.lock().unwrap().push((ev.site, ev.op));
                if n != at {
                    return Ok(());
                }
                *self.injected.lock().unwrap() = Some((n, ev.site, ev.op));
                if short > 0
                    && let Some(f) = ev.file
                    && !ev.data.is_empty()
                {
                    let k = short.min(ev.data.len().saturating_sub(1));
                    if k > 0 {
                        use std::os::unix::fs::FileExt;
                        match ev.op {
                            IoOp::WriteAt => {
                                let _ = f.write_all_at(&ev.data[..k], ev.offset);
                            }
                            IoOp::Append => {
                                let end = f.metadata().map(|m| m.len()).unwrap_or(ev.offset);
                                let _ = f.write_all_at(&ev.data[..k], end);
                            }
                            _ => {}
                        }
                    }
                }
                Err(std::io::Error::other("injected I/O failure (verif)"))
            }
        }
    }
}
