//! C17: whatever bytes follow the last completely written transaction in the log, open succeeds,
//! recovers exactly the completely written committed transactions, and transactions committed
//! afterwards stay durable.

use super::image::{FsState, Variant};
use super::recorder::Ev;
use super::{CutInfo, Recording, cut_infos, full_dump, gen_history, index_view, record_history};
use crate::common::dump::panic_msg;
use crate::common::model::diff_facts;
use crate::common::report::{Args, CaseOut, Report, Violation, par_cases, threads};
use crate::common::rng::Rng;
use crate::common::sut::ScratchDir;
use crate::common::{diff_signature, facts_diff_json};
use ndb_core::verif::IoOp;
use ndb_core::{Db, PropertyValue as PV};
use serde_json::{Value as J, json};
use std::panic::{AssertUnwindSafe, catch_unwind};
use std::time::{Duration, Instant};

fn crc32(b: &[u8]) -> u32 {
    let mut c: u32 = 0xffff_ffff;
    for x in b {
        c ^= *x as u32;
        for _ in 0..8 {
            c = if c & 1 != 0 { (c >> 1) ^ 0xedb8_8320 } else { c >> 1 };
        }
    }
    !c
}

/// Independent scanner of the 8-byte framing: returns (offset, total frame length) of every
/// well-formed frame from the start of the log.
pub fn scan_frames(wal: &[u8]) -> Vec<(usize, usize)> {
    let mut out = Vec::new();
    let mut p = 0usize;
    while p + 8 <= wal.len() {
        let len = u32::from_le_bytes(wal[p..p + 4].try_into().unwrap()) as usize;
        let crc = u32::from_le_bytes(wal[p + 4..p + 8].try_into().unwrap());
        if len > (1 << 20) || p + 8 + len > wal.len() || crc32(&wal[p + 8..p + 8 + len]) != crc {
            break;
        }
        out.push((p, 8 + len));
        p += 8 + len;
    }
    out
}

struct Tail {
    family: &'static str,
    bytes: Vec<u8>,
}

fn frame(body: &[u8]) -> Vec<u8> {
    let mut f = (body.len() as u32).to_le_bytes().to_vec();
    f.extend_from_slice(&crc32(body).to_le_bytes());
    f.extend_from_slice(body);
    f
}

fn make_tails(rng: &mut Rng, base_wal: &[u8], next_tx: &[u8], thorough: bool) -> Vec<Tail> {
    let mut t = Vec::new();
    // 1. truncations of what the next transaction wrote
    if !next_tx.is_empty() {
        let frames = scan_frames(next_tx);
        let mut offs: Vec<usize> = Vec::new();
        if next_tx.len() < 4096 && thorough {
            offs.extend(1..next_tx.len());
        } else {
            for (o, l) in &frames {
                for d in 0..=8usize {
                    offs.push(o + d);
                    offs.push((o + l).saturating_sub(d));
                }
            }
            for _ in 0..12 {
                offs.push(1 + rng.below(next_tx.len().max(2) - 1));
            }
        }
        offs.sort();
        offs.dedup();
        for o in offs {
            if o > 0 && o < next_tx.len() {
                t.push(Tail { family: "truncated-next-transaction", bytes: next_tx[..o].to_vec() });
            }
        }
        // the complete next transaction minus its CommitTx record
        if frames.len() >= 2 {
            let (o, _) = frames[frames.len() - 1];
            t.push(Tail { family: "next-transaction-without-commit", bytes: next_tx[..o].to_vec() });
        }
        // 6. bit flips in each field of the next transaction's records
        let nflips = if thorough { 40 } else { 10 };
        for _ in 0..nflips {
            if frames.is_empty() {
                break;
            }
            let (o, l) = frames[rng.below(frames.len())];
            let field = rng.below(4);
            let pos = match field {
                0 => o + rng.below(4),
                1 => o + 4 + rng.below(4),
                2 => o + 8,
                _ => o + 8 + rng.below((l - 8).max(1)),
            };
            let mut b = next_tx.to_vec();
            if pos < b.len() {
                b[pos] ^= 1 << rng.below(8);
                t.push(Tail { family: "bit-flip-in-next-transaction", bytes: b });
            }
        }
    }
    // 2. zero-filled space
    for n in [1usize, 3, 4, 7, 8, 9, 64, 4096, 65536] {
        t.push(Tail { family: "zeros", bytes: vec![0u8; n] });
    }
    // 3. random garbage
    for n in [1usize, 5, 8, 13, 100, 5000] {
        t.push(Tail { family: "random-bytes", bytes: rng.bytes(n) });
    }
    // 4. syntactically valid headers with hostile lengths, right and wrong CRC
    let body: Vec<u8> = {
        let mut b = vec![1u8];
        b.extend_from_slice(&777u64.to_le_bytes());
        b
    };
    for len in [0u32, 1, (body.len() - 1) as u32, (body.len() + 1) as u32, 1 << 20, (1 << 20) + 1, u32::MAX] {
        for right_crc in [true, false] {
            let mut f = len.to_le_bytes().to_vec();
            let used = &body[..(len as usize).min(body.len())];
            let c = if right_crc { crc32(used) } else { crc32(used) ^ 0x5a5a };
            f.extend_from_slice(&c.to_le_bytes());
            f.extend_from_slice(&body);
            t.push(Tail { family: "header-with-hostile-length", bytes: f });
        }
    }
    // a well-formed BeginTx without anything after it, and an unknown record type
    t.push(Tail { family: "valid-begin-without-commit", bytes: frame(&body) });
    t.push(Tail { family: "valid-frame-unknown-record-type", bytes: frame(&[0xEE, 1, 2, 3]) });
    t.push(Tail { family: "valid-frame-empty-body", bytes: frame(&[]) });
    // 5. copies of earlier valid records without CommitTx
    let frames = scan_frames(base_wal);
    if frames.len() >= 3 {
        let start = rng.below(frames.len() - 1);
        let mut b = Vec::new();
        for (o, l) in frames.iter().skip(start).take(1 + rng.below(3)) {
            let fr = &base_wal[*o..*o + *l];
            // skip CommitTx frames (type byte 2)
            if fr.get(8) == Some(&2) {
                continue;
            }
            b.extend_from_slice(fr);
        }
        if !b.is_empty() {
            t.push(Tail { family: "replayed-earlier-records-without-commit", bytes: b });
        }
    }
    t
}

pub fn run_case(seed: u64, k: usize, thorough: bool, only: Option<(usize, usize)>) -> CaseOut {
    let mut out = CaseOut::default();
    let (cfg, h) = gen_history(seed ^ 0x17, k);
    let iv = index_view(&h);
    let Some(rec): Option<Recording> = record_history(&cfg, &h, &iv, &mut out) else { return out };
    let infos: Vec<CutInfo> = cut_infos(&rec.log);
    // base points: right after every "ack k" mark
    let mut fs = FsState::default();
    let mut rng = Rng::derive(seed ^ 0x1717, k as u64);
    let mut live_idx = 0usize; // index into rec.lives of the dump after the op that just finished
    let mut bases: Vec<(usize, FsState, usize)> = Vec::new(); // (log position, fs, lives index)
    for (c, ev) in rec.log.iter().enumerate() {
        fs.apply_ev(ev);
        if let Ev::Mark(m) = ev {
            // base 0: the freshly created database, before its first transaction (a log without
            // any complete transaction in front of the tail)
            if bases.is_empty() && live_idx == 0 && (m.starts_with("start ") || m.starts_with("op_begin")) {
                bases.push((c, fs.clone(), 0));
            }
            if m.starts_with("ack ") || m.starts_with("op_end ") {
                live_idx += 1;
            }
            if m.starts_with("ack ") {
                bases.push((c + 1, fs.clone(), live_idx));
            }
        }
    }
    let _ = infos;
    let root = ScratchDir::new("tails");
    let mut n = 0usize;
    for (bi, (pos, bfs, li)) in bases.iter().enumerate() {
        if !thorough && bases.len() > 3 && bi % 2 == 1 && bi != 0 {
            continue;
        }
        // the log of a freshly created database may not have been written to at all: empty
        let base_wal = match bfs.full_content("g.wal") {
            Some(w) => w,
            None if bi == 0 => Vec::new(),
            None => continue,
        };
        if bi == 0 {
            out.count("bases_without_a_committed_transaction", 1);
        }
        // bytes the next transaction appended to the log (if there is one)
        let mut next_tx = Vec::new();
        let mut in_next = false;
        for ev in rec.log.iter().skip(*pos) {
            match ev {
                Ev::Mark(m) if m.starts_with("start ") => in_next = true,
                Ev::Mark(m) if m.starts_with("ack ") => break,
                Ev::Mark(m) if m.starts_with("op_begin") => {
                    if !in_next {
                        break;
                    }
                }
                Ev::Io { op: IoOp::Append, file, data, .. } if in_next && file == "g.wal" => next_tx.extend_from_slice(data),
                _ => {}
            }
        }
        let expected = &rec.lives[*li].1;
        let tails = make_tails(&mut rng, &base_wal, &next_tx, thorough);
        for (ti, tail) in tails.iter().enumerate() {
            if let Some((ob, ot)) = only
                && (ob != bi || ot != ti)
            {
                continue;
            }
            let d = root.path.join(format!("t{n}"));
            n += 1;
            if std::fs::create_dir_all(&d).is_err() || bfs.materialise(&d, Variant::Pd).is_err() {
                out.inconclusive("materialise-failed");
                continue;
            }
            let mut wal = base_wal.clone();
            wal.extend_from_slice(&tail.bytes);
            if std::fs::write(d.join("g.wal"), &wal).is_err() {
                continue;
            }
            out.evaluations += 1;
            out.count(&format!("tails.{}", tail.family), 1);
            out.cell(format!("{}:len{}", tail.family, tail.bytes.len().min(9)));
            let replay = json!({"engine":"crashmon","property":"C17","seed":seed,"case":k,"thorough":thorough,"base":bi,"tail":ti});
            let mk = |kind: String, summary: String, detail: J| Violation {
                signature: format!("C17|{kind}|{}", tail.family),
                summary,
                detail,
                replay: replay.clone(),
            };
            let base = d.join("g");
            let tail_hex: String = tail.bytes.iter().take(48).map(|x| format!("{x:02x}")).collect();
            let opened = catch_unwind(AssertUnwindSafe(|| Db::open(&base)));
            let db = match opened {
                Ok(Ok(db)) => db,
                Ok(Err(e)) => {
                    out.violations.push(mk(
                        format!("open-failed:{}", crate::storemon::normalise_msg(&e.to_string())),
                        format!("open fails on a log with a {} tail of {} bytes: {e}", tail.family, tail.bytes.len()),
                        json!({"tail_len": tail.bytes.len(), "tail_hex_prefix": tail_hex}),
                    ));
                    let _ = std::fs::remove_dir_all(&d);
                    continue;
                }
                Err(p) => {
                    out.violations.push(mk(
                        format!("open-panicked:{}", crate::storemon::normalise_msg(&panic_msg(&p))),
                        format!("open panics on a log with a {} tail: {}", tail.family, panic_msg(&p)),
                        json!({"tail_len": tail.bytes.len(), "tail_hex_prefix": tail_hex}),
                    ));
                    let _ = std::fs::remove_dir_all(&d);
                    continue;
                }
            };
            let got = full_dump(&db, &cfg, &iv);
            let diff = diff_facts(expected, &got, 8);
            if !diff.is_empty() {
                out.violations.push(mk(
                    format!("recovered-content-differs:{}", diff_signature(&diff)),
                    format!("with a {} tail the recovered content is not exactly the completely written transactions", tail.family),
                    json!({"tail_len": tail.bytes.len(), "tail_hex_prefix": tail_hex, "diff": facts_diff_json(&diff, "expected", "recovered")}),
                ));
                let _ = std::fs::remove_dir_all(&d);
                continue;
            }
            // transactions committed afterwards stay durable across later reopens
            out.count("tails_followed_by_commit", 1);
            let cont = catch_unwind(AssertUnwindSafe(|| -> Result<_, String> {
                let mut txn = db.begin_write();
                let l = txn.get_or_create_label("A").map_err(|e| e.to_string())?;
                let id = txn.create_node(8_000_000 + n as u64, l).map_err(|e| e.to_string())?;
                txn.set_node_property(id, "k".into(), PV::Int(n as i64)).map_err(|e| e.to_string())?;
                txn.commit().map_err(|e| e.to_string())?;
                Ok(full_dump(&db, &cfg, &iv))
            }));
            let after = match cont {
                Ok(Ok(f)) => f,
                Ok(Err(e)) => {
                    out.violations.push(mk(format!("commit-after-tail-failed:{}", crate::storemon::normalise_msg(&e)), format!("commit after tolerating the tail failed: {e}"), json!({"tail_len": tail.bytes.len()})));
                    let _ = std::fs::remove_dir_all(&d);
                    continue;
                }
                Err(p) => {
                    out.violations.push(mk(format!("commit-after-tail-panicked:{}", crate::storemon::normalise_msg(&panic_msg(&p))), "commit after tolerating the tail panicked".into(), json!({})));
                    let _ = std::fs::remove_dir_all(&d);
                    continue;
                }
            };
            drop(db);
            for round in 0..2 {
                match catch_unwind(AssertUnwindSafe(|| Db::open(&base))) {
                    Ok(Ok(db2)) => {
                        let d2 = full_dump(&db2, &cfg, &iv);
                        let diff = diff_facts(&after, &d2, 8);
                        if !diff.is_empty() {
                            out.violations.push(mk(
                                format!("commit-after-tail-not-durable:{}", diff_signature(&diff)),
                                format!("a transaction committed after a {} tail is not present after reopen #{}", tail.family, round + 1),
                                json!({"tail_len": tail.bytes.len(), "tail_hex_prefix": tail_hex, "diff": facts_diff_json(&diff, "before_reopen", "after_reopen")}),
                            ));
                            break;
                        }
                    }
                    Ok(Err(e)) => {
                        out.violations.push(mk(format!("reopen-after-commit-failed:{}", crate::storemon::normalise_msg(&e.to_string())), format!("reopen after committing behind a {} tail fails: {e}", tail.family), json!({"tail_len": tail.bytes.len()})));
                        break;
                    }
                    Err(p) => {
                        out.violations.push(mk(format!("reopen-after-commit-panicked:{}", crate::storemon::normalise_msg(&panic_msg(&p))), "reopen panicked".into(), json!({})));
                        break;
                    }
                }
            }
            let _ = std::fs::remove_dir_all(&d);
        }
    }
    if k == 0 {
        out.samples.push(json!({"case": 0, "bases": bases.len(), "example_tails": ["truncated next transaction at every record boundary +-8 bytes", "4096 zero bytes", "frame header len=2^32-1 with wrong crc", "BeginTx frame without CommitTx"]}));
    }
    let mut seen = std::collections::BTreeMap::<String, usize>::new();
    out.violations.retain(|v| {
        let c = seen.entry(v.signature.clone()).or_default();
        *c += 1;
        *c <= 2
    });
    out
}

pub fn main(args: &Args) -> Report {
    let mut rep = Report::new(
        "C17",
        &args.tier,
        args.seed,
        "fault_enumeration",
        "base images are the exact on-disk state at acknowledgement points of recorded histories; a tail is appended to the log (truncations of the next transaction's bytes, zero fill, random bytes, frame headers with hostile lengths and right/wrong CRC, valid frames without CommitTx, bit flips in each field of the next transaction's records); open must succeed, the dump must equal the uncrashed content at that acknowledgement, a transaction committed afterwards must survive two further reopens; a cell is (tail family, tail length class)",
    );
    rep.assume("the .ndb file never runs ahead of the log prefix in a base image (it is the state at an acknowledgement point)");
    if let Some(p) = &args.replay {
        let j: J = serde_json::from_str(&std::fs::read_to_string(p).expect("read")).expect("json");
        rep.out = run_case(j["seed"].as_u64().unwrap_or(1), j["case"].as_u64().unwrap_or(0) as usize, j["thorough"].as_bool().unwrap_or(false), Some((j["base"].as_u64().unwrap_or(0) as usize, j["tail"].as_u64().unwrap_or(0) as usize)));
        return rep;
    }
    let thorough = args.thorough();
    let n_cases = if thorough { 3000 } else { 90 };
    let deadline = Instant::now() + Duration::from_secs(args.budget_s(150, 2400));
    let seed = args.seed;
    let (out, done) = par_cases(n_cases, threads(), Some(deadline), |k| run_case(seed, k, thorough, None));
    rep.out = out;
    rep.extra.insert("cases_done".into(), json!(done));
    rep.floor("tails", rep.out.evaluations, if thorough { 50_000 } else { 2000 });
    rep.floor("tails followed by a commit", rep.counter("tails_followed_by_commit"), if thorough { 10_000 } else { 500 });
    rep
}
