//! Offline crash-image builder: reconstructs, from a recorded I/O log, the files a crash at any
//! cut point would leave behind, for process death and for several power-loss variants.
//!
//! Model (the *lenient* reading of the quantifier, stated in the evidence): bytes handed to the
//! kernel persist on process death; on power loss only bytes written before the file's last
//! `sync` are guaranteed, any subset of the later writes may have reached the disk, the last of
//! them possibly torn; directory operations (create, rename, remove) are durable when issued.

use super::recorder::Ev;
use crate::common::rng::Rng;
use ndb_core::verif::IoOp;
use std::collections::BTreeMap;
use std::path::Path;

#[derive(Clone, Copy, Debug, PartialEq, Eq, PartialOrd, Ord)]
pub enum Variant {
    /// process death: everything written persists
    Pd,
    /// power loss, none of the unsynced writes persisted
    PlNone,
    /// power loss, a random subset of the unsynced writes persisted
    PlSubset(u64),
    /// power loss, a prefix of the unsynced writes persisted, the last one torn
    PlPrefixTorn(u64),
}

impl Variant {
    pub fn name(&self) -> &'static str {
        match self {
            Variant::Pd => "process-death",
            Variant::PlNone => "powerloss-none",
            Variant::PlSubset(_) => "powerloss-subset",
            Variant::PlPrefixTorn(_) => "powerloss-prefix-torn",
        }
    }
}

#[derive(Clone, Debug)]
enum FOp {
    Write { off: u64, data: Vec<u8> },
    Append { data: Vec<u8> },
    SetLen(u64),
}

#[derive(Clone, Debug, Default)]
struct FileObj {
    /// content as of the last sync
    synced: Vec<u8>,
    /// operations since the last sync
    pending: Vec<FOp>,
}

fn apply(content: &mut Vec<u8>, op: &FOp, torn_at: Option<usize>) {
    match op {
        FOp::Write { off, data } => {
            let d = match torn_at {
                Some(k) => &data[..k.min(data.len())],
                None => &data[..],
            };
            let end = *off as usize + d.len();
            if content.len() < end {
                content.resize(end, 0);
            }
            content[*off as usize..end].copy_from_slice(d);
        }
        FOp::Append { data } => {
            let d = match torn_at {
                Some(k) => &data[..k.min(data.len())],
                None => &data[..],
            };
            content.extend_from_slice(d);
        }
        FOp::SetLen(n) => {
            content.resize(*n as usize, 0);
        }
    }
}

impl FileObj {
    fn full(&self) -> Vec<u8> {
        let mut c = self.synced.clone();
        for op in &self.pending {
            apply(&mut c, op, None);
        }
        c
    }
    fn sync(&mut self) {
        self.synced = self.full();
        self.pending.clear();
    }
    fn image(&self, v: Variant, salt: u64) -> Vec<u8> {
        match v {
            Variant::Pd => self.full(),
            Variant::PlNone => self.synced.clone(),
            Variant::PlSubset(seed) => {
                let mut rng = Rng::derive(seed, salt);
                let mut c = self.synced.clone();
                for op in &self.pending {
                    if rng.chance(1, 2) {
                        apply(&mut c, op, None);
                    }
                }
                c
            }
            Variant::PlPrefixTorn(seed) => {
                let mut rng = Rng::derive(seed, salt ^ 0x7011);
                let mut c = self.synced.clone();
                if self.pending.is_empty() {
                    return c;
                }
                let upto = rng.below(self.pending.len());
                for op in &self.pending[..upto] {
                    apply(&mut c, op, None);
                }
                // the last surviving write is torn: a log append at any byte (later appends land
                // in the same sector, so any length can be what reached the disk), an in-place
                // write at a 512-byte sector boundary (pages are sector-aligned and a sector is
                // written whole or not at all; tearing inside one is harsher than any disk)
                let last = &self.pending[upto];
                let len = match last {
                    FOp::Write { data, .. } | FOp::Append { data } => data.len(),
                    FOp::SetLen(_) => 0,
                };
                if len == 0 {
                    apply(&mut c, last, None);
                } else {
                    let in_place = matches!(last, FOp::Write { .. });
                    let k = if in_place {
                        if len < 512 { if rng.chance(1, 2) { 0 } else { len } } else { 512 * rng.below(len / 512 + 1) }
                    } else if len > 512 && rng.chance(1, 2) {
                        512 * (1 + rng.below(len / 512))
                    } else {
                        rng.below(len + 1)
                    };
                    apply(&mut c, last, Some(k));
                }
                c
            }
        }
    }
}

/// File-system state after applying a prefix of the log.
#[derive(Clone, Debug, Default)]
pub struct FsState {
    files: BTreeMap<String, FileObj>,
}

impl FsState {
    pub fn apply_ev(&mut self, ev: &Ev) {
        let Ev::Io { op, file, file2, offset, data, .. } = ev else { return };
        match op {
            IoOp::Create => {
                self.files.insert(file.clone(), FileObj::default());
            }
            IoOp::Remove => {
                self.files.remove(file);
            }
            IoOp::Rename => {
                if let Some(obj) = self.files.remove(file)
                    && let Some(to) = file2
                {
                    self.files.insert(to.clone(), obj);
                }
            }
            IoOp::WriteAt => {
                self.files.entry(file.clone()).or_default().pending.push(FOp::Write { off: *offset, data: data.clone() });
            }
            IoOp::Append => {
                self.files.entry(file.clone()).or_default().pending.push(FOp::Append { data: data.clone() });
            }
            IoOp::SetLen => {
                self.files.entry(file.clone()).or_default().pending.push(FOp::SetLen(*offset));
            }
            IoOp::Sync => {
                self.files.entry(file.clone()).or_default().sync();
            }
        }
    }

    pub fn unsynced_ops(&self) -> usize {
        self.files.values().map(|f| f.pending.len()).sum()
    }

    /// Materialise the image into `dir`, translating recorded file names: the recording used
    /// base name `g` (g.ndb / g.wal); temp files keep their names.
    pub fn materialise(&self, dir: &Path, v: Variant) -> std::io::Result<()> {
        for (i, (name, obj)) in self.files.iter().enumerate() {
            std::fs::write(dir.join(name), obj.image(v, i as u64))?;
        }
        Ok(())
    }

    pub fn file_names(&self) -> Vec<String> {
        self.files.keys().cloned().collect()
    }

    pub fn file_len(&self, name: &str) -> Option<usize> {
        self.files.get(name).map(|f| f.full().len())
    }

    pub fn full_content(&self, name: &str) -> Option<Vec<u8>> {
        self.files.get(name).map(|f| f.full())
    }
}
