//! crashmon: crash and fault monitors (C01 acknowledged commits survive, C02 recovery yields a
//! committed prefix, C08 failed commits are all-or-nothing, C17 any log tail is tolerated).

pub mod faults;
pub mod image;
pub mod recorder;
pub mod tails;

use crate::common::dump::{Universe, dump_snapshot, index_facts, panic_msg};
use crate::common::r#gen::{GenCfg, HistoryGen};
use crate::common::model::{Facts, Model, Op, W, diff_facts, history_to_json};
use crate::common::report::{Args, CaseOut, Report, Violation, par_cases, threads};
use crate::common::rng::Rng;
use crate::common::sut::{ScratchDir, Sut};
use crate::common::{diff_signature, facts_diff_json};
use image::{FsState, Variant};
use ndb_core::{Db, GraphSnapshot, PropertyValue as PV};
use recorder::{Ev, Mode, Recorder};
use serde_json::{Value as J, json};
use std::collections::BTreeSet;
use std::panic::{AssertUnwindSafe, catch_unwind};
use std::path::Path;
use std::sync::Arc;
use std::time::{Duration, Instant};

pub fn crash_cfg(rng: &mut Rng) -> (GenCfg, usize) {
    let mut cfg = GenCfg::default();
    // tx, compact, checkpoint, create_index, close+reopen, drop+reopen
    cfg.op_weights = [100, 18, 6, 8, 8, 6];
    cfg.max_live_nodes = 8;
    cfg.tx_writes = (1, 5);
    // stay away from the recorded label-persistence finding: crash checks compare with the
    // uncrashed run of the same history, and label sets beyond the first label do not survive
    // any reopen
    cfg.multi_label = false;
    cfg.labels = vec!["A".into(), "B".into()];
    cfg.keys = vec!["k".into(), "p".into(), "q".into()];
    let n_ops = 3 + rng.below(9);
    (cfg, n_ops)
}

pub fn gen_history(seed: u64, k: usize) -> (GenCfg, Vec<Op>) {
    let mut rng = Rng::derive(seed ^ 0xC4A5, k as u64);
    let (mut cfg, n) = crash_cfg(&mut rng);
    // The recorded compaction findings (K-C05-*) make the *uncrashed* run itself inconsistent when
    // data is deleted/removed/overwritten around a compaction, and recovery then legitimately
    // differs from it. Crash histories therefore come in two families: compaction with
    // append-only writes, or deletes/removals/overwrites without compaction.
    if k % 2 == 0 {
        cfg.append_only = true;
    } else {
        cfg.op_weights[1] = 0;
        cfg.op_weights[2] = 0;
    }
    // Every third history is index-heavy: one label, one key and an index on them from the
    // start, so that every property write goes through index maintenance inside commit.
    let index_heavy = k % 3 == 2;
    if index_heavy {
        cfg.labels = vec!["A".into()];
        cfg.keys = vec!["k".into()];
        cfg.simple_values = true;
    }
    // Every fourth history carries vector writes inside its transactions; the vector-search view
    // is then part of every dump (vectors of acknowledged transactions are state, vectors of
    // failed or unfinished ones are not).
    // (kept apart from index histories so that a disagreement has one cause)
    if k % 4 == 3 && !index_heavy {
        cfg.vectors = true;
        cfg.op_weights[3] = 0;
    }
    let cfg2 = cfg.clone();
    let mut g = HistoryGen::new(&cfg2);
    let mut h = Vec::new();
    if index_heavy {
        let op = Op::CreateIndex { label: "A".into(), field: "k".into() };
        g.model.apply_op(&op);
        h.push(op);
    }
    h.extend(g.gen_history(&mut rng, n));
    (cfg, h)
}

/// Index definitions and candidate lookup values a history can have produced.
pub struct IndexView {
    pub indexes: Vec<(String, String)>,
    pub values: Vec<PV>,
}

pub fn index_view(h: &[Op]) -> IndexView {
    let mut idx = BTreeSet::new();
    let mut vals: Vec<PV> = Vec::new();
    let mut seen = BTreeSet::new();
    for op in h {
        match op {
            Op::CreateIndex { label, field } => {
                idx.insert((label.clone(), field.clone()));
            }
            Op::Tx { writes, .. } => {
                for w in writes {
                    if let W::SetNodeProp { val, .. } = w
                        && seen.insert(crate::common::value::canon(val))
                    {
                        vals.push(val.clone());
                    }
                }
            }
            _ => {}
        }
    }
    IndexView { indexes: idx.into_iter().collect(), values: vals }
}

pub fn full_dump(db: &Db, cfg: &GenCfg, iv: &IndexView) -> Facts {
    let uni = Universe { keys: &cfg.keys, types: &cfg.types };
    match catch_unwind(AssertUnwindSafe(|| db.snapshot())) {
        Ok(snap) => {
            let mut f = dump_snapshot(&snap, &uni);
            f.extend(index_facts(&snap, &iv.indexes, &iv.values));
            if cfg.vectors {
                f.extend(crate::storemon::vector::vector_facts(db, cfg.vector_dim, 50));
            }
            f
        }
        Err(p) => {
            let mut f = Facts::new();
            f.insert("!panic/snapshot".into(), panic_msg(&p));
            f
        }
    }
}

/// Result of the instrumented (recording) execution of a history.
pub struct Recording {
    pub log: Vec<Ev>,
    /// live dump after every executed op, with the number of commits acknowledged so far
    pub lives: Vec<(usize, Facts)>,
    pub executed_ops: usize,
    pub commits: usize,
}

pub fn record_history(cfg: &GenCfg, h: &[Op], iv: &IndexView, out: &mut CaseOut) -> Option<Recording> {
    let dir = ScratchDir::new("rec");
    let rec = Recorder::new();
    ndb_core::verif::install_thread(rec.clone() as Arc<dyn ndb_core::verif::Hooks>);
    rec.set_mode(Mode::Record);
    let result = (|| {
        let mut sut = match Sut::open(&dir.db_base()) {
            Ok(s) => s,
            Err(e) => {
                out.inconclusive(&format!("recording-open-failed:{e}"));
                return None;
            }
        };
        let mut lives = vec![(0usize, full_dump(sut.db(), cfg, iv))];
        let mut commits = 0usize;
        let mut executed = 0usize;
        for op in h {
            let is_commit = matches!(op, Op::Tx { commit: true, .. });
            let name = op_name(op);
            if is_commit {
                rec.mark(format!("start {}", commits + 1));
            } else {
                rec.mark(format!("op_begin {name}"));
            }
            let r = sut.apply(op);
            match r {
                Ok(()) => {
                    if is_commit {
                        commits += 1;
                        rec.mark(format!("ack {commits}"));
                    } else {
                        rec.mark(format!("op_end {name}"));
                    }
                }
                Err(e) => {
                    // the uncrashed run itself fails here (a different property's matter): the
                    // prefix recorded so far is still a valid crash experiment
                    out.inconclusive(&format!("recording-step-failed:{name}:{}", crate::storemon::normalise_msg(&e.to_string())));
                    if sut.db.is_none() {
                        break;
                    }
                    break;
                }
            }
            executed += 1;
            lives.push((commits, full_dump(sut.db(), cfg, iv)));
        }
        // process "dies" here: no close
        drop(sut);
        Some((lives, executed, commits))
    })();
    rec.set_mode(Mode::Off);
    ndb_core::verif::uninstall_thread();
    let log = rec.take_log();
    let (lives, executed_ops, commits) = result?;
    Some(Recording { log, lives, executed_ops, commits })
}

pub fn op_name(op: &Op) -> &'static str {
    match op {
        Op::Tx { commit: true, .. } => "commit",
        Op::Tx { commit: false, .. } => "abandon",
        Op::Compact => "compact",
        Op::Checkpoint => "checkpoint",
        Op::CreateIndex { .. } => "create_index",
        Op::Reopen { close: true } => "close+reopen",
        Op::Reopen { close: false } => "drop+reopen",
    }
}

#[derive(Clone, Debug)]
pub struct CutInfo {
    pub acked: usize,
    pub started: usize,
    /// operation in flight at the cut ("commit", "compact", ..., "idle", "open")
    pub phase: String,
    /// hook site of the I/O step the crash pre-empts
    pub site: String,
}

pub fn cut_infos(log: &[Ev]) -> Vec<CutInfo> {
    // info[c] describes the state just before event c (c == log.len(): after everything)
    let mut out = Vec::with_capacity(log.len() + 1);
    let mut acked = 0;
    let mut started = 0;
    let mut phase = "open".to_string();
    for c in 0..=log.len() {
        let site = match log.get(c) {
            Some(Ev::Io { site, .. }) => site.to_string(),
            Some(Ev::Mark(_)) => "mark".into(),
            None => "end".into(),
        };
        out.push(CutInfo { acked, started, phase: phase.clone(), site });
        if let Some(Ev::Mark(m)) = log.get(c) {
            let mut it = m.split(' ');
            match (it.next(), it.next()) {
                (Some("start"), Some(k)) => {
                    started = k.parse().unwrap_or(started);
                    phase = "commit".into();
                }
                (Some("ack"), Some(k)) => {
                    acked = k.parse().unwrap_or(acked);
                    phase = "idle".into();
                }
                (Some("op_begin"), Some(n)) => phase = n.to_string(),
                (Some("op_end"), _) => phase = "idle".into(),
                _ => {}
            }
        }
    }
    out
}

pub enum Verdict {
    Ok { matched_commits: usize },
    Violation(Violation),
}

/// Open an image, dump it, judge it against the live dumps, then run a continuation
/// (commit a marker transaction, reopen, compare).
#[allow(clippy::too_many_arguments)]
pub fn judge_image(
    dir: &Path,
    cfg: &GenCfg,
    iv: &IndexView,
    rec: &Recording,
    info: &CutInfo,
    variant: Variant,
    cut: usize,
    replay: &J,
    out: &mut CaseOut,
    continuation: bool,
) -> Vec<Violation> {
    let mut viols = Vec::new();
    let base = dir.join("g");
    let where_ = format!("{}@{}", info.phase, info.site);
    let mk = |prop: &str, kind: &str, summary: String, detail: J| Violation {
        signature: format!("{prop}|{kind}|{}|{}", variant.name(), where_),
        summary,
        detail,
        replay: replay.clone(),
    };
    let opened = catch_unwind(AssertUnwindSafe(|| Db::open(&base)));
    let db = match opened {
        Ok(Ok(db)) => db,
        Ok(Err(e)) => {
            viols.push(mk(
                "C02",
                &format!("open-failed:{}", crate::storemon::normalise_msg(&e.to_string())),
                format!("opening the crash image failed: {e} (cut {cut}, acked {}, started {})", info.acked, info.started),
                json!({"cut": cut, "variant": variant.name(), "phase": info.phase, "site": info.site}),
            ));
            return viols;
        }
        Err(p) => {
            viols.push(mk(
                "C02",
                &format!("open-panicked:{}", crate::storemon::normalise_msg(&panic_msg(&p))),
                format!("opening the crash image panicked: {} (cut {cut})", panic_msg(&p)),
                json!({"cut": cut, "variant": variant.name(), "phase": info.phase, "site": info.site}),
            ));
            return viols;
        }
    };
    out.count("images_opened", 1);
    let d = full_dump(&db, cfg, iv);
    // candidates: live dumps whose commit count lies in [acked, started]
    let mut matched: Option<usize> = None;
    for (cc, l) in &rec.lives {
        if *cc >= info.acked && *cc <= info.started && *l == d {
            matched = Some(*cc);
            break;
        }
    }
    match matched {
        Some(cc) => {
            out.count(&format!("recovered.{}", if cc == info.acked { "acked-state" } else { "in-flight-commit-included" }), 1);
        }
        None => {
            // does it equal an *older* committed state? then acknowledged work was lost (C01)
            let older = rec.lives.iter().find(|(cc, l)| *cc < info.acked && *l == d).map(|(cc, _)| *cc);
            // nearest candidate for the diff
            let cand = rec.lives.iter().filter(|(cc, _)| *cc >= info.acked && *cc <= info.started).map(|(_, l)| l).min_by_key(|l| {
                // nearest = fewest differences in the graph views first, index and vector views second
                let df = diff_facts(l, &d, 1000);
                (df.iter().filter(|(k, _, _)| !k.starts_with("x/") && !k.starts_with("vs/")).count(), df.len())
            });
            let diff = cand.map(|l| diff_facts(l, &d, 10)).unwrap_or_default();
            if let Some(o) = older {
                viols.push(mk(
                    "C01",
                    &format!("acknowledged-commits-lost:{}", diff_signature(&diff)),
                    format!("recovered state equals the state after commit {o}, but {} commits had been acknowledged (cut {cut})", info.acked),
                    json!({"cut": cut, "acked": info.acked, "recovered_commit": o, "diff_vs_expected": facts_diff_json(&diff, "expected", "recovered")}),
                ));
            } else {
                // which acknowledged facts are missing?
                let lost_acked = diff.iter().any(|(_, a, b)| b == "<absent>" && a != "<absent>");
                let prop = if lost_acked && info.started == info.acked { "C01" } else { "C02" };
                viols.push(mk(
                    prop,
                    &format!("not-a-committed-prefix:{}", diff_signature(&diff)),
                    format!("recovered state equals no committed prefix (acked {}, started {}, cut {cut})", info.acked, info.started),
                    json!({"cut": cut, "acked": info.acked, "started": info.started, "diff_vs_nearest": facts_diff_json(&diff, "expected", "recovered")}),
                ));
            }
        }
    }
    if !continuation {
        return viols;
    }
    // continuation: the recovered database must keep accepting and durably storing transactions
    out.count("continuations", 1);
    let marker_ext = 9_000_000 + cut as u64;
    let cont = catch_unwind(AssertUnwindSafe(|| -> Result<Facts, String> {
        let mut txn = db.begin_write();
        let l = txn.get_or_create_label("A").map_err(|e| e.to_string())?;
        let id = txn.create_node(marker_ext, l).map_err(|e| e.to_string())?;
        txn.set_node_property(id, "k".into(), PV::Int(cut as i64)).map_err(|e| e.to_string())?;
        txn.commit().map_err(|e| e.to_string())?;
        Ok(full_dump(&db, cfg, iv))
    }));
    let after = match cont {
        Ok(Ok(f)) => f,
        Ok(Err(e)) => {
            viols.push(mk(
                "C02",
                &format!("continuation-commit-failed:{}", crate::storemon::normalise_msg(&e)),
                format!("a transaction on the recovered database failed: {e}"),
                json!({"cut": cut}),
            ));
            return viols;
        }
        Err(p) => {
            viols.push(mk(
                "C02",
                &format!("continuation-commit-panicked:{}", crate::storemon::normalise_msg(&panic_msg(&p))),
                format!("a transaction on the recovered database panicked: {}", panic_msg(&p)),
                json!({"cut": cut}),
            ));
            return viols;
        }
    };
    drop(db);
    let reopened = catch_unwind(AssertUnwindSafe(|| Db::open(&base)));
    match reopened {
        Ok(Ok(db2)) => {
            let d2 = full_dump(&db2, cfg, iv);
            let diff = diff_facts(&after, &d2, 10);
            if !diff.is_empty() {
                viols.push(mk(
                    "C01",
                    &format!("commit-after-recovery-not-durable:{}", diff_signature(&diff)),
                    "a transaction acknowledged on the recovered database is not (fully) present after the next reopen".to_string(),
                    json!({"cut": cut, "diff": facts_diff_json(&diff, "before_reopen", "after_reopen")}),
                ));
            }
        }
        Ok(Err(e)) => viols.push(mk(
            "C01",
            &format!("reopen-after-continuation-failed:{}", crate::storemon::normalise_msg(&e.to_string())),
            format!("after recovery and one more acknowledged commit the database no longer opens: {e}"),
            json!({"cut": cut}),
        )),
        Err(p) => viols.push(mk(
            "C01",
            &format!("reopen-after-continuation-panicked:{}", crate::storemon::normalise_msg(&panic_msg(&p))),
            format!("after recovery and one more acknowledged commit opening panics: {}", panic_msg(&p)),
            json!({"cut": cut}),
        )),
    }
    viols
}

fn variants_for(thorough: bool, seed: u64) -> Vec<Variant> {
    let mut v = vec![Variant::Pd, Variant::PlNone, Variant::PlSubset(seed), Variant::PlSubset(seed ^ 1), Variant::PlPrefixTorn(seed)];
    if thorough {
        for i in 2..8 {
            v.push(Variant::PlSubset(seed ^ i));
        }
        v.push(Variant::PlPrefixTorn(seed ^ 9));
    }
    v
}

/// One history: record, then enumerate crash images.
pub fn run_case(seed: u64, k: usize, thorough: bool, only: Option<(usize, String)>) -> CaseOut {
    let mut out = CaseOut::default();
    let (cfg, h) = gen_history(seed, k);
    let iv = index_view(&h);
    let Some(rec) = record_history(&cfg, &h, &iv, &mut out) else { return out };
    out.count("histories", 1);
    out.count("io_steps_recorded", rec.log.iter().filter(|e| matches!(e, Ev::Io { .. })).count() as u64);
    out.count("commits_recorded", rec.commits as u64);
    let infos = cut_infos(&rec.log);
    let m = rec.log.len();
    // which cuts: every I/O event in thorough; in quick all cuts adjacent to a mark or a sync plus
    // a sample of the others
    let mut rng = Rng::derive(seed ^ 0xC07, k as u64);
    let mut cuts: Vec<usize> = Vec::new();
    for c in 0..=m {
        let is_io = matches!(rec.log.get(c), Some(Ev::Io { .. })) || c == m;
        if !is_io {
            continue;
        }
        if thorough {
            cuts.push(c);
            continue;
        }
        let near_mark = (c > 0 && matches!(rec.log.get(c - 1), Some(Ev::Mark(_)))) || matches!(rec.log.get(c + 1), Some(Ev::Mark(_))) || c == m;
        let is_sync = matches!(rec.log.get(c), Some(Ev::Io { op: ndb_core::verif::IoOp::Sync, .. }))
            || (c > 0 && matches!(rec.log.get(c - 1), Some(Ev::Io { op: ndb_core::verif::IoOp::Sync, .. })));
        let wal = matches!(rec.log.get(c), Some(Ev::Io { site, .. }) if site.starts_with("wal."));
        if near_mark || (is_sync && rng.chance(1, 3)) || (wal && rng.chance(1, 2)) || rng.chance(1, 12) {
            cuts.push(c);
        }
    }
    let variants = variants_for(thorough, seed ^ k as u64);
    let cutset: BTreeSet<usize> = cuts.iter().copied().collect();
    let mut fs = FsState::default();
    let img_root = ScratchDir::new("img");
    let mut n_img = 0u64;
    for c in 0..=m {
        if cutset.contains(&c) {
            let info = &infos[c];
            for v in &variants {
                if let Some((oc, ov)) = &only
                    && (*oc != c || ov != v.name())
                {
                    continue;
                }
                // identical to process death when nothing is unsynced
                if *v != Variant::Pd && fs.unsynced_ops() == 0 {
                    continue;
                }
                let d = img_root.path.join(format!("i{n_img}"));
                n_img += 1;
                if std::fs::create_dir_all(&d).is_err() || fs.materialise(&d, *v).is_err() {
                    out.inconclusive("image-materialise-failed");
                    continue;
                }
                out.evaluations += 1;
                out.count(&format!("images.{}", v.name()), 1);
                out.cell(format!("{}@{}:{}", info.phase, info.site, v.name()));
                if info.started > info.acked {
                    out.count("images_with_commit_in_flight", 1);
                }
                let replay = json!({"engine":"crashmon","seed":seed,"case":k,"thorough":thorough,"cut":c,"variant":v.name()});
                let cont = c % 3 == 0 || thorough;
                let vs = judge_image(&d, &cfg, &iv, &rec, info, *v, c, &replay, &mut out, cont);
                out.violations.extend(vs);
                let _ = std::fs::remove_dir_all(&d);
            }
        }
        if let Some(ev) = rec.log.get(c) {
            fs.apply_ev(ev);
        }
    }
    if k < 2 {
        out.samples.push(json!({
            "case": k,
            "history": history_to_json(&h),
            "io_steps": rec.log.iter().filter(|e| matches!(e, Ev::Io { .. })).count(),
            "first_events": rec.log.iter().take(14).map(|e| match e { Ev::Io { site, op, file, offset, data, .. } => json!({"site": site, "op": format!("{op:?}"), "file": file, "offset": offset, "len": data.len()}), Ev::Mark(m) => json!({"mark": m}) }).collect::<Vec<_>>(),
            "cuts_explored": cuts.len(),
        }));
    }
    // keep a bounded number of witnesses per signature
    let mut seen = std::collections::BTreeMap::<String, usize>::new();
    out.violations.retain(|v| {
        let c = seen.entry(v.signature.clone()).or_default();
        *c += 1;
        *c <= 2
    });
    out
}

/// Hook neutrality self-test: the same history with hooks idle and with hooks recording must
/// produce identical dumps.
fn neutrality_selftest(seed: u64, out: &mut CaseOut) {
    let (cfg, h) = gen_history(seed, 0);
    let iv = index_view(&h);
    let mut scratch = CaseOut::default();
    let Some(rec) = record_history(&cfg, &h, &iv, &mut scratch) else { return };
    let dir = ScratchDir::new("idle");
    let Ok(mut sut) = Sut::open(&dir.db_base()) else { return };
    let mut model = Model::default();
    for (i, op) in h.iter().enumerate().take(rec.executed_ops) {
        if sut.apply(op).is_err() {
            return;
        }
        model.apply_op(op);
        let d = full_dump(sut.db(), &cfg, &iv);
        if d != rec.lives[i + 1].1 {
            out.inconclusive("hooks-not-neutral");
            return;
        }
    }
    out.count("hook_neutrality_steps_compared", rec.executed_ops as u64);
}

pub fn main(prop: &str, args: &Args) -> Report {
    let mut rep = Report::new(
        prop,
        &args.tier,
        args.seed,
        "fault_enumeration",
        "one instrumented run of a generated history records every mutating file operation with its payload (hooks in wal.rs/pager.rs/vacuum.rs); crash images for the explored cut points are rebuilt offline for process death and power-loss variants (none / random subsets / prefix with torn last write of the unsynced writes), opened with the real Db::open and dumped through all read views; the dump must equal the uncrashed run's content at a commit count between 'acknowledged before the cut' and 'started before the cut'; a continuation commits one more transaction, reopens and compares again; a cell is (operation in flight, hook site of the pre-empted step, crash variant)",
    );
    rep.assume("directory operations (create, rename, remove) are treated as durable when issued; un-fsynced directory entries being lost is not modelled");
    rep.assume("power loss never drops bytes written before the file's last sync; unsynced writes may persist in any subset and the last may be torn");
    rep.assume("histories avoid label sets beyond a node's first label (recorded finding K-C04-secondary-labels-lost)");
    if let Some(p) = &args.replay {
        let j: J = serde_json::from_str(&std::fs::read_to_string(p).expect("read")).expect("json");
        let only = Some((j["cut"].as_u64().unwrap_or(0) as usize, j["variant"].as_str().unwrap_or("").to_string()));
        let mut o = run_case(j["seed"].as_u64().unwrap_or(1), j["case"].as_u64().unwrap_or(0) as usize, j["thorough"].as_bool().unwrap_or(false), only);
        o.violations.retain(|v| v.signature.starts_with(prop));
        rep.out = o;
        return rep;
    }
    let thorough = args.thorough();
    let n_cases = if thorough { 2400 } else { 64 };
    let deadline = Instant::now() + Duration::from_secs(args.budget_s(150, 2400));
    let seed = args.seed;
    let (mut out, done) = par_cases(n_cases, threads(), Some(deadline), |k| run_case(seed, k, thorough, None));
    neutrality_selftest(seed, &mut out);
    // each property reports its own violations; the other property's are counted only
    let other: Vec<String> = out.violations.iter().filter(|v| !v.signature.starts_with(prop)).map(|v| v.signature.clone()).collect();
    out.violations.retain(|v| v.signature.starts_with(prop));
    rep.out = out;
    rep.extra.insert("cases_done".into(), json!(done));
    rep.extra.insert("violations_of_sibling_property_seen".into(), json!(other.len()));
    rep.floor("crash images", rep.out.evaluations, if thorough { 100_000 } else { 3000 });
    rep.floor("images with a commit in flight", rep.counter("images_with_commit_in_flight"), 100);
    rep.floor("continuation rounds", rep.counter("continuations"), 50);
    rep
}

/// Debug aid: print a history and the marks of its recording with their log positions.
pub fn show(seed: u64, k: usize) {
    let (cfg, h) = gen_history(seed, k);
    let iv = index_view(&h);
    println!("{}", crate::common::shrink::shape(&h));
    println!("{}", serde_json::to_string(&history_to_json(&h)).unwrap());
    let mut out = CaseOut::default();
    if let Some(rec) = record_history(&cfg, &h, &iv, &mut out) {
        for (i, e) in rec.log.iter().enumerate() {
            match e {
                Ev::Mark(m) => println!("{i}: mark {m}"),
                Ev::Io { site, op, file, offset, data, .. } => println!("{i}: {site} {op:?} {file} off={offset} len={}", data.len()),
            }
        }
    }
}
