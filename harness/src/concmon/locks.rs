//! C35: any mix of concurrent readers, writers, compaction, checkpoint, index creation, vector
//! insertion and vector search makes progress. Restated for finite runs as: no wait-for cycle
//! among lock waiters is ever observed, every operation of a stress run completes within a very
//! generous bound, and lock-order inversions seen across the workload are reported.

use super::ctl::Ctl;
use super::marker_tx;
use crate::common::report::{Args, CaseOut, Report, Violation};
use crate::common::rng::Rng;
use crate::common::sut::ScratchDir;
use ndb_core::{Db, GraphSnapshot, PropertyValue};
use serde_json::json;
use std::collections::{BTreeMap, BTreeSet};
use std::sync::atomic::{AtomicBool, AtomicU64, Ordering};
use std::sync::{Arc, Mutex};
use std::time::{Duration, Instant};

const OPS: [&str; 9] = ["commit", "commit-indexed", "snapshot-read", "index-lookup", "compact", "checkpoint", "create_index", "vector-insert", "vector-search"];

fn do_op(db: &Db, op: usize, rng: &mut Rng, seq: &AtomicU64) -> Result<(), String> {
    match op {
        0 => marker_tx(db, seq.fetch_add(1, Ordering::SeqCst) + 10_000),
        1 => {
            // a commit that maintains the property index (takes catalog + pager inside the log lock)
            let k = seq.fetch_add(1, Ordering::SeqCst) + 10_000;
            let mut txn = db.begin_write();
            let l = txn.get_or_create_label("P").map_err(|e| e.to_string())?;
            let id = txn.create_node(k + 5_000_000, l).map_err(|e| e.to_string())?;
            txn.set_node_property(id, "age".into(), PropertyValue::Int((k % 7) as i64)).map_err(|e| e.to_string())?;
            txn.commit().map_err(|e| e.to_string())
        }
        2 => {
            let s = db.snapshot();
            let mut n = 0;
            for id in s.nodes().take(50) {
                n += s.neighbors(id, None).count();
                let _ = s.node_properties(id);
                let _ = s.node_property(id, "t");
            }
            let _ = s.node_count(None);
            let _ = n;
            Ok(())
        }
        3 => {
            let s = db.snapshot();
            let _ = s.lookup_index("P", "age", &PropertyValue::Int(rng.range(0, 6)));
            let _ = s.edge_count(None);
            Ok(())
        }
        4 => db.compact().map_err(|e| e.to_string()),
        5 => db.checkpoint().map_err(|e| e.to_string()),
        6 => {
            // creating an index that exists already returns early: half of the calls create a new
            // one, so that the whole creation path (catalog, then pages) keeps running
            if rng.chance(1, 2) {
                db.create_index("P", &format!("f{}", seq.fetch_add(1, Ordering::SeqCst))).map_err(|e| e.to_string())
            } else {
                db.create_index("P", ["age", "name", "t"][rng.below(3)]).map_err(|e| e.to_string())
            }
        }
        7 => {
            let mut txn = db.begin_write();
            let l = txn.get_or_create_label("V").map_err(|e| e.to_string())?;
            let id = txn.create_node(seq.fetch_add(1, Ordering::SeqCst) + 9_000_000, l).map_err(|e| e.to_string())?;
            txn.set_vector(id, vec![rng.f64_unit() as f32, rng.f64_unit() as f32, 1.0]).map_err(|e| e.to_string())?;
            txn.commit().map_err(|e| e.to_string())
        }
        _ => db.search_vector(&[0.5, 0.5, 1.0], 3).map(|_| ()).map_err(|e| e.to_string()),
    }
}

/// Cycles in the class-level lock-order graph whose edges share no common gate lock.
fn potential_cycles(edges: &BTreeMap<(String, String), BTreeSet<String>>) -> Vec<String> {
    let mut adj: BTreeMap<&String, Vec<(&String, &BTreeSet<String>)>> = BTreeMap::new();
    for ((a, b), common) in edges {
        adj.entry(a).or_default().push((b, common));
    }
    let mut out = BTreeSet::new();
    // 2-cycles and 3-cycles are enough for a lock set of this size
    for ((a, b), c1) in edges {
        if a == b {
            continue;
        }
        if let Some(c2) = edges.get(&(b.clone(), a.clone())) {
            let gate: BTreeSet<_> = c1.intersection(c2).collect();
            if gate.is_empty() && a < b {
                out.insert(format!("{a} -> {b} -> {a}"));
            }
        }
        for (c, c2) in adj.get(b).into_iter().flatten() {
            if *c == a || *c == b {
                continue;
            }
            if let Some(c3) = edges.get(&((*c).clone(), a.clone())) {
                let g: BTreeSet<_> = c1.intersection(c2).cloned().collect::<BTreeSet<String>>().intersection(c3).cloned().collect();
                if g.is_empty() && a < b && a < *c {
                    out.insert(format!("{a} -> {b} -> {c} -> {a}"));
                }
            }
        }
    }
    out.into_iter().collect()
}

/// `roles`: thread t only runs `mix[t % mix.len()]` (used by the directed confirmation: with a
/// random mix every thread soon queues up behind the writer lock and nobody is left to take the
/// other side of an inversion).
fn stress(ctl: &Arc<Ctl>, seed: u64, threads: usize, secs: u64, mix: &[usize], out: &mut CaseOut) {
    stress_with(ctl, seed, threads, secs, mix, false, out)
}

fn stress_with(ctl: &Arc<Ctl>, seed: u64, threads: usize, secs: u64, mix: &[usize], roles: bool, out: &mut CaseOut) {
    let dir = ScratchDir::new("c35");
    let Ok(db) = Db::open(dir.db_base()) else {
        out.inconclusive("open");
        return;
    };
    let db = Arc::new(db);
    for k in 0..3 {
        let _ = marker_tx(&db, k);
    }
    let _ = db.create_index("P", "age");
    // enough vectors that the B-trees behind the vector index are about to split their roots:
    // the rare paths of a vector insert are then reached early in every round
    {
        let mut rng = Rng::derive(seed, 0xBEEF);
        let seq0 = AtomicU64::new(8_000_000);
        for _ in 0..26 {
            let _ = do_op(&db, 7, &mut rng, &seq0);
        }
    }
    ctl.lock_monitoring.store(true, Ordering::Relaxed);
    ctl.noise.store(11, Ordering::Relaxed);
    let stop = Arc::new(AtomicBool::new(false));
    let seq = Arc::new(AtomicU64::new(0));
    // per thread: (current op, started at) for the progress watchdog
    let current: Arc<Mutex<Vec<Option<(usize, Instant)>>>> = Arc::new(Mutex::new(vec![None; threads]));
    let done: Arc<Vec<AtomicU64>> = Arc::new((0..OPS.len()).map(|_| AtomicU64::new(0)).collect());
    let overlaps: Arc<Mutex<BTreeSet<(usize, usize)>>> = Arc::new(Mutex::new(BTreeSet::new()));
    let first_errors: Arc<Mutex<BTreeMap<usize, (u64, String)>>> = Arc::new(Mutex::new(BTreeMap::new()));
    let mut hs = Vec::new();
    for t in 0..threads {
        let (db, stop, seq, current, done, overlaps) = (db.clone(), stop.clone(), seq.clone(), current.clone(), done.clone(), overlaps.clone());
        let first_errors = first_errors.clone();
        let mix: Vec<usize> = mix.to_vec();
        hs.push(std::thread::spawn(move || {
            let mut rng = Rng::derive(seed, t as u64);
            while !stop.load(Ordering::Relaxed) {
                let op = if roles { mix[t % mix.len()] } else { mix[rng.below(mix.len())] };
                {
                    let mut c = current.lock().unwrap();
                    c[t] = Some((op, Instant::now()));
                    let mut ov = overlaps.lock().unwrap();
                    for (i, o) in c.iter().enumerate() {
                        if i != t && let Some((o2, _)) = o {
                            ov.insert((op.min(*o2), op.max(*o2)));
                        }
                    }
                }
                if let Err(e) = do_op(&db, op, &mut rng, &seq) {
                    let mut f = first_errors.lock().unwrap();
                    let entry = f.entry(op).or_insert((0u64, e.clone()));
                    entry.0 += 1;
                }
                done[op].fetch_add(1, Ordering::Relaxed);
                current.lock().unwrap()[t] = None;
            }
        }));
    }
    let t0 = Instant::now();
    let mut stuck: Option<String> = None;
    while t0.elapsed() < Duration::from_secs(secs) {
        std::thread::sleep(Duration::from_millis(50));
        if let Some(c) = ctl.live_wait_cycle() {
            // confirm: a real deadlock persists
            std::thread::sleep(Duration::from_millis(300));
            if let Some(c2) = ctl.live_wait_cycle() {
                stuck = Some(if c2 == c { c } else { c2 });
                break;
            }
        }
        let cur = current.lock().unwrap();
        if cur.iter().flatten().any(|(_, since)| since.elapsed() > Duration::from_secs(60)) {
            stuck = Some("watchdog: an operation did not complete within 60 s (no wait-for cycle visible)".into());
            break;
        }
    }
    stop.store(true, Ordering::SeqCst);
    let total: u64 = done.iter().map(|d| d.load(Ordering::Relaxed)).sum();
    out.evaluations += total;
    for (i, d) in done.iter().enumerate() {
        out.count(&format!("ops.{}", OPS[i]), d.load(Ordering::Relaxed));
    }
    if std::env::var("VERIF_DEBUG_LOCKS").is_ok() {
        eprintln!("round mix={:?} done={:?} errors={:?}", mix, done.iter().map(|d| d.load(Ordering::Relaxed)).collect::<Vec<_>>(), first_errors.lock().unwrap());
    }
    for (op, (n, e)) in first_errors.lock().unwrap().iter() {
        out.count(&format!("op_errors.{}", OPS[*op]), *n);
        if out.samples.len() < 6 {
            out.samples.push(json!({"operation_error": OPS[*op], "count": n, "first": e}));
        }
    }
    for (a, b) in overlaps.lock().unwrap().iter() {
        out.cell(format!("overlap:{}+{}", OPS[*a], OPS[*b]));
    }
    match stuck {
        Some(desc) if desc.starts_with("watchdog") => {
            out.inconclusive("watchdog-without-wait-for-cycle");
            // threads may be stuck: do not join
        }
        Some(desc) => {
            let classes: BTreeSet<String> = desc.split(|c| c == '[' || c == ']' || c == ' ').filter(|s| s.contains(".rs:")).map(|s| s.trim_matches(',').to_string()).collect();
            out.violations.push(Violation {
                signature: format!("C35|deadlock|{}", classes.into_iter().collect::<Vec<_>>().join("+")),
                summary: format!("threads wait on each other forever: {desc}"),
                detail: json!({"wait_for_cycle": desc, "threads": threads, "operation_mix": mix.iter().map(|i| OPS[*i]).collect::<Vec<_>>()}),
                replay: json!({"engine":"concmon","property":"C35","threads":threads,"mix":mix}),
            });
            // deadlocked threads cannot be joined; leak them (the process ends soon)
        }
        None => {
            for h in hs {
                let _ = h.join();
            }
        }
    }
    ctl.noise.store(0, Ordering::Relaxed);
    ctl.lock_monitoring.store(false, Ordering::Relaxed);
}

pub fn main(args: &Args) -> Report {
    let mut rep = Report::new(
        "C35",
        &args.tier,
        args.seed,
        "exploration",
        "4-16 threads run a seeded mix of all public operations (commits with and without index maintenance, snapshot reads incl. B-tree property reads and statistics, index lookups, compaction, checkpoint, index creation, vector insert/search) against one Db under lock-acquisition noise; a lock shim reports every attempt/acquire/release: a cycle in the live wait-for graph that persists is a deadlock (definitive), an operation exceeding 60 s without such a cycle is inconclusive, cycles in the accumulated class-level lock-order graph without a common gate lock are reported as unconfirmed potentials; a cell is a pair of operation kinds observed overlapping",
    );
    rep.assume("'forever' is restated as bounded progress; interleavings inside std's lock implementations are not controlled");
    let ctl = Ctl::new();
    ctl.install();
    let mut out = CaseOut::default();
    let thorough = args.thorough();
    let all: Vec<usize> = (0..OPS.len()).collect();
    let mixes: Vec<Vec<usize>> = vec![
        all.clone(),
        vec![1, 6, 3],       // indexed commits vs index creation vs lookups
        vec![7, 8, 0, 4],    // vectors vs commits vs compaction
        vec![0, 1, 2, 4, 5], // writers vs readers vs compaction/checkpoint
    ];
    let secs = if thorough { 40 } else { 4 };
    for (i, mix) in mixes.iter().enumerate() {
        for threads in if thorough { vec![4, 8, 16] } else { vec![6] } {
            stress(&ctl, args.seed ^ i as u64, threads, secs, mix, &mut out);
        }
    }
    let edges = ctl.edges();
    let acq = ctl.acquisitions();
    let pots = potential_cycles(&edges);
    for c in ctl.cycles_seen() {
        out.count("transient_or_real_wait_cycles_seen_at_attempt", 1);
        let _ = c;
    }
    // Directed confirmation: a gate-free cycle in the lock-order graph says two operations take
    // the same locks in opposite orders. Re-run the stress with every thread delayed at exactly
    // those (held, attempted) points: if the inversion is feasible the threads meet there and the
    // live wait-for cycle (a definitive deadlock) appears; if not, it stays an unconfirmed potential.
    if !pots.is_empty() {
        // only the rarely taken edges of a cycle are delayed: delaying the frequent side would
        // slow the workload so much that the rare path is never reached again
        let counts = ctl.edge_counts();
        let mut pairs: BTreeSet<(String, String)> = BTreeSet::new();
        for p in &pots {
            let nodes: Vec<&str> = p.split(" -> ").collect();
            let edges_of: Vec<(String, String)> = nodes.windows(2).map(|w| (w[0].to_string(), w[1].to_string())).collect();
            let rarest = edges_of.iter().map(|e| counts.get(e).copied().unwrap_or(0)).min().unwrap_or(0);
            for e in edges_of {
                if counts.get(&e).copied().unwrap_or(0) <= rarest.saturating_mul(4).max(20) {
                    pairs.insert(e);
                }
            }
        }
        out.samples.push(json!({"delayed_edges": pairs.iter().map(|(a, b)| format!("{a} -> {b} ({} times in the main rounds)", counts.get(&(a.clone(), b.clone())).copied().unwrap_or(0))).collect::<Vec<_>>()}));
        out.count("potential_cycles_put_to_directed_confirmation", pots.len() as u64);
        ctl.set_suspects(pairs);
        let before = out.violations.len();
        // the usual mixes, and pairs of the operations that take locks outside the writer lock
        // (index creation) with each kind of writer, so that both sides of an inversion are busy
        let mut confirm_mixes: Vec<Vec<usize>> = vec![vec![6, 7], vec![6, 0, 1], vec![6, 4, 5], vec![6, 7, 8, 3]];
        confirm_mixes.extend(mixes.iter().cloned());
        for (i, mix) in confirm_mixes.iter().enumerate() {
            if out.violations.len() > before {
                break;
            }
            stress_with(&ctl, args.seed ^ 0xC0F ^ i as u64, 8, if thorough { 20 } else { 8 }, mix, i < 4, &mut out);
        }
        out.count("pauses_at_suspected_inversion_points", ctl.suspect_pauses());
        if out.violations.len() > before {
            out.count("potential_cycles_confirmed_as_deadlock", 1);
        }
        ctl.set_suspects(BTreeSet::new());
    }
    Ctl::uninstall();
    out.count("lock_order_edges", edges.len() as u64);
    out.count("lock_classes", acq.len() as u64);
    out.count("unconfirmed_potential_cycles", pots.len() as u64);
    out.samples.push(json!({"lock_classes": acq, "order_edges_sample": edges.keys().take(12).map(|(a, b)| format!("{a} -> {b}")).collect::<Vec<_>>(), "unconfirmed_potential_cycles": pots}));
    rep.out = out;
    rep.floor("operations completed", rep.out.evaluations, if thorough { 20_000 } else { 1000 });
    rep.floor("lock classes seen", rep.counter("lock_classes"), 8);
    rep.floor("lock-order edges", rep.counter("lock_order_edges"), 10);
    rep
}
