//! C03: a snapshot shows exactly the transactions committed before it was taken (each completely
//! or not at all) and never changes while commits, compactions and index updates run.

use super::ctl::Ctl;
use super::{db_dump, marker_tx, uni_dump};
use crate::common::model::{Facts, diff_facts};
use crate::common::report::{Args, CaseOut, Report, Violation};
use crate::common::rng::Rng;
use crate::common::sut::ScratchDir;
use crate::common::{diff_signature, facts_diff_json};
use ndb_core::Db;
use serde_json::json;
use std::sync::atomic::{AtomicBool, AtomicU64, Ordering};
use std::sync::{Arc, Mutex};
use std::time::{Duration, Instant};

const COMMIT_POINTS: [&str; 4] = ["commit.after_wal", "commit.after_idmap", "commit.after_node_labels", "commit.after_publish"];
const COMPACT_POINTS: [&str; 7] = [
    "compact.after_segment",
    "compact.after_sink",
    "compact.after_stats",
    "compact.after_manifest",
    "compact.after_roots",
    "compact.between_clear_install",
    "compact.after_install",
];
const READ_POINTS: [&str; 5] = ["snapshot.after_i2e", "read.after_runs", "read.after_segments", "read.after_labels", "read.after_node_labels"];

#[derive(Clone, Copy, Debug, PartialEq)]
enum WriterOp {
    Commit,
    Compact,
}

fn writer_points(op: WriterOp) -> &'static [&'static str] {
    match op {
        WriterOp::Commit => &COMMIT_POINTS,
        WriterOp::Compact => &COMPACT_POINTS,
    }
}

fn setup(dir: &ScratchDir, commits: u64, compact_first: bool) -> Result<Db, String> {
    let db = Db::open(dir.db_base()).map_err(|e| e.to_string())?;
    for k in 0..commits {
        marker_tx(&db, k)?;
        if compact_first && k == commits / 2 {
            db.compact().map_err(|e| e.to_string())?;
        }
    }
    Ok(db)
}

fn viol(kind: &str, point: &str, summary: String, diff: &[(String, String, String)], extra: serde_json::Value) -> Violation {
    // the signature names every category of difference; the detail lists the first few facts
    let shown = &diff[..diff.len().min(10)];
    Violation {
        signature: format!("C03|{kind}:{}|{point}", diff_signature(diff)),
        summary,
        detail: json!({"point": point, "differing_facts": diff.len(), "diff": facts_diff_json(shown, "expected", "observed"), "extra": extra}),
        replay: json!({"engine":"concmon","property":"C03","kind":kind,"point":point}),
    }
}

/// Runs the partner action while the other thread is parked. If the partner does not finish
/// within a short grace period it is waiting for the parked thread (the point lies inside a
/// section the engine protects): the parked thread is released and the partner's result is
/// judged all the same. Returns (result, partner_had_to_wait).
fn run_partner<T: Send>(ctl: &Arc<Ctl>, f: impl FnOnce() -> T + Send) -> (T, bool) {
    std::thread::scope(|sc| {
        let (tx, rx) = std::sync::mpsc::channel();
        sc.spawn(move || {
            let _ = tx.send(f());
        });
        match rx.recv_timeout(Duration::from_millis(120)) {
            Ok(v) => {
                ctl.release();
                (v, false)
            }
            Err(_) => {
                ctl.release();
                (rx.recv().expect("partner thread died"), true)
            }
        }
    })
}

/// Writer parked at `point` inside `op`; the reader takes a fresh snapshot and re-reads an old one.
fn case_writer_parked(ctl: &Arc<Ctl>, op: WriterOp, point: &'static str, commits: u64, compacted: bool, out: &mut CaseOut) {
    let dir = ScratchDir::new("c03");
    let db = match setup(&dir, commits, compacted) {
        Ok(d) => Arc::new(d),
        Err(e) => {
            out.inconclusive(&format!("setup:{e}"));
            return;
        }
    };
    let before = db_dump(&db);
    let old_snap = db.snapshot();
    let old_dump0 = uni_dump(&old_snap);
    if old_dump0 != before {
        out.inconclusive("quiescent-snapshot-differs");
        return;
    }
    let db2 = db.clone();
    let (tx, rx) = std::sync::mpsc::channel();
    let ctl2 = ctl.clone();
    let handle = std::thread::spawn(move || {
        ctl2.arm(point, Some(std::thread::current().id()));
        let _ = tx.send(());
        match op {
            WriterOp::Commit => marker_tx(&db2, commits),
            WriterOp::Compact => db2.compact().map_err(|e| e.to_string()),
        }
    });
    let _ = rx.recv();
    if !ctl.wait_parked(Duration::from_secs(10)) {
        ctl.disarm();
        let _ = handle.join();
        out.inconclusive(&format!("point-not-reached:{point}"));
        return;
    }
    // the writer is parked between two of its publication steps
    let old_dump1 = uni_dump(&old_snap);
    let ((fresh, fresh_dump), waited) = run_partner(ctl, || {
        let fresh = db.snapshot();
        let d = uni_dump(&fresh);
        (fresh, d)
    });
    let wres = handle.join();
    out.evaluations += 1;
    out.count(&format!("parked.{point}"), 1);
    if waited {
        out.count("partner_waited_for_parked_thread", 1);
    }
    out.cell(format!("writer-parked:{point}:compacted={compacted}:reader-{}", if waited { "waited" } else { "ran" }));
    if !matches!(wres, Ok(Ok(()))) {
        out.inconclusive("writer-failed");
        return;
    }
    let after = db_dump(&db);
    let old_dump2 = uni_dump(&old_snap);
    let fresh_dump2 = uni_dump(&fresh);
    // (a) the fresh snapshot is the state before or after the operation, never a mixture
    if fresh_dump != before && fresh_dump != after {
        let d1 = diff_facts(&before, &fresh_dump, usize::MAX);
        let d2 = diff_facts(&after, &fresh_dump, usize::MAX);
        let d = if d1.len() <= d2.len() { d1 } else { d2 };
        out.violations.push(viol(
            "snapshot-shows-partial-operation",
            point,
            format!("a snapshot taken while the writer sat at {point} shows neither the state before nor after the {op:?}"),
            &d,
            json!({"op": format!("{op:?}")}),
        ));
    }
    // (b) stability of both snapshots
    for (name, a, b) in [("old-snapshot-during", &old_dump0, &old_dump1), ("old-snapshot-after", &old_dump0, &old_dump2), ("fresh-snapshot-after", &fresh_dump, &fresh_dump2)] {
        let d = diff_facts(a, b, usize::MAX);
        if !d.is_empty() {
            out.violations.push(viol(
                &format!("snapshot-changed-{name}"),
                point,
                format!("the content of a snapshot changed while/after a concurrent {op:?} (parked at {point})"),
                &d,
                json!({"op": format!("{op:?}")}),
            ));
        }
    }
}

/// Reader parked inside snapshot construction while the writer runs a whole operation.
fn case_reader_parked(ctl: &Arc<Ctl>, op: WriterOp, point: &'static str, commits: u64, compacted: bool, out: &mut CaseOut) {
    let dir = ScratchDir::new("c03r");
    let db = match setup(&dir, commits, compacted) {
        Ok(d) => Arc::new(d),
        Err(e) => {
            out.inconclusive(&format!("setup:{e}"));
            return;
        }
    };
    let before = db_dump(&db);
    let db2 = db.clone();
    let (tx, rx) = std::sync::mpsc::channel();
    let ctl2 = ctl.clone();
    let reader = std::thread::spawn(move || {
        ctl2.arm(point, Some(std::thread::current().id()));
        let _ = tx.send(());
        let snap = db2.snapshot();
        let d1 = uni_dump(&snap);
        (snap, d1)
    });
    let _ = rx.recv();
    if !ctl.wait_parked(Duration::from_secs(10)) {
        ctl.disarm();
        let _ = reader.join();
        out.inconclusive(&format!("point-not-reached:{point}"));
        return;
    }
    let (wres, waited) = run_partner(ctl, || match op {
        WriterOp::Commit => marker_tx(&db, commits),
        WriterOp::Compact => db.compact().map_err(|e| e.to_string()),
    });
    let Ok((snap, d1)) = reader.join() else {
        out.inconclusive("reader-panicked");
        return;
    };
    out.evaluations += 1;
    out.count(&format!("parked.{point}"), 1);
    if waited {
        out.count("partner_waited_for_parked_thread", 1);
    }
    out.cell(format!("reader-parked:{point}:{op:?}:compacted={compacted}:writer-{}", if waited { "waited" } else { "ran" }));
    if wres.is_err() {
        out.inconclusive("writer-failed");
        return;
    }
    let after = db_dump(&db);
    if d1 != before && d1 != after {
        let da = diff_facts(&before, &d1, usize::MAX);
        let db_ = diff_facts(&after, &d1, usize::MAX);
        let d = if da.len() <= db_.len() { da } else { db_ };
        out.violations.push(viol(
            "snapshot-shows-partial-operation",
            point,
            format!("a snapshot whose construction was pre-empted at {point} by a whole {op:?} shows neither the state before nor after it"),
            &d,
            json!({"op": format!("{op:?}")}),
        ));
    }
    let d2 = uni_dump(&snap);
    let d = diff_facts(&d1, &d2, usize::MAX);
    if !d.is_empty() {
        out.violations.push(viol("snapshot-changed-on-reread", point, "re-reading the same snapshot gives a different content".into(), &d, json!({})));
    }
}

fn is_property_fact(key: &str) -> bool {
    let c = crate::common::fact_category(key);
    c == "node-prop" || c == "edge-prop" || c.starts_with("!incoherent")
}

/// An old snapshot must not see what is committed and compacted after it was taken: S = snapshot;
/// commit (new key on an old node, new node); compact; re-read S.
fn case_old_snapshot_across_compaction(commits: u64, compacted: bool, out: &mut CaseOut) {
    let dir = ScratchDir::new("c03o");
    let db = match setup(&dir, commits, compacted) {
        Ok(d) => d,
        Err(e) => {
            out.inconclusive(&format!("setup:{e}"));
            return;
        }
    };
    let snap = db.snapshot();
    let d0 = uni_dump(&snap);
    if marker_tx(&db, commits).is_err() || db.compact().is_err() {
        out.inconclusive("writer-failed");
        return;
    }
    let d1 = uni_dump(&snap);
    out.evaluations += 1;
    out.count("old_snapshot_across_commit_and_compaction", 1);
    out.cell(format!("old-snapshot-across-commit+compact:compacted={compacted}"));
    let df = diff_facts(&d0, &d1, usize::MAX);
    if !df.is_empty() {
        out.violations.push(viol(
            "snapshot-changed-old-snapshot-after",
            "sequential:commit-then-compact",
            "a snapshot shows data of a transaction committed after it was taken, once a compaction has run".into(),
            &df,
            json!({"steps": ["S = snapshot()", "commit (sets a new key on node 0, creates a node)", "compact()", "dump(S) again"]}),
        ));
    }
}

/// Index lookups belong to what a snapshot shows: S = snapshot; commit a node whose indexed
/// property has a new value (and one that shares an old value); optionally compact; the lookups
/// through S must return what they returned before.
fn case_index_lookup_old_snapshot(commits: u64, compact_after: bool, out: &mut CaseOut) {
    let dir = ScratchDir::new("c03x");
    let Ok(db) = Db::open(dir.db_base()) else {
        out.inconclusive("open");
        return;
    };
    if db.create_index("M", "t").is_err() {
        out.inconclusive("create_index");
        return;
    }
    for k in 0..commits {
        if marker_tx(&db, k).is_err() {
            out.inconclusive("setup-commit");
            return;
        }
    }
    let idx = vec![("M".to_string(), "t".to_string())];
    let values: Vec<ndb_core::PropertyValue> = (0..commits as i64 + 3).map(ndb_core::PropertyValue::Int).collect();
    let snap = db.snapshot();
    let before = crate::common::dump::index_facts(&snap, &idx, &values);
    // a new value of the indexed property, and an update that gives an old node a different value
    let later = (|| -> Result<(), String> {
        marker_tx(&db, commits)?;
        let mut txn = db.begin_write();
        txn.set_node_property(0, "t".into(), ndb_core::PropertyValue::Int(commits as i64 + 1)).map_err(|e| e.to_string())?;
        txn.commit().map_err(|e| e.to_string())?;
        if compact_after {
            db.compact().map_err(|e| e.to_string())?;
        }
        Ok(())
    })();
    if later.is_err() {
        out.inconclusive("writer-failed");
        return;
    }
    let after = crate::common::dump::index_facts(&snap, &idx, &values);
    out.evaluations += 1;
    out.count("index_lookups_through_an_old_snapshot", values.len() as u64);
    out.cell(format!("index-lookup-through-old-snapshot:compact={compact_after}"));
    let df = diff_facts(&before, &after, usize::MAX);
    if !df.is_empty() {
        out.violations.push(viol(
            "snapshot-changed-index-lookup",
            if compact_after { "sequential:commit-then-compact" } else { "sequential:commit" },
            "lookup_index through a snapshot returns nodes of transactions committed after the snapshot was taken (or no longer returns what it returned)".into(),
            &df,
            json!({"steps": ["create_index(M, t)", "n marker commits", "S = snapshot(); L0 = S.lookup_index(M, t, v) for v in 0..n+3", "commit a node with t = n; commit t = n+1 on node 0", "L1 = the same lookups through S"]}),
        ));
    }
}

/// Free-running stress: one writer (marker commits, compaction every n), several readers holding
/// snapshots over time. Every dump must equal the content after exactly j commits, with
/// acked-before-call <= j <= started-before-return, and must not change on re-read.
fn stress(ctl: &Arc<Ctl>, seed: u64, secs: u64, readers: usize, out: &mut CaseOut) {
    let dir = ScratchDir::new("c03s");
    let db = match Db::open(dir.db_base()) {
        Ok(d) => Arc::new(d),
        Err(e) => {
            out.inconclusive(&format!("open:{e}"));
            return;
        }
    };
    // states[j] = content after j commits, recorded by the writer in quiescence w.r.t. itself
    let states: Arc<Mutex<Vec<Facts>>> = Arc::new(Mutex::new(vec![db_dump(&db)]));
    let started = Arc::new(AtomicU64::new(0));
    let acked = Arc::new(AtomicU64::new(0));
    let stop = Arc::new(AtomicBool::new(false));
    let cstart = Arc::new(AtomicU64::new(0));
    let cfin = Arc::new(AtomicU64::new(0));
    ctl.noise.store(7, Ordering::Relaxed);
    ctl.lock_monitoring.store(true, Ordering::Relaxed);
    let w = {
        let (db, states, started, acked, stop, cstart, cfin) = (db.clone(), states.clone(), started.clone(), acked.clone(), stop.clone(), cstart.clone(), cfin.clone());
        std::thread::spawn(move || {
            let mut k = 0u64;
            let mut compactions = 0u64;
            while !stop.load(Ordering::Relaxed) && k < 400 {
                started.store(k + 1, Ordering::SeqCst);
                if marker_tx(&db, k).is_err() {
                    break;
                }
                // record the state before acknowledging: no reader can require it earlier
                states.lock().unwrap().push(db_dump(&db));
                acked.store(k + 1, Ordering::SeqCst);
                k += 1;
                if k % 9 == 0 {
                    cstart.fetch_add(1, Ordering::SeqCst);
                    let _ = db.compact();
                    cfin.fetch_add(1, Ordering::SeqCst);
                    compactions += 1;
                }
                if k % 25 == 0 {
                    let _ = db.create_index("M", "t");
                }
            }
            (k, compactions)
        })
    };
    let results: Arc<Mutex<CaseOut>> = Arc::new(Mutex::new(CaseOut::default()));
    let mut rs = Vec::new();
    for r in 0..readers {
        let (db, states, started, acked, stop, results, cstart, cfin) = (db.clone(), states.clone(), started.clone(), acked.clone(), stop.clone(), results.clone(), cstart.clone(), cfin.clone());
        rs.push(std::thread::spawn(move || {
            let mut rng = Rng::derive(seed, r as u64);
            let mut o = CaseOut::default();
            let mut held: Vec<(ndb_core::DbSnapshot, Facts, u64, u64)> = Vec::new();
            while !stop.load(Ordering::Relaxed) {
                let lo = acked.load(Ordering::SeqCst);
                // compactions finished before / started before the snapshot was requested
                let cfin0 = cfin.load(Ordering::SeqCst);
                let cstart0 = cstart.load(Ordering::SeqCst);
                let snap = db.snapshot();
                let hi = started.load(Ordering::SeqCst);
                let d = uni_dump(&snap);
                o.evaluations += 1;
                o.count("snapshots_checked", 1);
                if hi > lo {
                    o.count("snapshots_overlapping_a_commit", 1);
                }
                // membership: wait until the writer has recorded state `hi` (it records before ack;
                // an in-flight commit's state may not be recorded yet)
                let deadline = Instant::now() + Duration::from_secs(5);
                let verdict = loop {
                    let st = states.lock().unwrap();
                    let upper = (hi as usize).min(st.len().saturating_sub(1));
                    let found = (lo as usize..=upper).any(|j| st[j] == d);
                    if found {
                        break Some(true);
                    }
                    if st.len() > hi as usize || Instant::now() > deadline {
                        break if st.len() > hi as usize { Some(false) } else { None };
                    }
                    drop(st);
                    std::thread::sleep(Duration::from_millis(1));
                };
                match verdict {
                    Some(true) => {}
                    None => o.inconclusive("state-not-recorded-in-time"),
                    Some(false) => {
                        let st = states.lock().unwrap();
                        // nearest candidate: fewest structural differences first, then fewest overall
                        let near = (lo as usize..=(hi as usize).min(st.len() - 1))
                            .map(|j| diff_facts(&st[j], &d, usize::MAX))
                            .min_by_key(|x| (x.iter().filter(|(k, _, _)| !is_property_fact(k)).count(), x.len()))
                            .unwrap_or_default();
                        let overlap = cfin0 != cstart.load(Ordering::SeqCst) || cstart0 != cstart.load(Ordering::SeqCst);
                        o.violations.push(viol(
                            "stress-snapshot-is-no-committed-prefix",
                            if overlap { "free-running:compaction-overlapped" } else { "free-running:no-compaction-overlapped" },
                            format!("a snapshot taken between {lo} acknowledged and {hi} started commits equals no committed state in that range"),
                            &near,
                            json!({"lo": lo, "hi": hi}),
                        ));
                    }
                }
                held.push((snap, d, lo, cfin0));
                // re-read held snapshots, drop old ones at random
                if held.len() > 3 || rng.chance(1, 3) {
                    let i = rng.below(held.len());
                    let (s, d0, took, cfin_at_take) = &held[i];
                    let d1 = uni_dump(s);
                    o.count("rereads", 1);
                    if acked.load(Ordering::SeqCst) >= took + 18 {
                        o.count("rereads_spanning_two_compactions", 1);
                    }
                    let df = diff_facts(d0, &d1, usize::MAX);
                    if !df.is_empty() {
                        // did any compaction run (or start) after the snapshot was requested?
                        let overlap = cstart.load(Ordering::SeqCst) > *cfin_at_take;
                        let point = if overlap { "free-running:compaction-overlapped" } else { "free-running:no-compaction-overlapped" };
                        o.violations.push(viol("stress-snapshot-changed", point, "a long-lived snapshot changed its content".into(), &df, json!({"taken_at_commit": took, "now": acked.load(Ordering::SeqCst)})));
                    }
                    if held.len() > 3 {
                        held.remove(i);
                    }
                }
            }
            results.lock().unwrap().merge(o);
        }));
    }
    let t0 = Instant::now();
    while t0.elapsed() < Duration::from_secs(secs) && !w.is_finished() {
        std::thread::sleep(Duration::from_millis(20));
    }
    stop.store(true, Ordering::SeqCst);
    let (commits, compactions) = w.join().unwrap_or((0, 0));
    for r in rs {
        let _ = r.join();
    }
    ctl.noise.store(0, Ordering::Relaxed);
    ctl.lock_monitoring.store(false, Ordering::Relaxed);
    let mut o = std::mem::take(&mut *results.lock().unwrap());
    o.count("stress_commits", commits);
    o.count("stress_compactions", compactions);
    o.cell(format!("stress:readers={readers}"));
    // keep few witnesses per signature
    let mut seen = std::collections::BTreeMap::<String, usize>::new();
    o.violations.retain(|v| {
        let c = seen.entry(v.signature.clone()).or_default();
        *c += 1;
        *c <= 2
    });
    out.merge(o);
}

pub fn main(args: &Args) -> Report {
    let mut rep = Report::new(
        "C03",
        &args.tier,
        args.seed,
        "exploration",
        "systematic: for every schedule point between the publication steps of commit and compaction the writer is parked there while a reader takes a snapshot and re-reads an older one, and for every point inside snapshot construction the reader is parked while a whole commit/compaction runs; the dump must equal the content before or after the operation and must never change on re-read. Stress: one writer (uniquely marked commits, compaction every 9, index creation) and several readers with long-lived snapshots under lock-acquisition noise; every dump must equal the content after j commits with acked-before-call <= j <= started-before-return. A cell is (who is parked, point, operation, storage shape)",
    );
    rep.assume("schedule points sit between the engine's own critical sections, so parking there creates no state ordinary pre-emption could not");
    rep.assume("workload writes are append-only markers (no deletes/overwrites), staying away from the recorded compaction findings");
    let ctl = Ctl::new();
    ctl.install();
    let thorough = args.thorough();
    let mut out = CaseOut::default();
    let reps = if thorough { 12 } else { 3 };
    for rep_i in 0..reps {
        for compacted in [false, true] {
            let commits = 3 + (rep_i as u64 % 4);
            for op in [WriterOp::Commit, WriterOp::Compact] {
                for p in writer_points(op) {
                    case_writer_parked(&ctl, op, p, commits, compacted, &mut out);
                }
                for p in READ_POINTS {
                    case_reader_parked(&ctl, op, p, commits, compacted, &mut out);
                }
            }
        }
    }
    for i in 0..reps {
        for compacted in [false, true] {
            case_old_snapshot_across_compaction(3 + i as u64 % 4, compacted, &mut out);
            case_index_lookup_old_snapshot(2 + i as u64 % 4, compacted, &mut out);
        }
    }
    let secs = args.budget_s(15, 600);
    stress(&ctl, args.seed, secs, if thorough { 8 } else { 4 }, &mut out);
    Ctl::uninstall();
    out.samples.push(json!({"systematic": "writer parked at compact.between_clear_install; reader takes snapshot S and dumps it; S must equal the pre- or post-compaction content"}));
    out.samples.push(json!({"stress": "reader: lo=acked; S=snapshot(); hi=started; dump(S) in {state_lo..state_hi}; later dump(S) again"}));
    let mut seen = std::collections::BTreeMap::<String, usize>::new();
    out.violations.retain(|v| {
        let c = seen.entry(v.signature.clone()).or_default();
        *c += 1;
        *c <= 2
    });
    rep.out = out;
    for p in COMMIT_POINTS.iter().chain(COMPACT_POINTS.iter()).chain(READ_POINTS.iter()) {
        rep.floor(&format!("parked at {p}"), rep.counter(&format!("parked.{p}")), if thorough { 20 } else { 4 });
    }
    rep.floor("stress snapshots checked", rep.counter("snapshots_checked"), if thorough { 800 } else { 100 });
    rep
}
