//! C10: two database handles never both write the same database files; a second open of a
//! database that is open for writing is refused or waits.

use super::marker_tx;
use crate::common::child::{Exit, run_worker};
use crate::common::report::{Args, CaseOut, Report, Violation};
use crate::common::sut::ScratchDir;
use ndb_core::Db;
use serde_json::json;
use std::path::Path;
use std::sync::mpsc;
use std::time::Duration;

#[derive(Debug)]
enum Second {
    Refused(String),
    /// did not return while the first handle was open; returned after it was closed
    Waited,
    /// opened although the first handle was open; .1 = a write on it was acknowledged
    Opened(bool),
    Stuck,
}

/// `vmon C10-worker <base>`: child process that tries to open and write.
pub fn worker(base: &str) {
    match Db::open(Path::new(base)) {
        Ok(db) => {
            println!("opened");
            match marker_tx(&db, 500_000 + std::process::id() as u64) {
                Ok(()) => println!("wrote"),
                Err(e) => println!("write-failed {e}"),
            }
        }
        Err(e) => println!("refused {e}"),
    }
}

fn first_handle_state(db: &Db, state: usize) -> Option<ndb_core::WriteTxn<'_>> {
    match state {
        0 => None,
        1 => {
            let _ = marker_tx(db, 1);
            None
        }
        2 => {
            let _ = marker_tx(db, 1);
            let _ = db.compact();
            None
        }
        _ => {
            let _ = marker_tx(db, 1);
            Some(db.begin_write())
        }
    }
}

const STATES: [&str; 4] = ["just-opened", "after-commit", "after-compaction", "write-transaction-open"];

fn same_process(state: usize, out: &mut CaseOut) {
    let dir = ScratchDir::new("c10");
    let base = dir.db_base();
    let Ok(first) = Db::open(&base) else {
        out.inconclusive("first-open-failed");
        return;
    };
    let pending = first_handle_state(&first, state);
    let (tx, rx) = mpsc::channel();
    let b2 = base.clone();
    let h = std::thread::spawn(move || {
        let r = Db::open(&b2);
        match r {
            Ok(db2) => {
                let _ = tx.send("opened".to_string());
                // an uncontended write on the second handle (the first may hold its own writer gate)
                let wrote = marker_tx(&db2, 2).is_ok();
                let _ = tx.send(format!("wrote {wrote}"));
                drop(db2);
            }
            Err(e) => {
                let _ = tx.send(format!("refused {e}"));
            }
        }
    });
    let verdict = match rx.recv_timeout(Duration::from_secs(5)) {
        Ok(m) if m.starts_with("refused") => Second::Refused(m),
        Ok(_) => {
            let w = rx.recv_timeout(Duration::from_secs(10)).map(|m| m == "wrote true").unwrap_or(false);
            Second::Opened(w)
        }
        Err(_) => {
            // still waiting while the first handle is open: close the first and see if it proceeds
            drop(pending);
            drop(first);
            let _ = h.join();
            out.evaluations += 1;
            out.count("same_process_attempts", 1);
            out.cell(format!("same-process:{}:waited", STATES[state]));
            let _ = Second::Waited;
            return;
        }
    };
    drop(pending);
    // the first handle is still open here
    let first_wrote = marker_tx(&first, 3).is_ok();
    drop(first);
    let _ = h.join();
    out.evaluations += 1;
    out.count("same_process_attempts", 1);
    match verdict {
        Second::Refused(_) => {
            out.cell(format!("same-process:{}:refused", STATES[state]));
            out.count("second_open_refused", 1);
        }
        Second::Opened(second_wrote) => {
            out.cell(format!("same-process:{}:opened", STATES[state]));
            let reopen = Db::open(&base).map(|_| "ok".to_string()).unwrap_or_else(|e| e.to_string());
            out.violations.push(Violation {
                signature: "C10|second-handle-opened-while-first-open|same-process".into(),
                summary: format!("a second Db::open of the same path succeeded while the first handle ({}) was open; writes acknowledged: first={first_wrote} second={second_wrote}", STATES[state]),
                detail: json!({"first_handle_state": STATES[state], "first_wrote": first_wrote, "second_wrote": second_wrote, "reopen_after_both_closed": reopen}),
                replay: json!({"engine":"concmon","property":"C10","kind":"same-process","state":state}),
            });
        }
        Second::Waited | Second::Stuck => {}
    }
}

fn cross_process(state: usize, out: &mut CaseOut) {
    let dir = ScratchDir::new("c10x");
    let base = dir.db_base();
    let Ok(first) = Db::open(&base) else {
        out.inconclusive("first-open-failed");
        return;
    };
    let pending = first_handle_state(&first, state);
    let res = run_worker(&["C10-worker".into(), base.to_string_lossy().to_string()], Duration::from_secs(8), None, &[]);
    drop(pending);
    let first_wrote = marker_tx(&first, 3).is_ok();
    drop(first);
    out.evaluations += 1;
    out.count("cross_process_attempts", 1);
    let opened = res.lines.iter().any(|l| l == "opened");
    let wrote = res.lines.iter().any(|l| l == "wrote");
    if res.exit == Exit::Timeout && !opened {
        out.cell(format!("cross-process:{}:waited", STATES[state]));
        return;
    }
    if opened {
        out.cell(format!("cross-process:{}:opened", STATES[state]));
        let reopen = Db::open(&base).map(|_| "ok".to_string()).unwrap_or_else(|e| e.to_string());
        out.violations.push(Violation {
            signature: "C10|second-handle-opened-while-first-open|cross-process".into(),
            summary: format!("a second process opened the database while this process held it open ({}); writes acknowledged: first={first_wrote} second={wrote}", STATES[state]),
            detail: json!({"first_handle_state": STATES[state], "first_wrote": first_wrote, "second_wrote": wrote, "reopen_after_both_closed": reopen, "child": res.lines}),
            replay: json!({"engine":"concmon","property":"C10","kind":"cross-process","state":state}),
        });
    } else {
        out.cell(format!("cross-process:{}:refused", STATES[state]));
        out.count("second_open_refused", 1);
    }
}

/// After the first handle is gone the database must open again (a lock must not outlive its owner).
fn reopen_after_close(out: &mut CaseOut) {
    let dir = ScratchDir::new("c10r");
    let base = dir.db_base();
    for round in 0..3 {
        match Db::open(&base) {
            Ok(db) => {
                let _ = marker_tx(&db, round);
                if round == 1 {
                    let _ = db.close();
                }
            }
            Err(e) => {
                out.violations.push(Violation {
                    signature: "C10|open-refused-although-no-handle-is-open|same-process".into(),
                    summary: format!("open #{round} failed although the previous handle was closed/dropped: {e}"),
                    detail: json!({"round": round}),
                    replay: json!({"engine":"concmon","property":"C10","kind":"reopen"}),
                });
                return;
            }
        }
    }
    out.evaluations += 1;
    out.count("sequential_reopens_ok", 1);
}

pub fn main(args: &Args) -> Report {
    let mut rep = Report::new(
        "C10",
        &args.tier,
        args.seed,
        "exploration",
        "while a first handle is open (just opened / after a commit / after a compaction / with an open write transaction) a second open of the same path is attempted from another thread and from another process; it must be refused or must wait until the first handle is closed; if it succeeds, both handles are made to write and the result is reported. Sequential open/close/open must keep working. A cell is (same/cross process, first-handle state, outcome)",
    );
    rep.assume("two processes on one host, local files; 'waits' = no return within 5 s while the first handle is open");
    let mut out = CaseOut::default();
    let reps = if args.thorough() { 15 } else { 3 };
    for _ in 0..reps {
        for s in 0..4 {
            same_process(s, &mut out);
            cross_process(s, &mut out);
        }
        reopen_after_close(&mut out);
    }
    out.samples.push(json!({"case": "first=Db::open(p); begin_write(); second thread: Db::open(p) -> must be Err or block"}));
    let mut seen = std::collections::BTreeMap::<String, usize>::new();
    out.violations.retain(|v| {
        let c = seen.entry(v.signature.clone()).or_default();
        *c += 1;
        *c <= 2
    });
    rep.out = out;
    rep.floor("same-process attempts", rep.counter("same_process_attempts"), if args.thorough() { 50 } else { 12 });
    rep.floor("cross-process attempts", rep.counter("cross_process_attempts"), if args.thorough() { 20 } else { 12 });
    rep
}
