//! C10: two database handles never both write the same database files; a second open of a
//! database that is open for writing is refused or waits.

use super::marker_tx;
use crate::common::child::{Exit, run_worker};
use crate::common::report::{Args, CaseOut, Report, Violation};
use crate::common::sut::ScratchDir;
use ndb_core::Db;
use serde_json::json;
use std::path::Path;
use std::sync::mpsc;
use std::time::Duration;

#[derive(Debug)]
enum Second {
    Refused(String),
    /// did not return while the first handle was open; returned after it was closed
    Waited,
    /// opened although the first handle was open; .1 = a write on it was acknowledged
    Opened(bool),
    Stuck,
}

/// `vmon C10-worker <base>`: child process that tries to open and write.
pub fn worker(base: &str) {
    match Db::open(Path::new(base)) {
        Ok(db) => {
            println!("opened");
            match marker_tx(&db, 500_000 + std::process::id() as u64) {
                Ok(()) => println!("wrote"),
                Err(e) => println!("write-failed {e}"),
            }
        }
        Err(e) => println!("refused {e}"),
    }
}

fn first_handle_state(db: &Db, state: usize) -> Option<ndb_core::WriteTxn<'_>> {
    match state {
        0 => None,
        1 => {
            let _ = marker_tx(db, 1);
            None
        }
        2 => {
            let _ = marker_tx(db, 1);
            let _ = db.compact();
            None
        }
        _ => {
            let _ = marker_tx(db, 1);
            Some(db.begin_write())
        }
    }
}

const STATES: [&str; 4] = ["just-opened", "after-commit", "after-compaction", "write-transaction-open"];

fn same_process(state: usize, out: &mut CaseOut) {
    let dir = ScratchDir::new("c10");
    let base = dir.db_base();
    let Ok(first) = Db::open(&base) else {
        out.inconclusive("first-open-failed");
        return;
    };
    let pending = first_handle_state(&first, state);
    let (tx, rx) = mpsc::channel();
    let b2 = base.clone();
    let h = std::thread::spawn(move || {
        let r = Db::open(&b2);
        match r {
            Ok(db2) => {
                let _ = tx.send("opened".to_string());
                // an uncontended write on the second handle (the first may hold its own writer gate)
                let wrote = marker_tx(&db2, 2).is_ok();
                let _ = tx.send(format!("wrote {wrote}"));
                drop(db2);
            }
            Err(e) => {
                let _ = tx.send(format!("refused {e}"));
            }
        }
    });
    let verdict = match rx.recv_timeout(Duration::from_secs(5)) {
        Ok(m) if m.starts_with("refused") => Second::Refused(m),
        Ok(_) => {
            let w = rx.recv_timeout(Duration::from_secs(10)).map(|m| m == "wrote true").unwrap_or(false);
            Second::Opened(w)
        }
        Err(_) => {
            // still waiting while the first handle is open: close the first and see if it proceeds
            drop(pending);
            drop(first);
            let _ = h.join();
            out.evaluations += 1;
            out.count("same_process_attempts", 1);
            out.cell(format!("same-process:{}:waited", STATES[state]));
            let _ = Second::Waited;
            return;
        }
    };
    drop(pending);
    // the first handle is still open here
    let first_wrote = marker_tx(&first, 3).is_ok();
    drop(first);
    let _ = h.join();
    out.evaluations += 1;
    out.count("same_process_attempts", 1);
    match verdict {
        Second::Refused(_) => {
            out.cell(format!("same-process:{}:refused", STATES[state]));
            out.count("second_open_refused", 1);
        }
        Second::Opened(second_wrote) => {
            out.cell(format!("same-process:{}:opened", STATES[state]));
            let reopen = Db::open(&base).map(|_| "ok".to_string()).unwrap_or_else(|e| e.to_string());
            out.violations.push(Violation {
                signature: "C10|second-handle-opened-while-first-open|same-process".into(),
                summary: format!("a second Db::open of the same path succeeded while the first handle ({}) was open; writes acknowledged: first={first_wrote} second={second_wrote}", STATES[state]),
                detail: json!({"first_handle_state": STATES[state], "first_wrote": first_wrote, "second_wrote": second_wrote, "reopen_after_both_closed": reopen}),
                replay: json!({"engine":"concmon","property":"C10","kind":"same-process","state":state}),
            });
        }
        Second::Waited | Second::Stuck => {}
    }
}

fn cross_process(state: usize, out: &mut CaseOut) {
    let dir = ScratchDir::new("c10x");
    let base = dir.db_base();
    let Ok(first) = Db::open(&base) else {
        out.inconclusive("first-open-failed");
        return;
    };
    let pending = first_handle_state(&first, state);
    let res = run_worker(&["C10-worker".into(), base.to_string_lossy().to_string()], Duration::from_secs(8), None, &[]);
    drop(pending);
    let first_wrote = marker_tx(&first, 3).is_ok();
    drop(first);
    out.evaluations += 1;
    out.count("cross_process_attempts", 1);
    let opened = res.lines.iter().any(|l| l == "opened");
    let wrote = res.lines.iter().any(|l| l == "wrote");
    if res.exit == Exit::Timeout && !opened {
        out.cell(format!("cross-process:{}:waited", STATES[state]));
        return;
    }
    if opened {
        out.cell(format!("cross-process:{}:opened", STATES[state]));
        let reopen = Db::open(&base).map(|_| "ok".to_string()).unwrap_or_else(|e| e.to_string());
        out.violations.push(Violation {
            signature: "C10|second-handle-opened-while-first-open|cross-process".into(),
            summary: format!("a second process opened the database while this process held it open ({}); writes acknowledged: first={first_wrote} second={wrote}", STATES[state]),
            detail: json!({"first_handle_state": STATES[state], "first_wrote": first_wrote, "second_wrote": wrote, "reopen_after_both_closed": reopen, "child": res.lines}),
            replay: json!({"engine":"concmon","property":"C10","kind":"cross-process","state":state}),
        });
    } else {
        out.cell(format!("cross-process:{}:refused", STATES[state]));
        out.count("second_open_refused", 1);
    }
}

/// I/O hook that parks the committing thread just before its n-th log append.
struct PauseAtLogAppend {
    target: usize,
    seen: std::sync::atomic::AtomicUsize,
    state: std::sync::Mutex<(bool, bool)>, // (parked, released)
    cv: std::sync::Condvar,
}

impl ndb_core::verif::Hooks for PauseAtLogAppend {
    fn io(&self, ev: &ndb_core::verif::IoEvent<'_>) -> std::io::Result<()> {
        if ev.site.starts_with("wal.append") {
            let n = self.seen.fetch_add(1, std::sync::atomic::Ordering::SeqCst);
            if n == self.target {
                let mut st = self.state.lock().unwrap();
                st.0 = true;
                self.cv.notify_all();
                let deadline = std::time::Instant::now() + Duration::from_secs(20);
                while !st.1 && std::time::Instant::now() < deadline {
                    let (g, _) = self.cv.wait_timeout(st, Duration::from_millis(200)).unwrap();
                    st = g;
                }
            }
        }
        Ok(())
    }
}

fn file_bytes(base: &Path) -> Vec<(String, Vec<u8>)> {
    ["ndb", "wal"].iter().map(|e| (e.to_string(), std::fs::read(base.with_extension(e)).unwrap_or_default())).collect()
}

/// The first handle is in the middle of a commit (some of its log records are appended, CommitTx
/// is not) when a second open is attempted. The attempt must be refused (or wait) and — being
/// refused — must not have written to the files; the first handle's commit, once acknowledged,
/// must be there after everything is closed and the database is opened again.
fn second_open_during_commit(target: usize, out: &mut CaseOut) {
    let dir = ScratchDir::new("c10m");
    let base = dir.db_base();
    let Ok(first) = Db::open(&base) else {
        out.inconclusive("first-open-failed");
        return;
    };
    let _ = marker_tx(&first, 1);
    let first = std::sync::Arc::new(first);
    let hook = std::sync::Arc::new(PauseAtLogAppend { target, seen: Default::default(), state: std::sync::Mutex::new((false, false)), cv: std::sync::Condvar::new() });
    ndb_core::verif::install_global(hook.clone() as std::sync::Arc<dyn ndb_core::verif::Hooks>);
    let f2 = first.clone();
    let writer = std::thread::spawn(move || marker_tx(&f2, 2));
    // wait until the writer is parked inside its commit
    let parked = {
        let mut st = hook.state.lock().unwrap();
        let deadline = std::time::Instant::now() + Duration::from_secs(10);
        while !st.0 && std::time::Instant::now() < deadline {
            let (g, _) = hook.cv.wait_timeout(st, Duration::from_millis(100)).unwrap();
            st = g;
        }
        st.0
    };
    if !parked {
        hook.state.lock().unwrap().1 = true;
        hook.cv.notify_all();
        let _ = writer.join();
        ndb_core::verif::uninstall_global();
        out.inconclusive("writer-did-not-reach-the-pause-point");
        return;
    }
    let before = file_bytes(&base);
    // the second open runs on this thread; the global hook would also see its I/O, which is fine
    // (only the writer's n-th append parks)
    let second = Db::open(&base);
    let refused = second.is_err();
    drop(second);
    let after = file_bytes(&base);
    hook.state.lock().unwrap().1 = true;
    hook.cv.notify_all();
    let acked = matches!(writer.join(), Ok(Ok(())));
    ndb_core::verif::uninstall_global();
    out.evaluations += 1;
    out.count("second_open_during_commit", 1);
    out.cell(format!("during-commit:append#{target}:{}", if refused { "refused" } else { "opened" }));
    if !refused {
        out.violations.push(Violation {
            signature: "C10|second-handle-opened-while-first-open|same-process".into(),
            summary: "a second Db::open succeeded while the first handle was in the middle of a commit".into(),
            detail: json!({"paused_before_log_append": target}),
            replay: json!({"engine":"concmon","property":"C10","kind":"during-commit","append":target}),
        });
        return;
    }
    let changed: Vec<String> = before.iter().zip(&after).filter(|(b, a)| b.1 != a.1).map(|(b, a)| format!("{}: {} -> {} bytes", b.0, b.1.len(), a.1.len())).collect();
    if !changed.is_empty() {
        out.violations.push(Violation {
            signature: "C10|refused-second-open-wrote-to-the-database-files|during-commit".into(),
            summary: format!("a second open that was refused changed the files of the open database: {}", changed.join(", ")),
            detail: json!({"paused_before_log_append": target, "changed": changed}),
            replay: json!({"engine":"concmon","property":"C10","kind":"during-commit","append":target}),
        });
    }
    // whatever the attempt did: an acknowledged commit of the first handle must survive
    let first = match std::sync::Arc::try_unwrap(first) {
        Ok(f) => f,
        Err(_) => {
            out.inconclusive("first-handle-still-shared");
            return;
        }
    };
    let live = super::db_dump(&first);
    drop(first);
    match Db::open(&base) {
        Ok(db) => {
            let again = super::db_dump(&db);
            if acked && live != again {
                let d = crate::common::model::diff_facts(&live, &again, usize::MAX);
                out.violations.push(Violation {
                    signature: format!("C10|acknowledged-commit-lost-after-refused-second-open:{}|during-commit", crate::common::diff_signature(&d)),
                    summary: format!("after a refused second open during a commit, the first handle's acknowledged transaction is not (fully) there after reopen ({} facts differ)", d.len()),
                    detail: json!({"paused_before_log_append": target, "diff": crate::common::facts_diff_json(&d[..d.len().min(10)], "first-handle-before-close", "after-reopen")}),
                    replay: json!({"engine":"concmon","property":"C10","kind":"during-commit","append":target}),
                });
            }
        }
        Err(e) => out.violations.push(Violation {
            signature: "C10|reopen-failed-after-refused-second-open|during-commit".into(),
            summary: format!("the database does not open after both handles are gone: {e}"),
            detail: json!({"paused_before_log_append": target}),
            replay: json!({"engine":"concmon","property":"C10","kind":"during-commit","append":target}),
        }),
    }
}

/// After the first handle is gone the database must open again (a lock must not outlive its owner).
fn reopen_after_close(out: &mut CaseOut) {
    let dir = ScratchDir::new("c10r");
    let base = dir.db_base();
    for round in 0..3 {
        match Db::open(&base) {
            Ok(db) => {
                let _ = marker_tx(&db, round);
                if round == 1 {
                    let _ = db.close();
                }
            }
            Err(e) => {
                out.violations.push(Violation {
                    signature: "C10|open-refused-although-no-handle-is-open|same-process".into(),
                    summary: format!("open #{round} failed although the previous handle was closed/dropped: {e}"),
                    detail: json!({"round": round}),
                    replay: json!({"engine":"concmon","property":"C10","kind":"reopen"}),
                });
                return;
            }
        }
    }
    out.evaluations += 1;
    out.count("sequential_reopens_ok", 1);
}

pub fn main(args: &Args) -> Report {
    let mut rep = Report::new(
        "C10",
        &args.tier,
        args.seed,
        "exploration",
        "while a first handle is open (just opened / after a commit / after a compaction / with an open write transaction) a second open of the same path is attempted from another thread and from another process; it must be refused or must wait until the first handle is closed; if it succeeds, both handles are made to write and the result is reported. Sequential open/close/open must keep working. A cell is (same/cross process, first-handle state, outcome)",
    );
    rep.assume("two processes on one host, local files; 'waits' = no return within 5 s while the first handle is open");
    let mut out = CaseOut::default();
    let reps = if args.thorough() { 40 } else { 3 };
    for _ in 0..reps {
        for s in 0..4 {
            same_process(s, &mut out);
            cross_process(s, &mut out);
        }
        reopen_after_close(&mut out);
    }
    // second open attempted while the first handle is between BeginTx and CommitTx of a commit
    for target in if args.thorough() { vec![1usize, 2, 3, 4, 5, 6, 8, 10, 13, 16, 20] } else { vec![1usize, 3, 6, 10] } {
        second_open_during_commit(target, &mut out);
    }
    out.samples.push(json!({"case": "first=Db::open(p); begin_write(); second thread: Db::open(p) -> must be Err or block"}));
    let mut seen = std::collections::BTreeMap::<String, usize>::new();
    out.violations.retain(|v| {
        let c = seen.entry(v.signature.clone()).or_default();
        *c += 1;
        *c <= 2
    });
    rep.out = out;
    rep.floor("same-process attempts", rep.counter("same_process_attempts"), if args.thorough() { 50 } else { 12 });
    rep.floor("cross-process attempts", rep.counter("cross_process_attempts"), if args.thorough() { 20 } else { 12 });
    rep
}
