//! C09: concurrent auto-commit write statements through the C API behave as if they ran one at a
//! time: read-modify-write increments are never lost and conditional creates create once.

use super::ctl::Ctl;
use crate::common::capi::CDb;
use crate::common::report::{Args, CaseOut, Report, Violation};
use crate::common::sut::ScratchDir;
use serde_json::json;
use std::sync::atomic::{AtomicU64, Ordering};
use std::sync::{Arc, Barrier, Mutex};
use std::time::Duration;

fn counter_value(db: &CDb, k: i64) -> Option<i64> {
    let rows = db.query(&format!("MATCH (c:Ctr {{k: {k}}}) RETURN c.v AS v"), None).ok()?;
    rows.as_array()?.first()?.get("v")?.as_i64()
}

fn count_label(db: &CDb, q: &str) -> Option<i64> {
    let rows = db.query(q, None).ok()?;
    rows.as_array()?.first()?.get("n")?.as_i64()
}

/// Systematic: thread A is parked between taking its snapshot and taking the writer lock while
/// thread B completes a whole increment.
fn case_parked(ctl: &Arc<Ctl>, out: &mut CaseOut) {
    let dir = ScratchDir::new("c09p");
    let Ok(db) = CDb::open(&dir.db_base()) else {
        out.inconclusive("open");
        return;
    };
    let db = Arc::new(db);
    if db.execute_write("CREATE (:Ctr {k: 1, v: 0})", None).is_err() {
        out.inconclusive("setup");
        return;
    }
    let inc = "MATCH (c:Ctr {k: 1}) SET c.v = c.v + 1";
    let (tx, rx) = std::sync::mpsc::channel();
    let (dba, ctla) = (db.clone(), ctl.clone());
    let a = std::thread::spawn(move || {
        ctla.arm("capi.write.before_writer_lock", Some(std::thread::current().id()));
        let _ = tx.send(());
        dba.execute_write(inc, None).is_ok()
    });
    let _ = rx.recv();
    if !ctl.wait_parked(Duration::from_secs(10)) {
        ctl.disarm();
        let _ = a.join();
        out.inconclusive("point-not-reached:capi.write.before_writer_lock");
        return;
    }
    let b_ok = db.execute_write(inc, None).is_ok();
    ctl.release();
    let a_ok = a.join().unwrap_or(false);
    out.evaluations += 1;
    out.count("parked_between_snapshot_and_writer_lock", 1);
    out.cell("systematic:increment-vs-increment");
    let acked = a_ok as i64 + b_ok as i64;
    let v = counter_value(&db, 1);
    if v != Some(acked) {
        out.violations.push(Violation {
            signature: "C09|lost-update|statement-paused-between-snapshot-and-writer-lock".into(),
            summary: format!("{acked} increments were acknowledged but the counter reads {v:?}"),
            detail: json!({"statement": inc, "acknowledged": acked, "final_value": v, "schedule": "A takes its snapshot; B runs a whole increment; A continues"}),
            replay: json!({"engine":"concmon","property":"C09","kind":"parked"}),
        });
    }
}

fn stress(ctl: &Arc<Ctl>, threads: usize, per_thread: usize, counters: i64, maintenance: bool, out: &mut CaseOut) {
    let dir = ScratchDir::new("c09s");
    let Ok(db) = CDb::open(&dir.db_base()) else {
        out.inconclusive("open");
        return;
    };
    let db = Arc::new(db);
    for k in 0..counters {
        if db.execute_write(&format!("CREATE (:Ctr {{k: {k}, v: 0}})"), None).is_err() {
            out.inconclusive("setup");
            return;
        }
    }
    ctl.noise.store(5, Ordering::Relaxed);
    ctl.lock_monitoring.store(true, Ordering::Relaxed);
    let acked: Arc<Vec<AtomicU64>> = Arc::new((0..counters).map(|_| AtomicU64::new(0)).collect());
    let merges_ok = Arc::new(AtomicU64::new(0));
    let ticks_ok = Arc::new(AtomicU64::new(0));
    let intervals: Arc<Mutex<Vec<(u64, u64)>>> = Arc::new(Mutex::new(Vec::new()));
    let clock = Arc::new(AtomicU64::new(0));
    let barrier = Arc::new(Barrier::new(threads));
    let mut hs = Vec::new();
    for t in 0..threads {
        let (db, acked, merges_ok, intervals, clock, barrier) = (db.clone(), acked.clone(), merges_ok.clone(), intervals.clone(), clock.clone(), barrier.clone());
        let ticks_ok = ticks_ok.clone();
        hs.push(std::thread::spawn(move || {
            barrier.wait();
            for i in 0..per_thread {
                let k = ((t + i) as i64) % counters;
                let call = clock.fetch_add(1, Ordering::SeqCst);
                let ok = db.execute_write(&format!("MATCH (c:Ctr {{k: {k}}}) SET c.v = c.v + 1"), None).is_ok();
                let ret = clock.fetch_add(1, Ordering::SeqCst);
                intervals.lock().unwrap().push((call, ret));
                if ok {
                    acked[k as usize].fetch_add(1, Ordering::SeqCst);
                }
                if i % 4 == 0 && db.execute_write(&format!("MERGE (:U {{k: {}}})", i / 4), None).is_ok() {
                    merges_ok.fetch_add(1, Ordering::SeqCst);
                }
                // a write nobody overwrites: every acknowledged one must stay (a counter only shows
                // its last write, so a lost intermediate increment is invisible there)
                if i % 3 == 0 && db.execute_write(&format!("CREATE (:Tick {{t: {t}, i: {i}}})"), None).is_ok() {
                    ticks_ok.fetch_add(1, Ordering::SeqCst);
                }
            }
        }));
    }
    // maintenance on another thread while the writers run: compaction and checkpoint replace the
    // published runs and must not lose a commit that lands while they wait for the writer lock
    let stop = Arc::new(std::sync::atomic::AtomicBool::new(false));
    let maint = if maintenance {
        let (db, stop, clock) = (db.clone(), stop.clone(), clock.clone());
        // maintenance stops before the writers do: the last commits then exist in the log only,
        // and what the reopen below shows of them depends on the log alone
        let until = (2 * threads * per_thread) as u64 * 7 / 10;
        Some(std::thread::spawn(move || {
            let mut n = 0u64;
            while !stop.load(Ordering::SeqCst) && clock.load(Ordering::SeqCst) < until {
                let _ = if n % 3 == 2 { db.checkpoint() } else { db.compact() };
                n += 1;
                std::thread::sleep(Duration::from_micros(300));
            }
            n
        }))
    } else {
        None
    };
    for h in hs {
        let _ = h.join();
    }
    stop.store(true, Ordering::SeqCst);
    if let Some(m) = maint {
        out.count("maintenance_operations_during_writes", m.join().unwrap_or(0));
        out.cell(format!("stress+maintenance:threads={threads}"));
    }
    ctl.noise.store(0, Ordering::Relaxed);
    ctl.lock_monitoring.store(false, Ordering::Relaxed);
    // overlapping pairs actually observed
    let iv = intervals.lock().unwrap().clone();
    let mut overlapping = 0u64;
    let mut sorted = iv.clone();
    sorted.sort();
    for w in sorted.windows(2) {
        if w[1].0 < w[0].1 {
            overlapping += 1;
        }
    }
    out.evaluations += iv.len() as u64;
    out.count("statements", iv.len() as u64);
    out.count("overlapping_statement_pairs", overlapping);
    out.cell(format!("stress:threads={threads}:counters={counters}"));
    for k in 0..counters {
        let want = acked[k as usize].load(Ordering::SeqCst) as i64;
        let got = counter_value(&db, k);
        if got != Some(want) {
            out.violations.push(Violation {
                signature: "C09|lost-update|free-running".into(),
                summary: format!("counter {k}: {want} increments acknowledged, value is {got:?}"),
                detail: json!({"threads": threads, "per_thread": per_thread, "acknowledged": want, "final_value": got}),
                replay: json!({"engine":"concmon","property":"C09","kind":"stress","threads":threads}),
            });
        }
    }
    // what was acknowledged must also be there after the handle is closed and the files are opened
    // again (a commit that waited for the writer lock while a compaction ran must be replayed)
    let values_before: Vec<Option<i64>> = (0..counters).map(|k| counter_value(&db, k)).collect();
    {
        let ticks = count_label(&db, "MATCH (t:Tick) WHERE t.i IS NOT NULL AND t.t IS NOT NULL RETURN count(t) AS n");
        let want = ticks_ok.load(Ordering::SeqCst) as i64;
        if ticks != Some(want) {
            out.violations.push(Violation {
                signature: "C09|acknowledged-write-lost|free-running".into(),
                summary: format!("{want} CREATE (:Tick {{t, i}}) statements were acknowledged; {ticks:?} Tick nodes carry their properties"),
                detail: json!({"threads": threads, "per_thread": per_thread, "maintenance_thread": maintenance}),
                replay: json!({"engine":"concmon","property":"C09","kind":"stress-ticks","threads":threads}),
            });
        }
    }
    let reopen_check = |db: Arc<CDb>, out: &mut CaseOut| -> Option<Arc<CDb>> {
        let inner = Arc::try_unwrap(db).ok()?;
        inner.close().ok()?;
        let again = CDb::open(&dir.db_base()).ok()?;
        for k in 0..counters {
            let got = counter_value(&again, k);
            if got != values_before[k as usize] {
                out.violations.push(Violation {
                    signature: "C09|lost-update-after-reopen|free-running".into(),
                    summary: format!("counter {k}: value {:?} before closing the handle, {got:?} after reopening ({} increments were acknowledged)", values_before[k as usize], acked[k as usize].load(Ordering::SeqCst)),
                    detail: json!({"threads": threads, "per_thread": per_thread, "maintenance_thread": maintenance}),
                    replay: json!({"engine":"concmon","property":"C09","kind":"stress-reopen","threads":threads}),
                });
            }
        }
        let ticks = count_label(&again, "MATCH (t:Tick) WHERE t.i IS NOT NULL AND t.t IS NOT NULL RETURN count(t) AS n");
        let want = ticks_ok.load(Ordering::SeqCst) as i64;
        if ticks != Some(want) {
            out.violations.push(Violation {
                signature: "C09|acknowledged-write-lost-after-reopen|free-running".into(),
                summary: format!("{want} CREATE (:Tick {{t, i}}) statements were acknowledged; after reopening {ticks:?} Tick nodes carry their properties"),
                detail: json!({"threads": threads, "per_thread": per_thread, "maintenance_thread": maintenance}),
                replay: json!({"engine":"concmon","property":"C09","kind":"stress-reopen","threads":threads}),
            });
        }
        out.count("reopen_checks_after_stress", 1);
        Some(Arc::new(again))
    };
    let db = match reopen_check(db, out) {
        Some(d) => d,
        None => {
            out.inconclusive("reopen-after-stress-failed");
            return;
        }
    };
    // unique creates: MERGE (:U {k}) issued concurrently by all threads must leave one node per k
    let distinct = per_thread.div_ceil(4) as i64;
    let n = count_label(&db, "MATCH (u:U) RETURN count(u) AS n");
    if merges_ok.load(Ordering::SeqCst) > 0 && n != Some(distinct) {
        out.violations.push(Violation {
            signature: "C09|duplicate-conditional-create|free-running".into(),
            summary: format!("MERGE (:U {{k}}) for {distinct} distinct k from {threads} threads left {n:?} nodes"),
            detail: json!({"threads": threads, "distinct_keys": distinct, "nodes": n}),
            replay: json!({"engine":"concmon","property":"C09","kind":"stress-merge","threads":threads}),
        });
    }
}

pub fn main(args: &Args) -> Report {
    let mut rep = Report::new(
        "C09",
        &args.tier,
        args.seed,
        "exploration",
        "N threads issue ndb_execute_write('MATCH (c:Ctr {k}) SET c.v = c.v + 1') and MERGE (:U {k}) on few keys, in half of the rounds while another thread keeps calling ndb_compact / ndb_checkpoint; conservation oracle: final counter value == acknowledged increments (every serial order gives that), one node per merged key; systematic part parks one statement between its snapshot and the writer lock while another statement completes; a cell is a schedule family",
    );
    rep.assume("statements that returned an error are excluded from the expected count; all threads are joined before the final read");
    let ctl = Ctl::new();
    ctl.install();
    let mut out = CaseOut::default();
    let thorough = args.thorough();
    for _ in 0..if thorough { 60 } else { 10 } {
        case_parked(&ctl, &mut out);
    }
    let rounds = if thorough { 40 } else { 8 };
    for r in 0..rounds {
        let threads = [2, 4, 8, 16][r % 4];
        stress(&ctl, threads, if thorough { 60 } else { 24 }, 1 + (r as i64 % 3), r % 2 == 1, &mut out);
    }
    Ctl::uninstall();
    out.samples.push(json!({"statement": "MATCH (c:Ctr {k: 1}) SET c.v = c.v + 1", "threads": [2, 4, 8, 16], "oracle": "final c.v == number of Ok results"}));
    let mut seen = std::collections::BTreeMap::<String, usize>::new();
    out.violations.retain(|v| {
        let c = seen.entry(v.signature.clone()).or_default();
        *c += 1;
        *c <= 2
    });
    rep.out = out;
    rep.floor("statements parked between snapshot and writer lock", rep.counter("parked_between_snapshot_and_writer_lock"), if thorough { 50 } else { 8 });
    rep.floor("overlapping statement pairs", rep.counter("overlapping_statement_pairs"), if thorough { 200 } else { 40 });
    rep
}
