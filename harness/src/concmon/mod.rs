//! concmon: monitors over real threads (C03 snapshots, C09 auto-commit writes, C10 second
//! handle, C29 backup, C35 deadlock freedom).

pub mod backup;
pub mod ctl;
pub mod handles;
pub mod locks;
pub mod snapshots;
pub mod writes;

use crate::common::dump::{Universe, dump_snapshot};
use crate::common::model::Facts;
use ndb_core::{Db, DbSnapshot};

pub const KEYS: [&str; 3] = ["k", "p", "t"];
pub const TYPES: [&str; 2] = ["R", "S"];

pub fn uni_dump(snap: &DbSnapshot) -> Facts {
    let keys: Vec<String> = KEYS.iter().map(|s| s.to_string()).collect();
    let types: Vec<String> = TYPES.iter().map(|s| s.to_string()).collect();
    dump_snapshot(snap, &Universe { keys: &keys, types: &types })
}

pub fn db_dump(db: &Db) -> Facts {
    uni_dump(&db.snapshot())
}

/// Transaction number `k` of the concurrent workloads: unambiguous by construction — it creates a
/// fresh node carrying `t = k`, links it to the previous node and bumps a counter on node 0.
pub fn marker_tx(db: &Db, k: u64) -> Result<(), String> {
    let mut txn = db.begin_write();
    let l = txn.get_or_create_label("M").map_err(|e| e.to_string())?;
    let r = txn.get_or_create_rel_type("R").map_err(|e| e.to_string())?;
    let id = txn.create_node(1000 + k, l).map_err(|e| e.to_string())?;
    txn.set_node_property(id, "t".into(), ndb_core::PropertyValue::Int(k as i64)).map_err(|e| e.to_string())?;
    txn.set_node_property(id, "p".into(), ndb_core::PropertyValue::String(format!("v{k}"))).map_err(|e| e.to_string())?;
    if id > 0 {
        txn.create_edge(id - 1, r, id);
        txn.set_edge_property(id - 1, r, id, "k".into(), ndb_core::PropertyValue::Int(k as i64)).map_err(|e| e.to_string())?;
        // a hub: node 0 gets a relationship in every commit, so that after several compactions
        // its relationships are spread over several segments
        if id > 1 {
            txn.create_edge(0, r, id);
        }
        // a fresh key on the first node: the set of keys it carries identifies the commits seen
        txn.set_node_property(0, format!("c{k}"), ndb_core::PropertyValue::Int(k as i64)).map_err(|e| e.to_string())?;
    }
    txn.commit().map_err(|e| e.to_string())
}
