//! C29: restoring a completed backup gives a database that opens and equals the source's content
//! at one moment during the backup, including everything committed before the backup started.

use super::ctl::Ctl;
use super::{db_dump, marker_tx};
use crate::common::dump::panic_msg;
use crate::common::model::{Facts, diff_facts};
use crate::common::report::{Args, CaseOut, Report, Violation};
use crate::common::sut::ScratchDir;
use crate::common::{diff_signature, facts_diff_json};
use ndb_core::{BackupManager, Db};
use serde_json::json;
use std::panic::{AssertUnwindSafe, catch_unwind};
use std::sync::Arc;
use std::time::Duration;

#[derive(Clone, Copy, Debug, PartialEq)]
enum Gap {
    /// nothing happens during the backup
    Quiescent,
    Commits(u64),
    CommitsAndCompaction,
    CompactionOnly,
}

/// Every second restore goes over existing files, the usual reason for restoring: the target path
/// already holds a copy of the source database as it is now (newer, at least as large as the backup).
fn restore_and_dump(backup_dir: &std::path::Path, id: ndb_core::BackupInfo, out_dir: &ScratchDir, source_base: &std::path::Path, out: &mut CaseOut) -> Result<Facts, String> {
    use std::sync::atomic::{AtomicU64, Ordering};
    static ROT: AtomicU64 = AtomicU64::new(0);
    let target = out_dir.path.join("restored.ndb");
    if ROT.fetch_add(1, Ordering::Relaxed) % 2 == 1 {
        let a = std::fs::copy(source_base.with_extension("ndb"), &target).is_ok();
        let b = std::fs::copy(source_base.with_extension("wal"), target.with_extension("wal")).is_ok();
        if a && b {
            out.count("restores_over_existing_database_files", 1);
        } else {
            let _ = std::fs::remove_file(&target);
            let _ = std::fs::remove_file(target.with_extension("wal"));
        }
    }
    BackupManager::restore_from_backup(backup_dir, id.id, &target).map_err(|e| format!("restore failed: {e}"))?;
    let r = catch_unwind(AssertUnwindSafe(|| Db::open(&target)));
    match r {
        Ok(Ok(db)) => Ok(db_dump(&db)),
        Ok(Err(e)) => Err(format!("open of restored backup failed: {e}")),
        Err(p) => Err(format!("open of restored backup panicked: {}", panic_msg(&p))),
    }
}

fn one_case(ctl: &Arc<Ctl>, pre_commits: u64, pre_compact: bool, gap: Gap, out: &mut CaseOut) {
    let dir = ScratchDir::new("c29");
    let base = dir.db_base();
    let Ok(db) = Db::open(&base) else {
        out.inconclusive("open");
        return;
    };
    let db = Arc::new(db);
    let mut states: Vec<Facts> = vec![db_dump(&db)];
    for k in 0..pre_commits {
        if marker_tx(&db, k).is_err() {
            out.inconclusive("setup-commit");
            return;
        }
        states.push(db_dump(&db));
        if pre_compact && k == pre_commits / 2 {
            let _ = db.compact();
        }
    }
    let lo = pre_commits as usize;
    let bdir = dir.path.join("backups");
    let _ = std::fs::create_dir_all(&bdir);
    let info = if gap == Gap::Quiescent {
        match ndb_core::backup(&base, &bdir) {
            Ok(i) => i,
            Err(e) => {
                out.violations.push(Violation {
                    signature: format!("C29|backup-failed|{gap:?}"),
                    summary: format!("backup of an idle open database failed: {e}"),
                    detail: json!({}),
                    replay: json!({}),
                });
                return;
            }
        }
    } else {
        let (tx, rx) = std::sync::mpsc::channel();
        let (ctl2, base2, bdir2) = (ctl.clone(), base.clone(), bdir.clone());
        let h = std::thread::spawn(move || {
            ctl2.arm("backup.between_copies", Some(std::thread::current().id()));
            let _ = tx.send(());
            ndb_core::backup(&base2, &bdir2).map_err(|e| e.to_string())
        });
        let _ = rx.recv();
        if !ctl.wait_parked(Duration::from_secs(10)) {
            ctl.disarm();
            let _ = h.join();
            out.inconclusive("point-not-reached:backup.between_copies");
            return;
        }
        // the page file has been copied, the log has not
        let mut k = pre_commits;
        let n = match gap {
            Gap::Commits(n) => n,
            Gap::CommitsAndCompaction => 2,
            _ => 0,
        };
        for _ in 0..n {
            if marker_tx(&db, k).is_ok() {
                states.push(db_dump(&db));
                k += 1;
            }
        }
        if matches!(gap, Gap::CommitsAndCompaction | Gap::CompactionOnly) {
            let _ = db.compact();
            out.count("compaction_in_gap", 1);
        }
        if n > 0 {
            out.count("commits_in_gap", 1);
        }
        ctl.release();
        match h.join() {
            Ok(Ok(i)) => i,
            Ok(Err(e)) => {
                // a backup that reports failure is not a *completed* backup
                out.count("backup_reported_failure", 1);
                out.inconclusive(&format!("backup-not-completed:{}", crate::storemon::normalise_msg(&e)));
                return;
            }
            Err(_) => {
                out.inconclusive("backup-thread-panicked");
                return;
            }
        }
    };
    let hi = states.len() - 1;
    out.evaluations += 1;
    out.count(&format!("backups.{}", match gap { Gap::Quiescent => "quiescent", Gap::Commits(_) => "commits-in-gap", Gap::CommitsAndCompaction => "commits+compaction-in-gap", Gap::CompactionOnly => "compaction-in-gap" }), 1);
    out.cell(format!("{gap:?}:pre={pre_commits}:compacted={pre_compact}"));
    let rdir = ScratchDir::new("c29r");
    match restore_and_dump(&bdir, info, &rdir, &base, out) {
        Err(e) => out.violations.push(Violation {
            signature: format!("C29|restored-backup-unusable:{}|{}", crate::storemon::normalise_msg(&e), gap_class(gap)),
            summary: e,
            detail: json!({"gap": format!("{gap:?}"), "pre_commits": pre_commits, "pre_compaction": pre_compact}),
            replay: json!({"engine":"concmon","property":"C29","gap":format!("{gap:?}"),"pre":pre_commits,"compacted":pre_compact}),
        }),
        Ok(d) => {
            if !(lo..=hi).any(|j| states[j] == d) {
                let near = (lo..=hi).map(|j| diff_facts(&states[j], &d, 8)).min_by_key(|x| x.len()).unwrap_or_default();
                let older = (0..lo).any(|j| states[j] == d);
                out.violations.push(Violation {
                    signature: format!("C29|{}:{}|{}", if older { "restored-state-misses-commits-from-before-the-backup" } else { "restored-state-is-no-moment-of-the-source" }, diff_signature(&near), gap_class(gap)),
                    summary: format!("restored content equals no source state between commit {lo} (acknowledged before backup) and {hi} (last started during it)"),
                    detail: json!({"gap": format!("{gap:?}"), "lo": lo, "hi": hi, "diff_vs_nearest": facts_diff_json(&near, "source", "restored")}),
                    replay: json!({"engine":"concmon","property":"C29","gap":format!("{gap:?}"),"pre":pre_commits,"compacted":pre_compact}),
                });
            }
        }
    }
}

/// Free-running: a writer commits uniquely marked transactions (compacting every `compact_every`
/// commits, 0 = never) while this thread takes backups back to back; every completed backup is
/// restored and must equal the source after j commits, acked-before-call <= j <= started-before-return.
fn stress(seed: u64, secs: u64, compact_every: u64, out: &mut CaseOut) {
    use std::sync::atomic::{AtomicBool, AtomicU64, Ordering};
    let dir = ScratchDir::new("c29s");
    let base = dir.db_base();
    let Ok(db) = Db::open(&base) else {
        out.inconclusive("open");
        return;
    };
    let db = Arc::new(db);
    let states: Arc<std::sync::Mutex<Vec<Facts>>> = Arc::new(std::sync::Mutex::new(vec![db_dump(&db)]));
    let (started, acked, stop) = (Arc::new(AtomicU64::new(0)), Arc::new(AtomicU64::new(0)), Arc::new(AtomicBool::new(false)));
    let (cstart, cfin) = (Arc::new(AtomicU64::new(0)), Arc::new(AtomicU64::new(0)));
    let w = {
        let (db, states, started, acked, stop, cstart, cfin) = (db.clone(), states.clone(), started.clone(), acked.clone(), stop.clone(), cstart.clone(), cfin.clone());
        std::thread::spawn(move || {
            let mut rng = crate::common::rng::Rng::derive(seed, 77);
            let mut k = 0u64;
            while !stop.load(Ordering::Relaxed) && k < 300 {
                started.store(k + 1, Ordering::SeqCst);
                if marker_tx(&db, k).is_err() {
                    break;
                }
                states.lock().unwrap().push(db_dump(&db));
                acked.store(k + 1, Ordering::SeqCst);
                k += 1;
                if compact_every > 0 && k % compact_every == 0 {
                    cstart.fetch_add(1, Ordering::SeqCst);
                    let _ = db.compact();
                    cfin.fetch_add(1, Ordering::SeqCst);
                }
                if rng.chance(1, 3) {
                    std::thread::sleep(Duration::from_micros(rng.below(800) as u64));
                }
            }
        })
    };
    let t0 = std::time::Instant::now();
    let mut n = 0u64;
    while t0.elapsed() < Duration::from_secs(secs) && !w.is_finished() {
        let bdir = dir.path.join(format!("b{n}"));
        let _ = std::fs::create_dir_all(&bdir);
        n += 1;
        let lo = acked.load(Ordering::SeqCst) as usize;
        let cfin0 = cfin.load(Ordering::SeqCst);
        let res = ndb_core::backup(&base, &bdir);
        let hi = started.load(Ordering::SeqCst) as usize;
        let overlapped = cstart.load(Ordering::SeqCst) > cfin0;
        let info = match res {
            Ok(i) => i,
            Err(e) => {
                out.count("backup_reported_failure", 1);
                out.inconclusive(&format!("backup-not-completed:{}", crate::storemon::normalise_msg(&e.to_string())));
                continue;
            }
        };
        out.evaluations += 1;
        out.count("backups.free-running", 1);
        if hi > lo {
            out.count("backups.free-running.commit-overlapped", 1);
        }
        if overlapped {
            out.count("backups.free-running.compaction-overlapped", 1);
        }
        let class = if overlapped { "free-running:compaction-overlapped" } else { "free-running:no-compaction-overlapped" };
        out.cell(format!("{class}:commits-overlapped={}", hi > lo));
        let rdir = ScratchDir::new("c29sr");
        match restore_and_dump(&bdir, info, &rdir, &base, out) {
            Err(e) => out.violations.push(Violation {
                signature: format!("C29|restored-backup-unusable:{}|{class}", crate::storemon::normalise_msg(&e)),
                summary: e,
                detail: json!({"lo": lo, "hi": hi, "compact_every": compact_every}),
                replay: json!({"engine":"concmon","property":"C29","kind":"stress","compact_every":compact_every}),
            }),
            Ok(d) => {
                // the writer records a state before acknowledging it; wait for `hi` to be recorded
                let deadline = std::time::Instant::now() + Duration::from_secs(5);
                while states.lock().unwrap().len() <= hi && std::time::Instant::now() < deadline && !w.is_finished() {
                    std::thread::sleep(Duration::from_millis(1));
                }
                let st = states.lock().unwrap();
                let top = hi.min(st.len() - 1);
                if !(lo..=top).any(|j| st[j] == d) {
                    let near = (lo..=top).map(|j| diff_facts(&st[j], &d, usize::MAX)).min_by_key(|x| x.len()).unwrap_or_default();
                    let older = (0..lo).any(|j| st[j] == d);
                    let shown = &near[..near.len().min(10)];
                    out.violations.push(Violation {
                        signature: format!("C29|{}:{}|{class}", if older { "restored-state-misses-commits-from-before-the-backup" } else { "restored-state-is-no-moment-of-the-source" }, diff_signature(&near)),
                        summary: format!("restored content equals no source state between commit {lo} (acknowledged before backup) and {hi} (last started during it)"),
                        detail: json!({"lo": lo, "hi": hi, "diff_vs_nearest": facts_diff_json(shown, "source", "restored")}),
                        replay: json!({"engine":"concmon","property":"C29","kind":"stress","compact_every":compact_every}),
                    });
                }
            }
        }
        let _ = std::fs::remove_dir_all(&bdir);
    }
    stop.store(true, Ordering::SeqCst);
    let _ = w.join();
}

fn gap_class(g: Gap) -> &'static str {
    match g {
        Gap::Quiescent => "quiescent",
        Gap::Commits(_) => "commits-between-page-file-copy-and-log-copy",
        Gap::CommitsAndCompaction | Gap::CompactionOnly => "compaction-between-page-file-copy-and-log-copy",
    }
}

pub fn main(args: &Args) -> Report {
    let mut rep = Report::new(
        "C29",
        &args.tier,
        args.seed,
        "exploration",
        "backups of an open database: quiescent, and with the backup thread parked between the page-file copy and the log copy while the writer commits uniquely marked transactions and/or compacts; the completed backup is restored, opened and dumped; the dump must equal the source content after j commits with acknowledged-before-backup <= j <= started-before-return. A cell is (what ran in the gap, history shape)",
    );
    rep.assume("a backup call that returns an error is not a completed backup and is counted as inconclusive, not judged");
    let ctl = Ctl::new();
    ctl.install();
    let mut out = CaseOut::default();
    let reps = if args.thorough() { 80 } else { 4 };
    for r in 0..reps {
        for pre_compact in [false, true] {
            let pre = 2 + ((r as u64 + args.seed) % 5);
            for gap in [Gap::Quiescent, Gap::Commits(1), Gap::Commits(3), Gap::CommitsAndCompaction, Gap::CompactionOnly] {
                one_case(&ctl, pre, pre_compact, gap, &mut out);
            }
        }
    }
    Ctl::uninstall();
    let secs = args.budget_s(6, 240);
    stress(args.seed, secs, 0, &mut out);
    stress(args.seed + 1, secs, 7, &mut out);
    out.samples.push(json!({"case": "free-running: writer commits markers (compaction every 7) while backups run back to back; each restored backup must equal a source state between acked-before-call and started-before-return"}));
    out.samples.push(json!({"case": "3 commits; backup thread copies g.ndb, parks; writer commits #4,#5 and compacts; backup copies g.wal; restore; open; dump in {state3,state4,state5}"}));
    let mut seen = std::collections::BTreeMap::<String, usize>::new();
    out.violations.retain(|v| {
        let c = seen.entry(v.signature.clone()).or_default();
        *c += 1;
        *c <= 2
    });
    rep.out = out;
    rep.floor("quiescent backups", rep.counter("backups.quiescent"), if args.thorough() { 40 } else { 6 });
    rep.floor("free-running backups", rep.counter("backups.free-running"), if args.thorough() { 80 } else { 10 });
    rep.floor("backups with commits in the gap", rep.counter("backups.commits-in-gap") + rep.counter("backups.commits+compaction-in-gap"), if args.thorough() { 100 } else { 12 });
    rep
}
