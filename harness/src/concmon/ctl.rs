//! Schedule controller and lock monitor (process-global `verif::Hooks`).
//!
//! * `sched(point)`: a thread reaching an *armed* point parks until released, so that a partner
//!   action can run a whole operation at exactly that place. All points sit between the engine's
//!   own critical sections.
//! * `lock(event)`: maintains, per thread, the set of held locks and the lock it is waiting for;
//!   accumulates the lock-order graph (class level) and detects real wait-for cycles.

use ndb_core::verif::{Hooks, LockEvent, LockMode, LockPhase};
use std::collections::{BTreeMap, BTreeSet, HashMap};
use std::sync::atomic::{AtomicBool, AtomicU64, Ordering};
use std::sync::{Arc, Condvar, Mutex};
use std::thread::ThreadId;
use std::time::{Duration, Instant};

#[derive(Default)]
struct SchedState {
    /// armed point -> optional thread filter
    armed: Option<(String, Option<ThreadId>)>,
    parked: bool,
    release: bool,
    /// how often each point was passed (armed or not)
    passes: BTreeMap<&'static str, u64>,
}

#[derive(Clone, Debug)]
pub struct Held {
    pub lock_id: usize,
    pub class: String,
    pub mode: LockMode,
}

#[derive(Default)]
struct LockState {
    held: HashMap<ThreadId, Vec<Held>>,
    waiting: HashMap<ThreadId, (usize, String, LockMode)>,
    /// class-level order edges: (held class+mode, attempted class+mode) -> common held set
    edges: BTreeMap<(String, String), BTreeSet<String>>,
    acquisitions: BTreeMap<String, u64>,
    cycles_seen: Vec<String>,
    /// how often each order edge was taken
    edge_counts: BTreeMap<(String, String), u64>,
}

pub struct Ctl {
    sched: Mutex<SchedState>,
    cv: Condvar,
    locks: Mutex<LockState>,
    pub lock_monitoring: AtomicBool,
    /// random pre-acquisition noise: 0 = off, otherwise sleep with probability 1/n
    pub noise: AtomicU64,
    noise_ctr: AtomicU64,
    /// directed confirmation of a potential lock-order cycle: a thread that holds the first class
    /// of one of these (held, attempted) pairs and attempts the second is delayed before the
    /// attempt, so that the other side of the cycle can get to the same point
    suspects: Mutex<BTreeSet<(String, String)>>,
    suspect_pauses: AtomicU64,
}

fn class_name(ev: &LockEvent) -> String {
    let f = ev.class.file().rsplit('/').next().unwrap_or("?");
    format!("{}:{}", f, ev.class.line())
}

fn mode_tag(m: LockMode) -> &'static str {
    match m {
        LockMode::Mutex => "m",
        LockMode::Read => "r",
        LockMode::Write => "w",
    }
}

impl Ctl {
    pub fn new() -> Arc<Ctl> {
        Arc::new(Ctl {
            sched: Mutex::new(SchedState::default()),
            cv: Condvar::new(),
            locks: Mutex::new(LockState::default()),
            lock_monitoring: AtomicBool::new(false),
            noise: AtomicU64::new(0),
            noise_ctr: AtomicU64::new(0),
            suspects: Mutex::new(BTreeSet::new()),
            suspect_pauses: AtomicU64::new(0),
        })
    }

    pub fn install(self: &Arc<Ctl>) {
        ndb_core::verif::install_global(self.clone() as Arc<dyn Hooks>);
    }

    pub fn uninstall() {
        ndb_core::verif::uninstall_global();
    }

    /// Arm a point: the next thread (optionally a specific one) reaching it parks.
    pub fn arm(&self, point: &str, thread: Option<ThreadId>) {
        let mut s = self.sched.lock().unwrap();
        s.armed = Some((point.to_string(), thread));
        s.parked = false;
        s.release = false;
    }

    pub fn disarm(&self) {
        let mut s = self.sched.lock().unwrap();
        s.armed = None;
        s.release = true;
        self.cv.notify_all();
    }

    /// Wait until some thread is parked at the armed point.
    pub fn wait_parked(&self, timeout: Duration) -> bool {
        let deadline = Instant::now() + timeout;
        let mut s = self.sched.lock().unwrap();
        while !s.parked {
            let now = Instant::now();
            if now >= deadline {
                return false;
            }
            let (g, _) = self.cv.wait_timeout(s, deadline - now).unwrap();
            s = g;
        }
        true
    }

    pub fn release(&self) {
        let mut s = self.sched.lock().unwrap();
        s.release = true;
        s.armed = None;
        self.cv.notify_all();
    }

    pub fn passes(&self) -> BTreeMap<&'static str, u64> {
        self.sched.lock().unwrap().passes.clone()
    }

    pub fn edges(&self) -> BTreeMap<(String, String), BTreeSet<String>> {
        self.locks.lock().unwrap().edges.clone()
    }

    pub fn edge_counts(&self) -> BTreeMap<(String, String), u64> {
        self.locks.lock().unwrap().edge_counts.clone()
    }

    pub fn acquisitions(&self) -> BTreeMap<String, u64> {
        self.locks.lock().unwrap().acquisitions.clone()
    }

    pub fn set_suspects(&self, pairs: BTreeSet<(String, String)>) {
        *self.suspects.lock().unwrap() = pairs;
        self.suspect_pauses.store(0, Ordering::Relaxed);
    }

    pub fn suspect_pauses(&self) -> u64 {
        self.suspect_pauses.load(Ordering::Relaxed)
    }

    pub fn cycles_seen(&self) -> Vec<String> {
        self.locks.lock().unwrap().cycles_seen.clone()
    }

    /// Is there a cycle in the live wait-for graph right now? Returns a description.
    pub fn live_wait_cycle(&self) -> Option<String> {
        let st = self.locks.lock().unwrap();
        Self::find_wait_cycle(&st)
    }

    fn find_wait_cycle(st: &LockState) -> Option<String> {
        // thread T waits for lock L; L is held by threads H (in a conflicting mode) -> T -> H
        let holders = |lock_id: usize, want: LockMode, me: ThreadId| -> Vec<ThreadId> {
            st.held
                .iter()
                .filter(|(t, hs)| **t != me && hs.iter().any(|h| h.lock_id == lock_id && !(h.mode == LockMode::Read && want == LockMode::Read)))
                .map(|(t, _)| *t)
                .collect()
        };
        for (start, _) in st.waiting.iter() {
            // DFS
            let mut stack = vec![(*start, vec![*start])];
            let mut visited: BTreeSet<String> = BTreeSet::new();
            while let Some((t, path)) = stack.pop() {
                let Some((lid, cls, mode)) = st.waiting.get(&t) else { continue };
                for h in holders(*lid, *mode, t) {
                    if h == *start {
                        let mut desc = Vec::new();
                        for p in &path {
                            if let Some((_, c, m)) = st.waiting.get(p) {
                                let held: Vec<String> = st.held.get(p).map(|v| v.iter().map(|x| format!("{}({})", x.class, mode_tag(x.mode))).collect()).unwrap_or_default();
                                desc.push(format!("thread holds [{}] waits {}({})", held.join(","), c, mode_tag(*m)));
                            }
                        }
                        let _ = cls;
                        return Some(desc.join(" -> "));
                    }
                    let key = format!("{h:?}");
                    if visited.insert(key) {
                        let mut np = path.clone();
                        np.push(h);
                        stack.push((h, np));
                    }
                }
            }
        }
        None
    }
}

impl Hooks for Ctl {
    fn sched(&self, point: &'static str) {
        let mut s = self.sched.lock().unwrap();
        *s.passes.entry(point).or_default() += 1;
        let me = std::thread::current().id();
        let hit = match &s.armed {
            Some((p, t)) => p == point && t.map(|x| x == me).unwrap_or(true),
            None => false,
        };
        if !hit {
            return;
        }
        s.parked = true;
        s.armed = None; // one thread only
        self.cv.notify_all();
        let deadline = Instant::now() + Duration::from_secs(30);
        while !s.release {
            let now = Instant::now();
            if now >= deadline {
                break; // watchdog: never hold a thread forever
            }
            let (g, _) = self.cv.wait_timeout(s, deadline - now).unwrap();
            s = g;
        }
        s.parked = false;
    }

    fn lock(&self, ev: &LockEvent) {
        if !self.lock_monitoring.load(Ordering::Relaxed) {
            return;
        }
        let me = std::thread::current().id();
        let cls = class_name(ev);
        match ev.phase {
            LockPhase::Attempt => {
                let n = self.noise.load(Ordering::Relaxed);
                let mut pause: Option<(String, String)> = None;
                {
                    let mut st = self.locks.lock().unwrap();
                    let held: Vec<Held> = st.held.get(&me).cloned().unwrap_or_default();
                    let held_names: BTreeSet<String> = held.iter().map(|h| format!("{}({})", h.class, mode_tag(h.mode))).collect();
                    let to = format!("{}({})", cls, mode_tag(ev.mode));
                    {
                        let sus = self.suspects.lock().unwrap();
                        if !sus.is_empty()
                            && let Some(f) = held_names.iter().find(|f| sus.contains(&((*f).clone(), to.clone())))
                        {
                            pause = Some((f.clone(), to.clone()));
                        }
                    }
                    for h in &held {
                        let from = format!("{}({})", h.class, mode_tag(h.mode));
                        let others: BTreeSet<String> = held_names.iter().filter(|x| **x != from).cloned().collect();
                        *st.edge_counts.entry((from.clone(), to.clone())).or_default() += 1;
                        st.edges
                            .entry((from, to.clone()))
                            .and_modify(|common| *common = common.intersection(&others).cloned().collect())
                            .or_insert(others);
                    }
                    st.waiting.insert(me, (ev.lock_id, cls.clone(), ev.mode));
                    if let Some(c) = Self::find_wait_cycle(&st)
                        && st.cycles_seen.len() < 8
                    {
                        st.cycles_seen.push(c);
                    }
                }
                if let Some((_from, _to)) = pause
                    && self.suspect_pauses.fetch_add(1, Ordering::Relaxed) < 200
                {
                    // Holding the first lock of a suspected inversion on its rarely taken side:
                    // stay here long enough for a thread on the frequently taken side to lock what
                    // this one wants next and to start waiting for what this one holds. If the
                    // inversion is feasible the two then block each other for good and the
                    // wait-for monitor sees the cycle.
                    std::thread::sleep(Duration::from_millis(400));
                    if std::env::var("VERIF_DEBUG_LOCKS").is_ok() {
                        let st = self.locks.lock().unwrap();
                        eprintln!("after pause: me={me:?} held={:?}", st.held.get(&me).map(|v| v.iter().map(|h| format!("{}#{}", h.class, h.lock_id)).collect::<Vec<_>>()));
                        for (t, w) in &st.waiting {
                            eprintln!("   waiting {t:?} -> {}#{} holding {:?}", w.1, w.0, st.held.get(t).map(|v| v.iter().map(|h| format!("{}#{}", h.class, h.lock_id)).collect::<Vec<_>>()));
                        }
                    }
                } else if n > 0 && self.noise_ctr.fetch_add(1, Ordering::Relaxed) % n == 0 {
                    std::thread::sleep(Duration::from_micros(200));
                }
            }
            LockPhase::Acquired => {
                let mut st = self.locks.lock().unwrap();
                st.waiting.remove(&me);
                st.held.entry(me).or_default().push(Held { lock_id: ev.lock_id, class: cls.clone(), mode: ev.mode });
                *st.acquisitions.entry(cls).or_default() += 1;
            }
            LockPhase::Released => {
                let mut st = self.locks.lock().unwrap();
                if let Some(v) = st.held.get_mut(&me)
                    && let Some(pos) = v.iter().rposition(|h| h.lock_id == ev.lock_id && h.mode == ev.mode)
                {
                    v.remove(pos);
                }
            }
        }
    }
}
