//! vmon: runtime monitors for nervusdb. One binary, one sub-command per property check.
//! Usage: vmon <PROPERTY-ID> [--seed N] [--tier quick|thorough] [--out FILE] [--replay FILE]

mod common;
mod concmon;
mod crashmon;
mod cyphermon;
mod robust;
mod storemon;
mod structmon;

#[global_allocator]
static GLOBAL: robust::alloc::Counting = robust::alloc::Counting;

use common::report::{Args, Report};

fn main() {
    let argv: Vec<String> = std::env::args().skip(1).collect();
    if argv.is_empty() {
        eprintln!("usage: vmon <property-id> [--seed N] [--tier T] [--out FILE] [--replay FILE]");
        std::process::exit(2);
    }
    let id = argv[0].clone();
    // worker modes (child processes of a monitor)
    if id == "C25-worker" {
        robust::codec::worker(&argv[1], &argv[2]);
        return;
    }
    if id == "C16-worker" {
        robust::query::worker(&argv[1], &argv[2]);
        return;
    }
    if id == "C34-worker" {
        cyphermon::capi_parity::worker(&argv[1..]);
        return;
    }
    if id == "C34-miri" {
        cyphermon::capi_parity::miri_script();
        return;
    }
    if id == "C10-worker" {
        concmon::handles::worker(&argv[1]);
        return;
    }
    if id == "probe" {
        // vmon probe "<cypher>" ["<setup cypher>" ...]: run on a scratch database, print rows
        let dir = common::sut::ScratchDir::new("probe");
        let db = ndb_core::Db::open(dir.db_base()).expect("open");
        let p = ndb_core::query::Params::new();
        for setup in &argv[2..] {
            println!("setup {setup}: {:?}", common::cypher::run_write(&db, setup, &p).map(|(r, n)| (common::cypher::canon_rows(&r, true), n)));
        }
        match common::cypher::run_read(&db, &argv[1], &p, true) {
            Ok(rows) => {
                for r in common::cypher::canon_rows(&rows, true) {
                    println!("{r}");
                }
            }
            Err(e) => println!("ERR {e}"),
        }
        return;
    }
    if id == "probe-c" {
        // vmon probe-c "<cypher>": run through the C API (ndb_query, then ndb_execute_write)
        let dir = common::sut::ScratchDir::new("probec");
        let db = common::capi::CDb::open(&dir.db_base()).expect("open");
        println!("query: {:?}", db.query(&argv[1], None));
        println!("write: {:?}", db.execute_write(&argv[1], None));
        return;
    }
    if id == "probe-limit" {
        cyphermon::limits::probe(&argv[1], argv[2].parse().unwrap());
        return;
    }
    if id == "crash-show" {
        crashmon::show(argv[1].parse().unwrap(), argv[2].parse().unwrap());
        return;
    }
    let args = Args::parse(&argv[1..]);
    // keep panics of the system under test out of the terminal; they are observations
    std::panic::set_hook(Box::new(|_| {}));
    let rep: Report = match id.as_str() {
        "C01" => crashmon::main("C01", &args),
        "C02" => crashmon::main("C02", &args),
        "C08" => crashmon::faults::main(&args),
        "C17" => crashmon::tails::main(&args),
        "C03" => concmon::snapshots::main(&args),
        "C09" => concmon::writes::main(&args),
        "C10" => concmon::handles::main(&args),
        "C29" => concmon::backup::main(&args),
        "C35" => concmon::locks::main(&args),
        "C04" => storemon::main(storemon::Kind::C04, &args),
        "C05" => storemon::main(storemon::Kind::C05, &args),
        "C06" => storemon::main(storemon::Kind::C06, &args),
        "C07" => storemon::main(storemon::Kind::C07, &args),
        "C18" => storemon::pages::main(&args),
        "C28" => storemon::vacuum::main(&args),
        "C30" => storemon::bulk::main(&args),
        "C31" => storemon::vector::main(&args),
        "C32" => storemon::ids::main(&args),
        "C11" => cyphermon::read::main(&args),
        "C12" => cyphermon::updates_gen::main(&args),
        "C13" => cyphermon::stmts::main_c13(&args),
        "C14" => cyphermon::stmts::main_c14(&args),
        "C24" => cyphermon::stmts::main_c24(&args),
        "C15" => cyphermon::index::main(&args),
        "C19" => cyphermon::tlp::main(&args),
        "C20" => cyphermon::order::main(&args),
        "C21" => cyphermon::aggr::main(&args),
        "C22" => cyphermon::errors::main(&args),
        "C23" => cyphermon::laws::main(&args),
        "C33" => cyphermon::limits::main(&args),
        "C34" => cyphermon::capi_parity::main(&args),
        "C16" => robust::query::main(&args),
        "C25" => robust::codec::main(&args),
        "C26" => structmon::btree::main(&args),
        "C27" => structmon::keys::main(&args),
        other => {
            eprintln!("unknown check {other}");
            std::process::exit(2);
        }
    };
    rep.write(&args.out);
    common::sut::cleanup_scratch_root();
}
