//! Small deterministic PRNG (splitmix64 seeding + xoshiro256**). No external crates.

#[derive(Clone, Debug)]
pub struct Rng {
    s: [u64; 4],
}

fn splitmix(x: &mut u64) -> u64 {
    *x = x.wrapping_add(0x9E37_79B9_7F4A_7C15);
    let mut z = *x;
    z = (z ^ (z >> 30)).wrapping_mul(0xBF58_476D_1CE4_E5B9);
    z = (z ^ (z >> 27)).wrapping_mul(0x94D0_49BB_1331_11EB);
    z ^ (z >> 31)
}

impl Rng {
    pub fn new(seed: u64) -> Self {
        let mut x = seed ^ 0xA076_1D64_78BD_642F;
        let s = [
            splitmix(&mut x),
            splitmix(&mut x),
            splitmix(&mut x),
            splitmix(&mut x),
        ];
        Rng { s }
    }

    /// Derive an independent stream for case `k` of a run.
    pub fn derive(seed: u64, k: u64) -> Self {
        Rng::new(seed.wrapping_mul(0x9E37_79B9_7F4A_7C15) ^ k.wrapping_mul(0xD6E8_FEB8_6659_FD93) ^ k)
    }

    pub fn next_u64(&mut self) -> u64 {
        let r = self.s[1].wrapping_mul(5).rotate_left(7).wrapping_mul(9);
        let t = self.s[1] << 17;
        self.s[2] ^= self.s[0];
        self.s[3] ^= self.s[1];
        self.s[1] ^= self.s[2];
        self.s[0] ^= self.s[3];
        self.s[2] ^= t;
        self.s[3] = self.s[3].rotate_left(45);
        r
    }

    /// Uniform in [0, n). n must be > 0.
    pub fn below(&mut self, n: usize) -> usize {
        debug_assert!(n > 0);
        (self.next_u64() % (n as u64)) as usize
    }

    /// Uniform in [lo, hi] inclusive.
    pub fn range(&mut self, lo: i64, hi: i64) -> i64 {
        debug_assert!(lo <= hi);
        let span = (hi as i128 - lo as i128 + 1) as u128;
        let r = (self.next_u64() as u128) % span;
        (lo as i128 + r as i128) as i64
    }

    pub fn chance(&mut self, num: u32, den: u32) -> bool {
        (self.next_u64() % den as u64) < num as u64
    }

    pub fn pick<'a, T>(&mut self, xs: &'a [T]) -> &'a T {
        &xs[self.below(xs.len())]
    }

    pub fn f64_unit(&mut self) -> f64 {
        (self.next_u64() >> 11) as f64 / (1u64 << 53) as f64
    }

    pub fn shuffle<T>(&mut self, xs: &mut [T]) {
        for i in (1..xs.len()).rev() {
            let j = self.below(i + 1);
            xs.swap(i, j);
        }
    }

    /// Weighted choice: returns index into weights.
    pub fn weighted(&mut self, weights: &[u32]) -> usize {
        let total: u64 = weights.iter().map(|w| *w as u64).sum();
        let mut r = self.next_u64() % total.max(1);
        for (i, w) in weights.iter().enumerate() {
            if r < *w as u64 {
                return i;
            }
            r -= *w as u64;
        }
        weights.len() - 1
    }

    pub fn bytes_upto(&mut self, n: usize) -> Vec<u8> {
        let k = self.below(n.max(1));
        self.bytes(k)
    }

    pub fn bytes(&mut self, n: usize) -> Vec<u8> {
        let mut v = Vec::with_capacity(n);
        while v.len() < n {
            let x = self.next_u64().to_le_bytes();
            let take = (n - v.len()).min(8);
            v.extend_from_slice(&x[..take]);
        }
        v
    }
}
