//! Worker sub-processes: anything that may abort the process (stack overflow, allocation
//! failure, double panic) runs in a child of this binary; the parent interprets how it ended.

use std::io::{BufRead, BufReader, Read};
use std::os::unix::process::{CommandExt, ExitStatusExt};
use std::process::{Command, Stdio};
use std::time::{Duration, Instant};

#[derive(Debug, Clone, PartialEq)]
pub enum Exit {
    Ok,
    Code(i32),
    Signal(i32),
    Timeout,
}

pub struct ChildOut {
    pub exit: Exit,
    pub lines: Vec<String>,
    pub stderr_tail: String,
    pub wall: Duration,
}

pub fn signal_name(s: i32) -> &'static str {
    match s {
        6 => "SIGABRT",
        11 => "SIGSEGV",
        7 => "SIGBUS",
        9 => "SIGKILL",
        4 => "SIGILL",
        8 => "SIGFPE",
        _ => "signal",
    }
}

/// Run `vmon <args...>` as a child. `rlimit_as` bounds the address space (bytes).
pub fn run_worker(args: &[String], timeout: Duration, rlimit_as: Option<u64>, env: &[(&str, String)]) -> ChildOut {
    let exe = std::env::current_exe().expect("current_exe");
    let mut cmd = Command::new(exe);
    cmd.env("RUST_BACKTRACE", "0");
    cmd.args(args).stdin(Stdio::null()).stdout(Stdio::piped()).stderr(Stdio::piped());
    for (k, v) in env {
        cmd.env(k, v);
    }
    if let Some(lim) = rlimit_as {
        unsafe {
            cmd.pre_exec(move || {
                let r = libc::rlimit { rlim_cur: lim, rlim_max: lim };
                libc::setrlimit(libc::RLIMIT_AS, &r);
                // no core dumps
                let z = libc::rlimit { rlim_cur: 0, rlim_max: 0 };
                libc::setrlimit(libc::RLIMIT_CORE, &z);
                Ok(())
            });
        }
    } else {
        unsafe {
            cmd.pre_exec(|| {
                let z = libc::rlimit { rlim_cur: 0, rlim_max: 0 };
                libc::setrlimit(libc::RLIMIT_CORE, &z);
                Ok(())
            });
        }
    }
    let t0 = Instant::now();
    let mut child = cmd.spawn().expect("spawn worker");
    let stdout = child.stdout.take().unwrap();
    let mut stderr = child.stderr.take().unwrap();
    let reader = std::thread::spawn(move || {
        let mut lines = Vec::new();
        for l in BufReader::new(stdout).lines() {
            match l {
                Ok(l) => lines.push(l),
                Err(_) => break,
            }
        }
        lines
    });
    let err_reader = std::thread::spawn(move || {
        let mut s = Vec::new();
        let _ = stderr.read_to_end(&mut s);
        let s = String::from_utf8_lossy(&s).to_string();
        let n = s.len();
        s[n.saturating_sub(2000)..].to_string()
    });
    let mut exit = Exit::Timeout;
    loop {
        match child.try_wait() {
            Ok(Some(st)) => {
                exit = if st.success() {
                    Exit::Ok
                } else if let Some(sig) = st.signal() {
                    Exit::Signal(sig)
                } else {
                    Exit::Code(st.code().unwrap_or(-1))
                };
                break;
            }
            Ok(None) => {
                if t0.elapsed() > timeout {
                    let _ = child.kill();
                    let _ = child.wait();
                    break;
                }
                std::thread::sleep(Duration::from_millis(5));
            }
            Err(_) => break,
        }
    }
    let lines = reader.join().unwrap_or_default();
    let stderr_tail = err_reader.join().unwrap_or_default();
    ChildOut { exit, lines, stderr_tail, wall: t0.elapsed() }
}

/// Batch file format: u32 count, then per input u32 len + bytes.
pub fn write_batch(path: &std::path::Path, inputs: &[Vec<u8>]) {
    let mut buf = Vec::new();
    buf.extend_from_slice(&(inputs.len() as u32).to_le_bytes());
    for i in inputs {
        buf.extend_from_slice(&(i.len() as u32).to_le_bytes());
        buf.extend_from_slice(i);
    }
    std::fs::write(path, buf).expect("write batch");
}

pub fn read_batch(path: &std::path::Path) -> Vec<Vec<u8>> {
    let b = std::fs::read(path).expect("read batch");
    let mut out = Vec::new();
    let n = u32::from_le_bytes(b[0..4].try_into().unwrap()) as usize;
    let mut p = 4;
    for _ in 0..n {
        let l = u32::from_le_bytes(b[p..p + 4].try_into().unwrap()) as usize;
        p += 4;
        out.push(b[p..p + l].to_vec());
        p += l;
    }
    out
}
