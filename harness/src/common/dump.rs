//! Dump: the logical content of a database read only through public read interfaces, rendered
//! as the same flat fact map the model renders. Incoherence between two read interfaces that must
//! agree (single-property vs whole-map reads, typed vs untyped neighbour lists, outgoing vs
//! incoming) is reported as `!incoherent/...` facts, which never match a model.

use super::model::Facts;
use super::value::canon;
use ndb_core::{Db, DbSnapshot, GraphSnapshot};
use std::collections::{BTreeMap, BTreeSet};
use std::panic::{AssertUnwindSafe, catch_unwind};

pub struct Universe<'a> {
    pub keys: &'a [String],
    pub types: &'a [String],
}

fn label_names(snap: &DbSnapshot, ids: &[u32]) -> Vec<String> {
    let mut out = BTreeSet::new();
    for id in ids {
        if *id == u32::MAX {
            continue;
        }
        match snap.resolve_label_name(*id) {
            Some(n) => {
                out.insert(n);
            }
            None => {
                out.insert(format!("?label#{id}"));
            }
        }
    }
    out.into_iter().collect()
}

pub fn dump_snapshot(snap: &DbSnapshot, uni: &Universe<'_>) -> Facts {
    match catch_unwind(AssertUnwindSafe(|| dump_snapshot_inner(snap, uni))) {
        Ok(f) => f,
        Err(p) => {
            let msg = panic_msg(&p);
            let mut f = Facts::new();
            f.insert("!panic/read".into(), msg);
            f
        }
    }
}

pub fn panic_msg(p: &Box<dyn std::any::Any + Send>) -> String {
    if let Some(s) = p.downcast_ref::<&str>() {
        s.to_string()
    } else if let Some(s) = p.downcast_ref::<String>() {
        s.clone()
    } else {
        "panic (non-string payload)".to_string()
    }
}

fn dump_snapshot_inner(snap: &DbSnapshot, uni: &Universe<'_>) -> Facts {
    let mut f = Facts::new();
    let live: Vec<u32> = snap.nodes().collect();
    let live_set: BTreeSet<u32> = live.iter().copied().collect();
    if live_set.len() != live.len() {
        f.insert("!incoherent/nodes/duplicates".into(), format!("{live:?}"));
    }
    // Total number of ids ever assigned: highest id for which resolve_external answers.
    let mut total = live.iter().copied().max().map(|m| m + 1).unwrap_or(0);
    while snap.resolve_external(total).is_some() {
        total += 1;
    }
    f.insert("count/nodes".into(), total.to_string());
    for i in 0..total {
        if !live_set.contains(&i) {
            f.insert(format!("dead/{i}"), "1".into());
            if !snap.is_tombstoned_node(i) {
                f.insert(format!("!incoherent/dead/{i}"), "not in nodes() but not tombstoned".into());
            }
        } else if snap.is_tombstoned_node(i) {
            f.insert(format!("!incoherent/live/{i}"), "in nodes() but tombstoned".into());
        }
    }

    let mut out_edges: BTreeMap<(u32, String, u32), u32> = BTreeMap::new();
    let mut in_edges: BTreeMap<(u32, String, u32), u32> = BTreeMap::new();
    let mut type_ids: BTreeMap<String, u32> = BTreeMap::new();
    for t in uni.types {
        if let Some(id) = snap.resolve_rel_type_id(t) {
            type_ids.insert(t.clone(), id);
        }
    }
    let type_name = |id: u32| -> String {
        snap.resolve_rel_type_name(id)
            .unwrap_or_else(|| format!("?type#{id}"))
    };

    for &i in &live {
        match snap.resolve_external(i) {
            Some(e) => {
                f.insert(format!("n/{i}/ext"), e.to_string());
            }
            None => {
                f.insert(format!("n/{i}/ext"), "<none>".into());
            }
        }
        let labels = snap.resolve_node_labels(i).unwrap_or_default();
        f.insert(format!("n/{i}/labels"), label_names(snap, &labels).join(","));

        // whole-map read
        let map = snap.node_properties(i).unwrap_or_default();
        for (k, v) in &map {
            f.insert(format!("n/{i}/p/{k}"), canon(v));
        }
        // single-property reads must agree with the map
        let mut keys: BTreeSet<&str> = map.keys().map(|s| s.as_str()).collect();
        for k in uni.keys {
            keys.insert(k.as_str());
        }
        for k in keys {
            let single = snap.node_property(i, k).map(|v| canon(&v));
            let from_map = map.get(k).map(canon);
            if single != from_map {
                f.insert(
                    format!("!incoherent/n/{i}/p/{k}"),
                    format!("node_property={single:?} node_properties={from_map:?}"),
                );
            }
        }

        // outgoing
        let mut untyped: BTreeMap<(u32, u32, u32), u32> = BTreeMap::new();
        for e in snap.neighbors(i, None) {
            if e.src != i {
                f.insert(format!("!incoherent/o/{i}/src"), format!("{e:?}"));
            }
            *untyped.entry((e.src, e.rel, e.dst)).or_default() += 1;
            *out_edges.entry((e.src, type_name(e.rel), e.dst)).or_default() += 1;
        }
        for (t, id) in &type_ids {
            let mut typed: BTreeMap<(u32, u32, u32), u32> = BTreeMap::new();
            for e in snap.neighbors(i, Some(*id)) {
                *typed.entry((e.src, e.rel, e.dst)).or_default() += 1;
            }
            let expect: BTreeMap<(u32, u32, u32), u32> = untyped
                .iter()
                .filter(|(k, _)| k.1 == *id)
                .map(|(k, v)| (*k, *v))
                .collect();
            if typed != expect {
                f.insert(
                    format!("!incoherent/o/{i}/{t}"),
                    format!("typed={typed:?} filtered_untyped={expect:?}"),
                );
            }
        }
        // incoming
        let mut untyped_in: BTreeMap<(u32, u32, u32), u32> = BTreeMap::new();
        for e in snap.incoming_neighbors(i, None) {
            if e.dst != i {
                f.insert(format!("!incoherent/i/{i}/dst"), format!("{e:?}"));
            }
            *untyped_in.entry((e.src, e.rel, e.dst)).or_default() += 1;
            *in_edges.entry((e.src, type_name(e.rel), e.dst)).or_default() += 1;
        }
        for (t, id) in &type_ids {
            let mut typed: BTreeMap<(u32, u32, u32), u32> = BTreeMap::new();
            for e in snap.incoming_neighbors(i, Some(*id)) {
                *typed.entry((e.src, e.rel, e.dst)).or_default() += 1;
            }
            let expect: BTreeMap<(u32, u32, u32), u32> = untyped_in
                .iter()
                .filter(|(k, _)| k.1 == *id)
                .map(|(k, v)| (*k, *v))
                .collect();
            if typed != expect {
                f.insert(
                    format!("!incoherent/i/{i}/{t}"),
                    format!("typed={typed:?} filtered_untyped={expect:?}"),
                );
            }
        }
    }

    for ((s, t, d), c) in &out_edges {
        f.insert(format!("o/{s}/{t}/{d}"), c.to_string());
        if !live_set.contains(d) {
            f.insert(format!("!dangling/o/{s}/{t}/{d}"), "dst not a live node".into());
        }
    }
    for ((s, t, d), c) in &in_edges {
        f.insert(format!("i/{d}/{t}/{s}"), c.to_string());
        if !live_set.contains(s) {
            f.insert(format!("!dangling/i/{d}/{t}/{s}"), "src not a live node".into());
        }
    }

    // relationship properties, for every distinct visible relationship key
    let mut seen: BTreeSet<(u32, u32, u32)> = BTreeSet::new();
    for &i in &live {
        for e in snap.neighbors(i, None) {
            if !seen.insert((e.src, e.rel, e.dst)) {
                continue;
            }
            let t = type_name(e.rel);
            let map = snap.edge_properties(e).unwrap_or_default();
            for (k, v) in &map {
                f.insert(format!("e/{}/{}/{}/p/{}", e.src, t, e.dst, k), canon(v));
            }
            let mut keys: BTreeSet<&str> = map.keys().map(|s| s.as_str()).collect();
            for k in uni.keys {
                keys.insert(k.as_str());
            }
            for k in keys {
                let single = snap.edge_property(e, k).map(|v| canon(&v));
                let from_map = map.get(k).map(canon);
                if single != from_map {
                    f.insert(
                        format!("!incoherent/e/{}/{}/{}/p/{}", e.src, t, e.dst, k),
                        format!("edge_property={single:?} edge_properties={from_map:?}"),
                    );
                }
            }
        }
    }
    f
}

pub fn dump_db(db: &Db, uni: &Universe<'_>) -> Facts {
    let snap = match catch_unwind(AssertUnwindSafe(|| db.snapshot())) {
        Ok(s) => s,
        Err(p) => {
            let mut f = Facts::new();
            f.insert("!panic/snapshot".into(), panic_msg(&p));
            return f;
        }
    };
    dump_snapshot(&snap, uni)
}

/// Index view: for every (label, field) index the harness created and every candidate value,
/// what `lookup_index` returns (sorted ids). Absent = `None`.
pub fn index_facts(
    snap: &DbSnapshot,
    indexes: &[(String, String)],
    values: &[nervusdb_api::PropertyValue],
) -> Facts {
    let mut f = Facts::new();
    for (label, field) in indexes {
        for v in values {
            let r = catch_unwind(AssertUnwindSafe(|| snap.lookup_index(label, field, v)));
            match r {
                Ok(Some(mut ids)) => {
                    ids.sort();
                    f.insert(
                        format!("x/{label}/{field}/{}", canon(v)),
                        ids.iter().map(|i| i.to_string()).collect::<Vec<_>>().join(","),
                    );
                }
                Ok(None) => {}
                Err(p) => {
                    f.insert(format!("!panic/index/{label}/{field}"), panic_msg(&p));
                }
            }
        }
    }
    f
}
