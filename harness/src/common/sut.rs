//! Drives the real database with the operations of a history.

use super::dump::{Universe, dump_db, panic_msg};
use super::model::{Facts, Op, W};
use ndb_core::query::WriteableGraph;
use ndb_core::{Db, WriteTxn};
use std::panic::{AssertUnwindSafe, catch_unwind};
use std::path::{Path, PathBuf};
use std::sync::atomic::{AtomicU64, Ordering};

static DIR_SEQ: AtomicU64 = AtomicU64::new(0);

/// Root for scratch databases: tmpfs when available (the crash checks never rely on the real
/// file system's durability), otherwise $TMPDIR.
pub fn scratch_root() -> PathBuf {
    let base = if Path::new("/dev/shm").is_dir() {
        PathBuf::from("/dev/shm")
    } else {
        std::env::temp_dir()
    };
    base.join(format!("nvdb-verif-{}", std::process::id()))
}

pub struct ScratchDir {
    pub path: PathBuf,
}

impl ScratchDir {
    pub fn new(tag: &str) -> Self {
        let n = DIR_SEQ.fetch_add(1, Ordering::Relaxed);
        let path = scratch_root().join(format!("{tag}-{n}"));
        let _ = std::fs::remove_dir_all(&path);
        std::fs::create_dir_all(&path).expect("create scratch dir");
        ScratchDir { path }
    }
    pub fn db_base(&self) -> PathBuf {
        self.path.join("g")
    }
}

impl Drop for ScratchDir {
    fn drop(&mut self) {
        let _ = std::fs::remove_dir_all(&self.path);
    }
}

pub fn cleanup_scratch_root() {
    let _ = std::fs::remove_dir_all(scratch_root());
}

pub struct Sut {
    pub db: Option<Db>,
    pub base: PathBuf,
}

#[derive(Debug, Clone)]
pub enum StepError {
    Err(String),
    Panic(String),
}

impl std::fmt::Display for StepError {
    fn fmt(&self, f: &mut std::fmt::Formatter<'_>) -> std::fmt::Result {
        match self {
            StepError::Err(e) => write!(f, "error: {e}"),
            StepError::Panic(e) => write!(f, "panic: {e}"),
        }
    }
}

pub fn guard<T>(f: impl FnOnce() -> Result<T, String>) -> Result<T, StepError> {
    match catch_unwind(AssertUnwindSafe(f)) {
        Ok(Ok(v)) => Ok(v),
        Ok(Err(e)) => Err(StepError::Err(e)),
        Err(p) => Err(StepError::Panic(panic_msg(&p))),
    }
}

pub fn apply_writes(txn: &mut WriteTxn<'_>, writes: &[W]) -> Result<(), String> {
    for w in writes {
        apply_write(txn, w)?;
    }
    Ok(())
}

pub fn apply_write(txn: &mut WriteTxn<'_>, w: &W) -> Result<(), String> {
    let es = |e: ndb_core::Error| e.to_string();
    let qs = |e: ndb_core::query::Error| e.to_string();
    match w {
        W::CreateNode { ext, labels } => {
            let first = match labels.first() {
                Some(l) => txn.get_or_create_label(l).map_err(es)?,
                None => u32::MAX,
            };
            let id = txn.create_node(*ext, first).map_err(es)?;
            for l in labels.iter().skip(1) {
                let lid = txn.get_or_create_label(l).map_err(es)?;
                WriteableGraph::add_node_label(txn, id, lid).map_err(qs)?;
            }
        }
        W::AddLabel { node, label } => {
            let lid = txn.get_or_create_label(label).map_err(es)?;
            WriteableGraph::add_node_label(txn, *node, lid).map_err(qs)?;
        }
        W::RemoveLabel { node, label } => {
            let lid = txn.get_or_create_label(label).map_err(es)?;
            WriteableGraph::remove_node_label(txn, *node, lid).map_err(qs)?;
        }
        W::CreateEdge { src, typ, dst } => {
            let t = txn.get_or_create_rel_type(typ).map_err(es)?;
            txn.create_edge(*src, t, *dst);
        }
        W::DeleteEdge { src, typ, dst } => {
            let t = txn.get_or_create_rel_type(typ).map_err(es)?;
            txn.tombstone_edge(*src, t, *dst);
        }
        W::DeleteNode { node } => txn.tombstone_node(*node),
        W::SetNodeProp { node, key, val } => {
            txn.set_node_property(*node, key.clone(), val.clone()).map_err(es)?;
        }
        W::RemoveNodeProp { node, key } => {
            txn.remove_node_property(*node, key).map_err(es)?;
        }
        W::SetEdgeProp { src, typ, dst, key, val } => {
            let t = txn.get_or_create_rel_type(typ).map_err(es)?;
            txn.set_edge_property(*src, t, *dst, key.clone(), val.clone())
                .map_err(es)?;
        }
        W::RemoveEdgeProp { src, typ, dst, key } => {
            let t = txn.get_or_create_rel_type(typ).map_err(es)?;
            txn.remove_edge_property(*src, t, *dst, key).map_err(es)?;
        }
        W::SetVector { node, vec } => {
            txn.set_vector(*node, vec.clone()).map_err(es)?;
        }
    }
    Ok(())
}

impl Sut {
    pub fn open(base: &Path) -> Result<Sut, StepError> {
        let b = base.to_path_buf();
        let db = guard(|| Db::open(&b).map_err(|e| e.to_string()))?;
        Ok(Sut {
            db: Some(db),
            base: base.to_path_buf(),
        })
    }

    pub fn db(&self) -> &Db {
        self.db.as_ref().expect("db open")
    }

    pub fn apply(&mut self, op: &Op) -> Result<(), StepError> {
        match op {
            Op::Tx { writes, commit } => {
                let db = self.db();
                guard(|| {
                    let mut txn = db.begin_write();
                    apply_writes(&mut txn, writes)?;
                    if *commit {
                        txn.commit().map_err(|e| e.to_string())
                    } else if writes.len() % 3 == 1
                        && let Some(node) = {
                            use ndb_core::GraphSnapshot;
                            db.snapshot().nodes().next()
                        }
                    {
                        // a transaction that ends with a FAILED commit: one more write carries a
                        // value nested deeper than the log accepts, so commit() must return Err
                        let mut deep = nervusdb_api::PropertyValue::Int(1);
                        for _ in 0..1100 {
                            deep = nervusdb_api::PropertyValue::List(vec![deep]);
                        }
                        txn.set_node_property(node, "poison".into(), deep).map_err(|e| e.to_string())?;
                        match txn.commit() {
                            Err(_) => Ok(()),
                            Ok(()) => Err("a commit carrying an over-deep value succeeded (harness expected it to fail)".into()),
                        }
                    } else {
                        drop(txn);
                        Ok(())
                    }
                })
            }
            Op::Compact => {
                let db = self.db();
                guard(|| db.compact().map_err(|e| e.to_string()))
            }
            Op::Checkpoint => {
                let db = self.db();
                guard(|| db.checkpoint().map_err(|e| e.to_string()))
            }
            Op::CreateIndex { label, field } => {
                let db = self.db();
                guard(|| db.create_index(label, field).map_err(|e| e.to_string()))
            }
            Op::Reopen { close } => {
                let db = self.db.take().expect("db open");
                if *close {
                    guard(|| db.close().map_err(|e| e.to_string()))?;
                } else {
                    drop(db);
                }
                let b = self.base.clone();
                let db = guard(|| Db::open(&b).map_err(|e| e.to_string()))?;
                self.db = Some(db);
                Ok(())
            }
        }
    }

    pub fn dump(&self, uni: &Universe<'_>) -> Facts {
        dump_db(self.db(), uni)
    }
}
