//! Running Cypher against the real engine through the Rust API, with canonical row rendering.

use ndb_core::Db;
use ndb_core::query::{Params, Row, Value, prepare};
use std::panic::{AssertUnwindSafe, catch_unwind};

use super::dump::panic_msg;

#[derive(Debug, Clone, PartialEq)]
pub enum QErr {
    /// prepare() refused the text
    Compile(String),
    /// an error surfaced while rows were pulled / the statement executed
    Runtime(String),
    /// commit of an auto-commit statement failed
    Commit(String),
    Panic(String),
}

impl std::fmt::Display for QErr {
    fn fmt(&self, f: &mut std::fmt::Formatter<'_>) -> std::fmt::Result {
        match self {
            QErr::Compile(m) => write!(f, "compile: {m}"),
            QErr::Runtime(m) => write!(f, "runtime: {m}"),
            QErr::Commit(m) => write!(f, "commit: {m}"),
            QErr::Panic(m) => write!(f, "panic: {m}"),
        }
    }
}

pub fn f64_canon(x: f64) -> String {
    if x.is_nan() {
        "f:NaN".into()
    } else {
        format!("f:{:016x}", x.to_bits())
    }
}

/// Canonical, type-tagged rendering. Nodes and relationships are rendered by identity only
/// (`deep == false`) or with labels/type and properties (`deep == true`).
pub fn canon_value(v: &Value, deep: bool) -> String {
    match v {
        Value::Null => "null".into(),
        Value::Bool(b) => format!("b:{b}"),
        Value::Int(i) => format!("i:{i}"),
        Value::Float(x) => f64_canon(*x),
        Value::String(s) => format!("s:{s:?}"),
        Value::DateTime(t) => format!("dt:{t}"),
        Value::Blob(b) => format!("blob:{}", b.iter().map(|x| format!("{x:02x}")).collect::<String>()),
        Value::List(xs) => format!("[{}]", xs.iter().map(|x| canon_value(x, deep)).collect::<Vec<_>>().join(",")),
        Value::Map(m) => format!("{{{}}}", m.iter().map(|(k, x)| format!("{k:?}:{}", canon_value(x, deep))).collect::<Vec<_>>().join(",")),
        Value::NodeId(id) => format!("n#{id}"),
        Value::ExternalId(e) => format!("ext#{e}"),
        Value::EdgeKey(e) => format!("r#{}-{}-{}", e.src, e.rel, e.dst),
        Value::Node(n) => {
            if deep {
                let mut labels = n.labels.clone();
                labels.sort();
                format!(
                    "n#{}:{}{{{}}}",
                    n.id,
                    labels.join(":"),
                    n.properties.iter().map(|(k, x)| format!("{k:?}:{}", canon_value(x, deep))).collect::<Vec<_>>().join(",")
                )
            } else {
                format!("n#{}", n.id)
            }
        }
        Value::Relationship(r) => {
            if deep {
                format!(
                    "r#{}-[{}]-{}{{{}}}",
                    r.key.src,
                    r.rel_type,
                    r.key.dst,
                    r.properties.iter().map(|(k, x)| format!("{k:?}:{}", canon_value(x, deep))).collect::<Vec<_>>().join(",")
                )
            } else {
                format!("r#{}-[{}]-{}", r.key.src, r.rel_type, r.key.dst)
            }
        }
        Value::Path(p) => format!("path(n={:?},e={})", p.nodes, p.edges.iter().map(|e| format!("{}-{}-{}", e.src, e.rel, e.dst)).collect::<Vec<_>>().join("|")),
        Value::ReifiedPath(p) => format!(
            "path(n={:?},e={})",
            p.nodes.iter().map(|n| n.id).collect::<Vec<_>>(),
            p.relationships.iter().map(|r| format!("{}-[{}]-{}", r.key.src, r.rel_type, r.key.dst)).collect::<Vec<_>>().join("|")
        ),
    }
}

pub type Rows = Vec<Vec<(String, Value)>>;

/// Rows as canonical strings, one string per row (columns in projection order).
pub fn canon_rows(rows: &Rows, deep: bool) -> Vec<String> {
    rows.iter().map(|r| r.iter().map(|(_, v)| canon_value(v, deep)).collect::<Vec<_>>().join(" | ")).collect()
}

pub fn sorted(mut v: Vec<String>) -> Vec<String> {
    v.sort();
    v
}

fn reify_row(row: &Row, snap: &ndb_core::DbSnapshot, reify: bool) -> Result<Vec<(String, Value)>, String> {
    let mut out = Vec::with_capacity(row.columns().len());
    for (k, v) in row.columns().iter().cloned() {
        let v = if reify { v.reify(snap).map_err(|e| e.to_string())? } else { v };
        out.push((k, v));
    }
    Ok(out)
}

/// Read query through prepare + execute_streaming on a fresh snapshot.
pub fn run_read(db: &Db, q: &str, params: &Params, reify: bool) -> Result<Rows, QErr> {
    let r = catch_unwind(AssertUnwindSafe(|| {
        let prepared = prepare(q).map_err(|e| QErr::Compile(e.to_string()))?;
        let snap = db.snapshot();
        let mut out = Vec::new();
        for row in prepared.execute_streaming(&snap, params) {
            let row = row.map_err(|e| QErr::Runtime(e.to_string()))?;
            out.push(reify_row(&row, &snap, reify).map_err(QErr::Runtime)?);
        }
        Ok(out)
    }));
    match r {
        Ok(x) => x,
        Err(p) => Err(QErr::Panic(panic_msg(&p))),
    }
}

/// Auto-commit statement through prepare + execute_mixed + commit (what `ndb_execute_write` does).
/// Returns (rows as name->value maps in column-name order, reported change count).
pub fn run_write(db: &Db, q: &str, params: &Params) -> Result<(Rows, u32), QErr> {
    let r = catch_unwind(AssertUnwindSafe(|| {
        let prepared = prepare(q).map_err(|e| QErr::Compile(e.to_string()))?;
        let mut txn = db.begin_write();
        let snap = db.snapshot();
        let (rows, n) = prepared.execute_mixed(&snap, &mut txn, params).map_err(|e| QErr::Runtime(e.to_string()))?;
        txn.commit().map_err(|e| QErr::Commit(e.to_string()))?;
        let rows: Rows = rows
            .into_iter()
            .map(|m| {
                let mut v: Vec<(String, Value)> = m.into_iter().collect();
                v.sort_by(|a, b| a.0.cmp(&b.0));
                v
            })
            .collect();
        Ok((rows, n))
    }));
    match r {
        Ok(x) => x,
        Err(p) => Err(QErr::Panic(panic_msg(&p))),
    }
}

/// Cypher view of the whole graph, as facts (`q/...`) comparable between two databases.
pub fn cypher_view(db: &Db) -> super::model::Facts {
    let mut f = super::model::Facts::new();
    let p = Params::new();
    let qs = [
        ("nodes", "MATCH (n) RETURN id(n) AS i, labels(n) AS l, properties(n) AS p"),
        ("out", "MATCH (a)-[r]->(b) RETURN id(a) AS a, type(r) AS t, id(b) AS b, properties(r) AS p"),
        ("in", "MATCH (b)<-[r]-(a) RETURN id(a) AS a, type(r) AS t, id(b) AS b, properties(r) AS p"),
        ("count", "MATCH (n) RETURN count(n) AS c"),
        ("undirected", "MATCH (a)-[r]-(b) RETURN id(a) AS a, type(r) AS t, id(b) AS b"),
    ];
    for (name, q) in qs {
        match run_read(db, q, &p, true) {
            Ok(rows) => {
                let mut counts: std::collections::BTreeMap<String, u32> = Default::default();
                for r in rows {
                    // labels(n) order is not fixed: sort label lists
                    let cells: Vec<String> = r
                        .iter()
                        .map(|(k, v)| {
                            if k == "l"
                                && let Value::List(xs) = v
                            {
                                let mut s: Vec<String> = xs.iter().map(|x| canon_value(x, false)).collect();
                                s.sort();
                                return format!("[{}]", s.join(","));
                            }
                            canon_value(v, false)
                        })
                        .collect();
                    *counts.entry(cells.join(" | ")).or_default() += 1;
                }
                for (row, c) in counts {
                    f.insert(format!("q/{name}/{row}"), c.to_string());
                }
            }
            Err(e) => {
                f.insert(format!("q/{name}/!error"), e.to_string());
            }
        }
    }
    f
}
