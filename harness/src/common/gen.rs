//! Seeded generator of well-formed storage-level histories over a deliberately small universe.

use super::model::{Model, Op, W};
use super::rng::Rng;
use super::value::{gen_scalar_simple, gen_value};

#[derive(Clone, Debug)]
pub struct GenCfg {
    pub labels: Vec<String>,
    pub types: Vec<String>,
    pub keys: Vec<String>,
    pub max_live_nodes: usize,
    pub tx_writes: (usize, usize),
    /// weights of top-level ops: [tx, compact, checkpoint, create_index, reopen_close, reopen_drop]
    pub op_weights: [u32; 6],
    /// per-mille probability that a transaction is abandoned instead of committed
    pub abandon_pm: u32,
    /// allow vector writes inside transactions
    pub vectors: bool,
    /// use only simple scalar property values
    pub simple_values: bool,
    /// allow delete-then-recreate of the same relationship inside one transaction
    pub recreate_in_tx: bool,
    /// allow label add/remove after creation and multi-label creation
    pub multi_label: bool,
    pub vector_dim: usize,
    /// only creations and first-time property writes (no deletes, removals or overwrites)
    pub append_only: bool,
}

impl Default for GenCfg {
    fn default() -> Self {
        GenCfg {
            labels: ["A", "B", "C", "D"].iter().map(|s| s.to_string()).collect(),
            types: ["R", "S", "T"].iter().map(|s| s.to_string()).collect(),
            keys: ["k", "p", "q", "name", "v"].iter().map(|s| s.to_string()).collect(),
            max_live_nodes: 12,
            tx_writes: (1, 6),
            op_weights: [100, 0, 0, 0, 0, 0],
            abandon_pm: 0,
            vectors: false,
            simple_values: false,
            recreate_in_tx: true,
            multi_label: true,
            vector_dim: 3,
            append_only: false,
        }
    }
}

pub struct HistoryGen<'a> {
    pub cfg: &'a GenCfg,
    pub model: Model,
    pub next_ext: u64,
}

impl<'a> HistoryGen<'a> {
    pub fn new(cfg: &'a GenCfg) -> Self {
        HistoryGen {
            cfg,
            model: Model::default(),
            next_ext: 1000,
        }
    }

    fn gen_val(&self, rng: &mut Rng) -> nervusdb_api::PropertyValue {
        if self.cfg.simple_values {
            gen_scalar_simple(rng)
        } else {
            gen_value(rng, 0)
        }
    }

    /// Generate the writes of one transaction against a scratch copy of the model.
    pub fn gen_tx(&mut self, rng: &mut Rng) -> Vec<W> {
        let cfg = self.cfg;
        let mut m = self.model.clone();
        let mut ws: Vec<W> = Vec::new();
        let n = rng.range(cfg.tx_writes.0 as i64, cfg.tx_writes.1 as i64) as usize;
        let mut guard = 0;
        while ws.len() < n && guard < n * 6 {
            guard += 1;
            let live = m.live_nodes();
            let edges = m.live_edges();
            // weights: create node, create edge, set node prop, remove node prop, set edge prop,
            // remove edge prop, delete edge, delete node, add label, remove label, vector,
            // delete+recreate edge
            let mut wts = [14u32, 20, 20, 8, 10, 5, 8, 5, 5, 4, 0, 3];
            if live.len() >= cfg.max_live_nodes {
                wts[0] = 0;
            }
            if live.is_empty() {
                for w in wts.iter_mut().skip(1) {
                    *w = 0;
                }
                wts[0] = 1;
            }
            if edges.is_empty() {
                wts[4] = 0;
                wts[5] = 0;
                wts[6] = 0;
                wts[11] = 0;
            }
            if !cfg.multi_label {
                wts[8] = 0;
                wts[9] = 0;
            }
            if cfg.vectors && !live.is_empty() {
                wts[10] = 8;
            }
            if !cfg.recreate_in_tx {
                wts[11] = 0;
            }
            if cfg.append_only {
                for i in [3, 5, 6, 7, 9, 11] {
                    wts[i] = 0;
                }
            }
            let pushed: Vec<W> = match rng.weighted(&wts) {
                0 => {
                    let nl = if cfg.multi_label {
                        [1, 1, 1, 0, 2, 3][rng.below(6)]
                    } else {
                        1
                    };
                    let mut labels: Vec<String> = Vec::new();
                    for _ in 0..nl {
                        let l = rng.pick(&cfg.labels).clone();
                        if !labels.contains(&l) {
                            labels.push(l);
                        }
                    }
                    let ext = self.next_ext;
                    self.next_ext += 1;
                    vec![W::CreateNode { ext, labels }]
                }
                1 => {
                    let src = *rng.pick(&live);
                    let dst = if rng.chance(1, 8) { src } else { *rng.pick(&live) };
                    // bias towards existing keys to produce parallel relationships
                    if !edges.is_empty() && rng.chance(1, 4) {
                        let (s, t, d) = rng.pick(&edges).clone();
                        vec![W::CreateEdge { src: s, typ: t, dst: d }]
                    } else {
                        vec![W::CreateEdge {
                            src,
                            typ: rng.pick(&cfg.types).clone(),
                            dst,
                        }]
                    }
                }
                2 => {
                    let node = *rng.pick(&live);
                    let key = rng.pick(&cfg.keys).clone();
                    if cfg.append_only && m.nodes[node as usize].props.contains_key(&key) {
                        vec![]
                    } else {
                        vec![W::SetNodeProp { node, key, val: self.gen_val(rng) }]
                    }
                }
                3 => {
                    let node = *rng.pick(&live);
                    let have: Vec<String> = m.nodes[node as usize].props.keys().cloned().collect();
                    let key = if !have.is_empty() && rng.chance(3, 4) {
                        rng.pick(&have).clone()
                    } else {
                        rng.pick(&cfg.keys).clone()
                    };
                    vec![W::RemoveNodeProp { node, key }]
                }
                4 => {
                    let (s, t, d) = rng.pick(&edges).clone();
                    let key = rng.pick(&cfg.keys).clone();
                    if cfg.append_only && m.edges[&(s, t.clone(), d)].props.contains_key(&key) {
                        vec![]
                    } else {
                        vec![W::SetEdgeProp { src: s, typ: t, dst: d, key, val: self.gen_val(rng) }]
                    }
                }
                5 => {
                    let (s, t, d) = rng.pick(&edges).clone();
                    let have: Vec<String> = m.edges[&(s, t.clone(), d)].props.keys().cloned().collect();
                    let key = if !have.is_empty() && rng.chance(3, 4) {
                        rng.pick(&have).clone()
                    } else {
                        rng.pick(&cfg.keys).clone()
                    };
                    vec![W::RemoveEdgeProp { src: s, typ: t, dst: d, key }]
                }
                6 => {
                    let k = rng.pick(&edges).clone();
                    delete_edge_ws(&m, &k)
                }
                7 => {
                    let node = *rng.pick(&live);
                    let mut v = Vec::new();
                    for k in m.incident(node) {
                        v.extend(delete_edge_ws(&m, &k));
                    }
                    for key in m.nodes[node as usize].props.keys() {
                        v.push(W::RemoveNodeProp { node, key: key.clone() });
                    }
                    v.push(W::DeleteNode { node });
                    v
                }
                8 => vec![W::AddLabel {
                    node: *rng.pick(&live),
                    label: rng.pick(&cfg.labels).clone(),
                }],
                9 => {
                    let node = *rng.pick(&live);
                    let have: Vec<String> = m.nodes[node as usize].labels.iter().cloned().collect();
                    let label = if !have.is_empty() && rng.chance(3, 4) {
                        rng.pick(&have).clone()
                    } else {
                        rng.pick(&cfg.labels).clone()
                    };
                    vec![W::RemoveLabel { node, label }]
                }
                10 => {
                    let node = *rng.pick(&live);
                    let vec: Vec<f32> = (0..cfg.vector_dim)
                        .map(|_| [0.0f32, 1.0, -1.0, 0.5, 2.0, 3.0][rng.below(6)])
                        .collect();
                    vec![W::SetVector { node, vec }]
                }
                _ => {
                    let k = rng.pick(&edges).clone();
                    let mut v = delete_edge_ws(&m, &k);
                    v.push(W::CreateEdge {
                        src: k.0,
                        typ: k.1.clone(),
                        dst: k.2,
                    });
                    v
                }
            };
            for w in pushed {
                m.apply_w(&w);
                ws.push(w);
            }
        }
        ws
    }

    pub fn gen_op(&mut self, rng: &mut Rng) -> Op {
        let cfg = self.cfg;
        let op = match rng.weighted(&cfg.op_weights) {
            0 => {
                let writes = self.gen_tx(rng);
                let commit = !(cfg.abandon_pm > 0 && rng.chance(cfg.abandon_pm, 1000));
                Op::Tx { writes, commit }
            }
            1 => Op::Compact,
            2 => Op::Checkpoint,
            3 => Op::CreateIndex {
                label: rng.pick(&cfg.labels).clone(),
                field: rng.pick(&cfg.keys).clone(),
            },
            4 => Op::Reopen { close: true },
            _ => Op::Reopen { close: false },
        };
        if let Op::Tx { commit: false, writes } = &op {
            // abandoned transactions must not consume external ids that the model later reuses;
            // they simply never happened. Created-node ext ids stay unique anyway.
            let _ = writes;
        }
        self.model.apply_op(&op);
        op
    }

    pub fn gen_history(&mut self, rng: &mut Rng, n_ops: usize) -> Vec<Op> {
        (0..n_ops).map(|_| self.gen_op(rng)).collect()
    }
}

/// Well-formed deletion of a relationship key: remove its properties, then tombstone it.
fn delete_edge_ws(m: &Model, k: &(u32, String, u32)) -> Vec<W> {
    let mut v = Vec::new();
    if let Some(e) = m.edges.get(k) {
        for key in e.props.keys() {
            v.push(W::RemoveEdgeProp {
                src: k.0,
                typ: k.1.clone(),
                dst: k.2,
                key: key.clone(),
            });
        }
    }
    v.push(W::DeleteEdge {
        src: k.0,
        typ: k.1.clone(),
        dst: k.2,
    });
    v
}
