//! Thin wrapper over the C ABI (`nervusdb-capi`), called from Rust exactly as a C caller would.

use ndb_capi as c;
use serde_json::Value as J;
use std::ffi::{CStr, CString};
use std::os::raw::c_char;
use std::path::Path;

#[derive(Debug, Clone)]
pub struct CErr {
    pub code: i32,
    pub category: i32,
    pub message: String,
}

/// Reads the thread's last error the way a careful and a careless C client would, in rotation:
/// first the length (null buffer), then a heap buffer of exactly that length + 1, or one that is too
/// short (so the library has to truncate and still terminate inside `len` bytes). Eight guard bytes
/// follow the `len` bytes handed to the library; they are heap memory too, so an overflow of up to
/// eight bytes is seen here without a sanitizer, and a longer one by the AddressSanitizer flavour.
/// A write beyond `len`, a missing terminator or a length that changes between two calls ends the
/// process with a message (observed by the parent monitor as a C API call that killed its host).
fn last_error(code: i32) -> CErr {
    use std::sync::atomic::{AtomicUsize, Ordering};
    static ROT: AtomicUsize = AtomicUsize::new(0);
    const GUARD: usize = 8;
    let n = c::ndb_last_error_message(std::ptr::null_mut(), 0);
    let rot = ROT.fetch_add(1, Ordering::Relaxed);
    let lens = [n + 1, n.max(1), n / 2 + 1, 1, n + 1, 2048];
    let mut full: Option<Vec<u8>> = None;
    for k in [lens[rot % lens.len()], n + 1] {
        let mut buf = vec![0xA5u8; k + GUARD];
        let m = c::ndb_last_error_message(buf.as_mut_ptr() as *mut c_char, k);
        let bad = if buf[k..].iter().any(|&b| b != 0xA5) {
            Some("wrote beyond the caller's buffer")
        } else if m != n {
            Some("reported a different length for the same error")
        } else if buf[n.min(k - 1)] != 0 {
            Some("did not terminate the text where the truncated message ends")
        } else {
            None
        };
        if let Some(why) = bad {
            eprintln!("panicked at C ABI client guard:\nndb_last_error_message(len = message length {n} -> buffer {k}) {why}");
            std::process::abort();
        }
        if k > n {
            buf.truncate(n);
            full = Some(buf);
            break;
        }
    }
    let msg = String::from_utf8_lossy(&full.unwrap_or_default()).trim_end_matches('\0').to_string();
    CErr { code, category: c::ndb_last_error_category(), message: msg }
}

pub struct CDb {
    ptr: *mut c::ndb_db_t,
}
unsafe impl Send for CDb {}
unsafe impl Sync for CDb {}

impl CDb {
    pub fn open(base: &Path) -> Result<CDb, CErr> {
        let p = CString::new(base.to_string_lossy().as_bytes()).unwrap();
        let mut out: *mut c::ndb_db_t = std::ptr::null_mut();
        let rc = c::ndb_open(p.as_ptr(), &mut out);
        if rc != c::NDB_OK { Err(last_error(rc)) } else { Ok(CDb { ptr: out }) }
    }

    pub fn close(mut self) -> Result<(), CErr> {
        let rc = c::ndb_close(self.ptr);
        self.ptr = std::ptr::null_mut();
        if rc != c::NDB_OK { Err(last_error(rc)) } else { Ok(()) }
    }

    pub fn query(&self, cypher: &str, params_json: Option<&str>) -> Result<J, CErr> {
        let cy = CString::new(cypher).map_err(|_| CErr { code: -1, category: 0, message: "NUL in query".into() })?;
        let pj = params_json.map(|s| CString::new(s).unwrap());
        let mut res: *mut c::ndb_result_t = std::ptr::null_mut();
        let rc = c::ndb_query(self.ptr, cy.as_ptr(), pj.as_ref().map(|s| s.as_ptr()).unwrap_or(std::ptr::null()), &mut res);
        if rc != c::NDB_OK {
            return Err(last_error(rc));
        }
        let mut js: *mut c_char = std::ptr::null_mut();
        let rc = c::ndb_result_to_json(res, &mut js);
        if rc != c::NDB_OK {
            c::ndb_result_free(res);
            return Err(last_error(rc));
        }
        let text = unsafe { CStr::from_ptr(js) }.to_string_lossy().to_string();
        c::ndb_string_free(js);
        c::ndb_result_free(res);
        serde_json::from_str(&text).map_err(|e| CErr { code: -2, category: 0, message: format!("result is not JSON: {e}") })
    }

    pub fn execute_write(&self, cypher: &str, params_json: Option<&str>) -> Result<u32, CErr> {
        let cy = CString::new(cypher).map_err(|_| CErr { code: -1, category: 0, message: "NUL in query".into() })?;
        let pj = params_json.map(|s| CString::new(s).unwrap());
        let mut n: u32 = 0;
        let rc = c::ndb_execute_write(self.ptr, cy.as_ptr(), pj.as_ref().map(|s| s.as_ptr()).unwrap_or(std::ptr::null()), &mut n);
        if rc != c::NDB_OK { Err(last_error(rc)) } else { Ok(n) }
    }

    pub fn begin_write(&self) -> Result<CTxn, CErr> {
        let mut t: *mut c::ndb_txn_t = std::ptr::null_mut();
        let rc = c::ndb_begin_write(self.ptr, &mut t);
        if rc != c::NDB_OK { Err(last_error(rc)) } else { Ok(CTxn { ptr: t }) }
    }

    pub fn compact(&self) -> Result<(), CErr> {
        let rc = c::ndb_compact(self.ptr);
        if rc != c::NDB_OK { Err(last_error(rc)) } else { Ok(()) }
    }
}

impl Drop for CDb {
    fn drop(&mut self) {
        if !self.ptr.is_null() {
            let _ = c::ndb_close(self.ptr);
        }
    }
}

pub struct CTxn {
    ptr: *mut c::ndb_txn_t,
}

impl CTxn {
    pub fn query(&mut self, cypher: &str, params_json: Option<&str>) -> Result<(), CErr> {
        let cy = CString::new(cypher).map_err(|_| CErr { code: -1, category: 0, message: "NUL in query".into() })?;
        let pj = params_json.map(|s| CString::new(s).unwrap());
        let rc = c::ndb_txn_query(self.ptr, cy.as_ptr(), pj.as_ref().map(|s| s.as_ptr()).unwrap_or(std::ptr::null()));
        if rc != c::NDB_OK { Err(last_error(rc)) } else { Ok(()) }
    }
    pub fn commit(mut self) -> Result<(), CErr> {
        let rc = c::ndb_txn_commit(self.ptr);
        self.ptr = std::ptr::null_mut();
        if rc != c::NDB_OK { Err(last_error(rc)) } else { Ok(()) }
    }
    pub fn rollback(mut self) -> Result<(), CErr> {
        let rc = c::ndb_txn_rollback(self.ptr);
        self.ptr = std::ptr::null_mut();
        if rc != c::NDB_OK { Err(last_error(rc)) } else { Ok(()) }
    }
}

impl Drop for CTxn {
    fn drop(&mut self) {
        if !self.ptr.is_null() {
            let _ = c::ndb_txn_rollback(self.ptr);
        }
    }
}

/// One value read back through the typed column getters of the statement API.
#[derive(Debug, Clone)]
pub enum Col {
    Null,
    Bool(bool),
    Int(i64),
    Double(f64),
    Str(String),
    /// (column type code, JSON text from `ndb_stmt_column_json`)
    Json(i32, J),
}

pub enum Bind<'a> {
    Null,
    Bool(bool),
    Int(i64),
    Double(f64),
    Str(&'a str),
    List(String),
    Map(String),
}

pub struct CStmt {
    ptr: *mut c::ndb_stmt_t,
}

impl CDb {
    pub fn prepare(&self, cypher: &str, write: bool) -> Result<CStmt, CErr> {
        let cy = CString::new(cypher).map_err(|_| CErr { code: -1, category: 0, message: "NUL in query".into() })?;
        let mut st: *mut c::ndb_stmt_t = std::ptr::null_mut();
        let rc = if write { c::ndb_prepare_write(self.ptr, cy.as_ptr(), &mut st) } else { c::ndb_prepare_read(self.ptr, cy.as_ptr(), &mut st) };
        if rc != c::NDB_OK { Err(last_error(rc)) } else { Ok(CStmt { ptr: st }) }
    }
}

impl CStmt {
    pub fn bind(&mut self, name: &str, v: Bind<'_>) -> Result<(), CErr> {
        let n = CString::new(name).map_err(|_| CErr { code: -1, category: 0, message: "NUL in name".into() })?;
        let nul = |_| CErr { code: -1, category: 0, message: "NUL in value".into() };
        let rc = match v {
            Bind::Null => c::ndb_stmt_bind_null(self.ptr, n.as_ptr()),
            Bind::Bool(b) => c::ndb_stmt_bind_bool(self.ptr, n.as_ptr(), if b { 1 } else { 0 }),
            Bind::Int(i) => c::ndb_stmt_bind_int64(self.ptr, n.as_ptr(), i),
            Bind::Double(f) => c::ndb_stmt_bind_double(self.ptr, n.as_ptr(), f),
            Bind::Str(s) => {
                let s = CString::new(s).map_err(nul)?;
                c::ndb_stmt_bind_string(self.ptr, n.as_ptr(), s.as_ptr())
            }
            Bind::List(j) => {
                let s = CString::new(j).map_err(nul)?;
                c::ndb_stmt_bind_list(self.ptr, n.as_ptr(), s.as_ptr())
            }
            Bind::Map(j) => {
                let s = CString::new(j).map_err(nul)?;
                c::ndb_stmt_bind_map(self.ptr, n.as_ptr(), s.as_ptr())
            }
        };
        if rc != c::NDB_OK { Err(last_error(rc)) } else { Ok(()) }
    }

    /// Step to the next row: Ok(Some(columns)) / Ok(None) when done.
    pub fn step(&mut self) -> Result<Option<Vec<Col>>, CErr> {
        let mut state: i32 = -1;
        let rc = c::ndb_stmt_step(self.ptr, &mut state);
        if rc != c::NDB_OK {
            return Err(last_error(rc));
        }
        if state == c::NDB_STEP_DONE {
            return Ok(None);
        }
        let n = c::ndb_stmt_column_count(self.ptr);
        let mut out = Vec::with_capacity(n);
        for i in 0..n {
            let t = c::ndb_stmt_column_type(self.ptr, i);
            let col = match t {
                c::NDB_COL_NULL => Col::Null,
                c::NDB_COL_BOOL => {
                    let mut b: i32 = -1;
                    let rc = c::ndb_stmt_column_bool(self.ptr, i, &mut b);
                    if rc != c::NDB_OK {
                        return Err(last_error(rc));
                    }
                    Col::Bool(b != 0)
                }
                c::NDB_COL_INT64 => {
                    let mut v: i64 = 0;
                    let rc = c::ndb_stmt_column_int64(self.ptr, i, &mut v);
                    if rc != c::NDB_OK {
                        return Err(last_error(rc));
                    }
                    Col::Int(v)
                }
                c::NDB_COL_DOUBLE => {
                    let mut v: f64 = 0.0;
                    let rc = c::ndb_stmt_column_double(self.ptr, i, &mut v);
                    if rc != c::NDB_OK {
                        return Err(last_error(rc));
                    }
                    Col::Double(v)
                }
                c::NDB_COL_STRING => {
                    let mut p: *mut c_char = std::ptr::null_mut();
                    let rc = c::ndb_stmt_column_string(self.ptr, i, &mut p);
                    if rc != c::NDB_OK {
                        return Err(last_error(rc));
                    }
                    let s = unsafe { CStr::from_ptr(p) }.to_string_lossy().to_string();
                    c::ndb_string_free(p);
                    Col::Str(s)
                }
                other => {
                    let mut p: *mut c_char = std::ptr::null_mut();
                    let rc = c::ndb_stmt_column_json(self.ptr, i, &mut p);
                    if rc != c::NDB_OK {
                        return Err(last_error(rc));
                    }
                    let s = unsafe { CStr::from_ptr(p) }.to_string_lossy().to_string();
                    c::ndb_string_free(p);
                    let j: J = serde_json::from_str(&s).map_err(|e| CErr { code: -2, category: 0, message: format!("column json is not JSON: {e}") })?;
                    Col::Json(other, j)
                }
            };
            out.push(col);
        }
        Ok(Some(out))
    }

    pub fn write_count(&mut self) -> Result<u32, CErr> {
        let mut n: u32 = 0;
        let rc = c::ndb_stmt_write_count(self.ptr, &mut n);
        if rc != c::NDB_OK { Err(last_error(rc)) } else { Ok(n) }
    }

    pub fn reset(&mut self) -> Result<(), CErr> {
        let rc = c::ndb_stmt_reset(self.ptr);
        if rc != c::NDB_OK { Err(last_error(rc)) } else { Ok(()) }
    }
}

impl Drop for CStmt {
    fn drop(&mut self) {
        if !self.ptr.is_null() {
            let _ = c::ndb_stmt_finalize(self.ptr);
        }
    }
}

impl CDb {
    pub fn checkpoint(&self) -> Result<(), CErr> {
        let rc = c::ndb_checkpoint(self.ptr);
        if rc != c::NDB_OK { Err(last_error(rc)) } else { Ok(()) }
    }

    /// `ndb_close` while a transaction is open: must be refused and leave the handle valid.
    pub fn try_close_while_busy(&self) -> bool {
        let rc = c::ndb_close(self.ptr);
        rc == c::NDB_ERR_BUSY
    }
}
