//! Thin wrapper over the C ABI (`nervusdb-capi`), called from Rust exactly as a C caller would.

use ndb_capi as c;
use serde_json::Value as J;
use std::ffi::{CStr, CString};
use std::os::raw::c_char;
use std::path::Path;

#[derive(Debug, Clone)]
pub struct CErr {
    pub code: i32,
    pub category: i32,
    pub message: String,
}

fn last_error(code: i32) -> CErr {
    let mut buf = vec![0u8; 2048];
    let n = c::ndb_last_error_message(buf.as_mut_ptr() as *mut c_char, buf.len());
    let msg = String::from_utf8_lossy(&buf[..n.min(buf.len())]).trim_end_matches('\0').to_string();
    CErr { code, category: c::ndb_last_error_category(), message: msg }
}

pub struct CDb {
    ptr: *mut c::ndb_db_t,
}
unsafe impl Send for CDb {}
unsafe impl Sync for CDb {}

impl CDb {
    pub fn open(base: &Path) -> Result<CDb, CErr> {
        let p = CString::new(base.to_string_lossy().as_bytes()).unwrap();
        let mut out: *mut c::ndb_db_t = std::ptr::null_mut();
        let rc = c::ndb_open(p.as_ptr(), &mut out);
        if rc != c::NDB_OK { Err(last_error(rc)) } else { Ok(CDb { ptr: out }) }
    }

    pub fn close(mut self) -> Result<(), CErr> {
        let rc = c::ndb_close(self.ptr);
        self.ptr = std::ptr::null_mut();
        if rc != c::NDB_OK { Err(last_error(rc)) } else { Ok(()) }
    }

    pub fn query(&self, cypher: &str, params_json: Option<&str>) -> Result<J, CErr> {
        let cy = CString::new(cypher).map_err(|_| CErr { code: -1, category: 0, message: "NUL in query".into() })?;
        let pj = params_json.map(|s| CString::new(s).unwrap());
        let mut res: *mut c::ndb_result_t = std::ptr::null_mut();
        let rc = c::ndb_query(self.ptr, cy.as_ptr(), pj.as_ref().map(|s| s.as_ptr()).unwrap_or(std::ptr::null()), &mut res);
        if rc != c::NDB_OK {
            return Err(last_error(rc));
        }
        let mut js: *mut c_char = std::ptr::null_mut();
        let rc = c::ndb_result_to_json(res, &mut js);
        if rc != c::NDB_OK {
            c::ndb_result_free(res);
            return Err(last_error(rc));
        }
        let text = unsafe { CStr::from_ptr(js) }.to_string_lossy().to_string();
        c::ndb_string_free(js);
        c::ndb_result_free(res);
        serde_json::from_str(&text).map_err(|e| CErr { code: -2, category: 0, message: format!("result is not JSON: {e}") })
    }

    pub fn execute_write(&self, cypher: &str, params_json: Option<&str>) -> Result<u32, CErr> {
        let cy = CString::new(cypher).map_err(|_| CErr { code: -1, category: 0, message: "NUL in query".into() })?;
        let pj = params_json.map(|s| CString::new(s).unwrap());
        let mut n: u32 = 0;
        let rc = c::ndb_execute_write(self.ptr, cy.as_ptr(), pj.as_ref().map(|s| s.as_ptr()).unwrap_or(std::ptr::null()), &mut n);
        if rc != c::NDB_OK { Err(last_error(rc)) } else { Ok(n) }
    }

    pub fn begin_write(&self) -> Result<CTxn, CErr> {
        let mut t: *mut c::ndb_txn_t = std::ptr::null_mut();
        let rc = c::ndb_begin_write(self.ptr, &mut t);
        if rc != c::NDB_OK { Err(last_error(rc)) } else { Ok(CTxn { ptr: t }) }
    }

    pub fn compact(&self) -> Result<(), CErr> {
        let rc = c::ndb_compact(self.ptr);
        if rc != c::NDB_OK { Err(last_error(rc)) } else { Ok(()) }
    }
}

impl Drop for CDb {
    fn drop(&mut self) {
        if !self.ptr.is_null() {
            let _ = c::ndb_close(self.ptr);
        }
    }
}

pub struct CTxn {
    ptr: *mut c::ndb_txn_t,
}

impl CTxn {
    pub fn query(&mut self, cypher: &str, params_json: Option<&str>) -> Result<(), CErr> {
        let cy = CString::new(cypher).map_err(|_| CErr { code: -1, category: 0, message: "NUL in query".into() })?;
        let pj = params_json.map(|s| CString::new(s).unwrap());
        let rc = c::ndb_txn_query(self.ptr, cy.as_ptr(), pj.as_ref().map(|s| s.as_ptr()).unwrap_or(std::ptr::null()));
        if rc != c::NDB_OK { Err(last_error(rc)) } else { Ok(()) }
    }
    pub fn commit(mut self) -> Result<(), CErr> {
        let rc = c::ndb_txn_commit(self.ptr);
        self.ptr = std::ptr::null_mut();
        if rc != c::NDB_OK { Err(last_error(rc)) } else { Ok(()) }
    }
    pub fn rollback(mut self) -> Result<(), CErr> {
        let rc = c::ndb_txn_rollback(self.ptr);
        self.ptr = std::ptr::null_mut();
        if rc != c::NDB_OK { Err(last_error(rc)) } else { Ok(()) }
    }
}

impl Drop for CTxn {
    fn drop(&mut self) {
        if !self.ptr.is_null() {
            let _ = c::ndb_txn_rollback(self.ptr);
        }
    }
}
