//! Canonical forms, JSON rendering and generators for `PropertyValue`.

use super::rng::Rng;
use nervusdb_api::PropertyValue as PV;
use serde_json::{Value as J, json};
use std::collections::BTreeMap;

/// Canonical text of a value: floats by bit pattern (any NaN = "NaN"), everything structural.
pub fn canon(v: &PV) -> String {
    let mut s = String::new();
    canon_into(v, &mut s);
    s
}

fn canon_into(v: &PV, out: &mut String) {
    use std::fmt::Write;
    match v {
        PV::Null => out.push_str("null"),
        PV::Bool(b) => {
            let _ = write!(out, "b:{b}");
        }
        PV::Int(i) => {
            let _ = write!(out, "i:{i}");
        }
        PV::Float(f) => {
            if f.is_nan() {
                out.push_str("f:NaN");
            } else {
                let _ = write!(out, "f:{:016x}", f.to_bits());
            }
        }
        PV::String(s) => {
            let _ = write!(out, "s:{:?}", s);
        }
        PV::DateTime(i) => {
            let _ = write!(out, "dt:{i}");
        }
        PV::Blob(b) => {
            let _ = write!(out, "blob:{}:", b.len());
            // hash long blobs, keep short ones
            if b.len() <= 16 {
                for x in b {
                    let _ = write!(out, "{x:02x}");
                }
            } else {
                let _ = write!(out, "h{:016x}", fnv(b));
            }
        }
        PV::List(l) => {
            out.push('[');
            for (i, x) in l.iter().enumerate() {
                if i > 0 {
                    out.push(',');
                }
                canon_into(x, out);
            }
            out.push(']');
        }
        PV::Map(m) => {
            out.push('{');
            for (i, (k, x)) in m.iter().enumerate() {
                if i > 0 {
                    out.push(',');
                }
                let _ = write!(out, "{:?}:", k);
                canon_into(x, out);
            }
            out.push('}');
        }
    }
}

pub fn fnv(b: &[u8]) -> u64 {
    let mut h: u64 = 0xcbf29ce484222325;
    for x in b {
        h ^= *x as u64;
        h = h.wrapping_mul(0x100000001b3);
    }
    h
}

/// Exact structural equality (floats by bits; any NaN equals any NaN).
pub fn same(a: &PV, b: &PV) -> bool {
    canon(a) == canon(b)
}

pub fn to_json(v: &PV) -> J {
    match v {
        PV::Null => J::Null,
        PV::Bool(b) => json!(b),
        PV::Int(i) => json!({"int": i}),
        PV::Float(f) => json!({"float_bits": format!("{:016x}", f.to_bits()), "approx": format!("{f:?}")}),
        PV::String(s) => json!(s),
        PV::DateTime(i) => json!({"datetime": i}),
        PV::Blob(b) => json!({"blob_len": b.len(), "fnv": format!("{:016x}", fnv(b))}),
        PV::List(l) => J::Array(l.iter().map(to_json).collect()),
        PV::Map(m) => J::Object(m.iter().map(|(k, v)| (k.clone(), to_json(v))).collect()),
    }
}

/// Value pool for storage-level histories: every kind, boundary values, nested structures,
/// large blobs/strings that need more than one page.
pub fn gen_value(rng: &mut Rng, depth: u32) -> PV {
    let kinds = if depth == 0 { 9 } else { 7 };
    match rng.below(kinds + 3) {
        0 => PV::Null,
        1 => PV::Bool(rng.chance(1, 2)),
        2 | 9 => PV::Int(gen_int(rng)),
        3 | 10 => PV::Float(gen_float(rng)),
        4 | 11 => PV::String(gen_string(rng)),
        5 => PV::DateTime(gen_int(rng)),
        6 => {
            let n = match rng.below(8) {
                0 => 0,
                1 => 9000,
                2 => 20000,
                _ => rng.below(40),
            };
            PV::Blob(rng.bytes(n))
        }
        7 => {
            let n = rng.below(4);
            PV::List((0..n).map(|_| gen_value(rng, depth + 1)).collect())
        }
        _ => {
            let n = rng.below(4);
            let mut m = BTreeMap::new();
            for _ in 0..n {
                let k = ["a", "b", "k", "", "é"][rng.below(5)].to_string();
                m.insert(k, gen_value(rng, depth + 1));
            }
            PV::Map(m)
        }
    }
}

pub fn gen_int(rng: &mut Rng) -> i64 {
    const POOL: [i64; 14] = [
        0,
        1,
        -1,
        2,
        42,
        i64::MAX,
        i64::MIN,
        i64::MAX - 1,
        i64::MIN + 1,
        1 << 53,
        (1 << 53) + 1,
        -(1 << 53) - 1,
        255,
        65536,
    ];
    if rng.chance(1, 2) {
        POOL[rng.below(POOL.len())]
    } else {
        rng.range(-1000, 1000)
    }
}

pub fn gen_float(rng: &mut Rng) -> f64 {
    const POOL: [f64; 14] = [
        0.0,
        -0.0,
        1.0,
        -1.0,
        0.5,
        1.5,
        f64::NAN,
        f64::INFINITY,
        f64::NEG_INFINITY,
        f64::MAX,
        f64::MIN_POSITIVE,
        9007199254740992.0,
        1e-320,
        3.14,
    ];
    if rng.chance(1, 2) {
        POOL[rng.below(POOL.len())]
    } else {
        (rng.f64_unit() - 0.5) * 2000.0
    }
}

pub fn gen_string(rng: &mut Rng) -> String {
    match rng.below(10) {
        0 => String::new(),
        1 => "héllo wörld ✓".to_string(),
        2 => "a\u{0}b".to_string(),
        3 => "x".repeat(9000),
        4 => "'quote\"\\".to_string(),
        5 => "2020-01-02".to_string(),
        _ => {
            let n = 1 + rng.below(8);
            (0..n)
                .map(|_| (b'a' + rng.below(6) as u8) as char)
                .collect()
        }
    }
}

/// Scalar values that can be written as Cypher literals and keep their exact value.
pub fn gen_scalar_simple(rng: &mut Rng) -> PV {
    match rng.below(5) {
        0 => PV::Bool(rng.chance(1, 2)),
        1 | 2 => PV::Int(rng.range(-5, 5)),
        3 => PV::Float([0.5, 1.0, -2.5, 3.25, 0.0][rng.below(5)]),
        _ => PV::String(["a", "b", "ab", "", "zz"][rng.below(5)].to_string()),
    }
}
