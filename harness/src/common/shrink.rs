//! History masks and shrinking. A witness is stored as (seed, case, mask): the history is
//! regenerated deterministically and the mask says which operations / writes are kept. Dropping
//! a node creation renumbers later internal ids consistently, so masked histories stay well formed.

use super::model::{Model, Op, W};
use serde_json::{Value as J, json};

/// keep[i] = None: op i dropped; Some(ws): op kept, with the listed write indices (for Tx).
pub type Mask = Vec<Option<Vec<usize>>>;

pub fn full_mask(h: &[Op]) -> Mask {
    h.iter()
        .map(|op| match op {
            Op::Tx { writes, .. } => Some((0..writes.len()).collect()),
            _ => Some(vec![]),
        })
        .collect()
}

pub fn mask_to_json(m: &Mask) -> J {
    J::Array(
        m.iter()
            .map(|x| match x {
                None => J::Null,
                Some(ws) => json!(ws),
            })
            .collect(),
    )
}

pub fn mask_from_json(j: &J) -> Option<Mask> {
    let a = j.as_array()?;
    Some(
        a.iter()
            .map(|x| {
                x.as_array()
                    .map(|ws| ws.iter().map(|w| w.as_u64().unwrap() as usize).collect())
            })
            .collect(),
    )
}

fn remap_w(w: &W, f: &dyn Fn(u32) -> Option<u32>) -> Option<W> {
    Some(match w {
        W::CreateNode { .. } => w.clone(),
        W::AddLabel { node, label } => W::AddLabel { node: f(*node)?, label: label.clone() },
        W::RemoveLabel { node, label } => W::RemoveLabel { node: f(*node)?, label: label.clone() },
        W::CreateEdge { src, typ, dst } => W::CreateEdge { src: f(*src)?, typ: typ.clone(), dst: f(*dst)? },
        W::DeleteEdge { src, typ, dst } => W::DeleteEdge { src: f(*src)?, typ: typ.clone(), dst: f(*dst)? },
        W::DeleteNode { node } => W::DeleteNode { node: f(*node)? },
        W::SetNodeProp { node, key, val } => W::SetNodeProp { node: f(*node)?, key: key.clone(), val: val.clone() },
        W::RemoveNodeProp { node, key } => W::RemoveNodeProp { node: f(*node)?, key: key.clone() },
        W::SetEdgeProp { src, typ, dst, key, val } => W::SetEdgeProp {
            src: f(*src)?,
            typ: typ.clone(),
            dst: f(*dst)?,
            key: key.clone(),
            val: val.clone(),
        },
        W::RemoveEdgeProp { src, typ, dst, key } => W::RemoveEdgeProp {
            src: f(*src)?,
            typ: typ.clone(),
            dst: f(*dst)?,
            key: key.clone(),
        },
        W::SetVector { node, vec } => W::SetVector { node: f(*node)?, vec: vec.clone() },
    })
}

/// Apply a mask; returns None if the masked history refers to a dropped node or is otherwise ill formed.
pub fn apply_mask(full: &[Op], mask: &Mask) -> Option<Vec<Op>> {
    // committed[j] = Some(new id) if the j-th committed node (old id j) is kept
    let mut committed: Vec<Option<u32>> = Vec::new();
    let mut kept_committed: u32 = 0;
    let mut out = Vec::new();
    for (i, op) in full.iter().enumerate() {
        let m = mask.get(i).cloned().unwrap_or(None);
        match op {
            Op::Tx { writes, commit } => {
                let kept_ws: Vec<usize> = m.clone().unwrap_or_default();
                let op_kept = m.is_some();
                // local nodes of this tx
                let mut local: Vec<Option<u32>> = Vec::new();
                let mut kept_local: u32 = 0;
                let mut new_ws = Vec::new();
                for (wi, w) in writes.iter().enumerate() {
                    let keep = op_kept && kept_ws.contains(&wi);
                    if let W::CreateNode { .. } = w {
                        if keep {
                            local.push(Some(kept_committed + kept_local));
                            kept_local += 1;
                            new_ws.push(w.clone());
                        } else {
                            local.push(None);
                        }
                        continue;
                    }
                    if !keep {
                        continue;
                    }
                    let base = committed.len() as u32;
                    let f = |old: u32| -> Option<u32> {
                        if old < base {
                            committed[old as usize]
                        } else {
                            local.get((old - base) as usize).copied().flatten()
                        }
                    };
                    new_ws.push(remap_w(w, &f)?);
                }
                if *commit {
                    committed.extend(local);
                    kept_committed += kept_local;
                }
                if op_kept {
                    out.push(Op::Tx { writes: new_ws, commit: *commit });
                }
            }
            other => {
                if m.is_some() {
                    out.push(other.clone());
                }
            }
        }
    }
    if well_formed(&out) { Some(out) } else { None }
}

pub fn well_formed(h: &[Op]) -> bool {
    let mut m = Model::default();
    for op in h {
        if let Op::Tx { writes, commit } = op {
            let mut scratch = m.clone();
            for w in writes {
                if !w_ok(&scratch, w) {
                    return false;
                }
                scratch.apply_w(w);
            }
            if *commit {
                m = scratch;
            }
        } else {
            m.apply_op(op);
        }
    }
    true
}

fn w_ok(m: &Model, w: &W) -> bool {
    let alive = |n: &u32| m.nodes.get(*n as usize).map(|x| x.alive).unwrap_or(false);
    let edge_live = |s: &u32, t: &String, d: &u32| {
        m.edges
            .get(&(*s, t.clone(), *d))
            .map(|e| e.count > 0)
            .unwrap_or(false)
    };
    match w {
        W::CreateNode { ext, .. } => !m.nodes.iter().any(|n| n.ext == *ext),
        W::AddLabel { node, .. }
        | W::RemoveLabel { node, .. }
        | W::SetNodeProp { node, .. }
        | W::RemoveNodeProp { node, .. }
        | W::SetVector { node, .. } => alive(node),
        // a node may only be deleted once its relationships and properties are gone
        W::DeleteNode { node } => {
            alive(node) && m.incident(*node).is_empty() && m.nodes[*node as usize].props.is_empty()
        }
        W::CreateEdge { src, dst, .. } => alive(src) && alive(dst),
        // a relationship may only be deleted once its properties are gone
        W::DeleteEdge { src, typ, dst } => {
            edge_live(src, typ, dst) && m.edges[&(*src, typ.clone(), *dst)].props.is_empty()
        }
        W::SetEdgeProp { src, typ, dst, .. } | W::RemoveEdgeProp { src, typ, dst, .. } => {
            edge_live(src, typ, dst)
        }
    }
}

/// Greedy shrink: drop whole operations (last first), then single writes, while `still_fails`
/// keeps returning true for the masked history. `budget` bounds the number of trials.
pub fn shrink<F>(full: &[Op], start: Mask, mut budget: usize, mut still_fails: F) -> Mask
where
    F: FnMut(&[Op]) -> bool,
{
    let mut cur = start;
    let mut progress = true;
    while progress && budget > 0 {
        progress = false;
        // whole ops
        for i in (0..cur.len()).rev() {
            if budget == 0 {
                break;
            }
            if cur[i].is_none() {
                continue;
            }
            let mut trial = cur.clone();
            trial[i] = None;
            if let Some(h) = apply_mask(full, &trial) {
                budget -= 1;
                if still_fails(&h) {
                    cur = trial;
                    progress = true;
                }
            }
        }
        // single writes
        for i in (0..cur.len()).rev() {
            let Some(ws) = cur[i].clone() else { continue };
            for pos in (0..ws.len()).rev() {
                if budget == 0 {
                    break;
                }
                let Some(cur_ws) = cur[i].clone() else { break };
                if pos >= cur_ws.len() {
                    continue;
                }
                let mut trial = cur.clone();
                let mut tw = cur_ws.clone();
                tw.remove(pos);
                trial[i] = Some(tw);
                if let Some(h) = apply_mask(full, &trial) {
                    budget -= 1;
                    if still_fails(&h) {
                        cur = trial;
                        progress = true;
                    }
                }
            }
        }
    }
    cur
}

/// Shape of a (shrunk) history: op names and write kinds, without ids or values.
pub fn shape(h: &[Op]) -> String {
    let mut parts = Vec::new();
    for op in h {
        parts.push(match op {
            Op::Tx { writes, commit } => {
                let ws: Vec<&str> = writes.iter().map(w_kind).collect();
                format!("{}[{}]", if *commit { "tx" } else { "abandoned" }, ws.join(","))
            }
            Op::Compact => "compact".into(),
            Op::Checkpoint => "checkpoint".into(),
            Op::CreateIndex { .. } => "create_index".into(),
            Op::Reopen { close: true } => "close+reopen".into(),
            Op::Reopen { close: false } => "drop+reopen".into(),
        });
    }
    parts.join(";")
}

pub fn w_kind(w: &W) -> &'static str {
    match w {
        W::CreateNode { labels, .. } => {
            if labels.len() > 1 {
                "create_node_multilabel"
            } else {
                "create_node"
            }
        }
        W::AddLabel { .. } => "add_label",
        W::RemoveLabel { .. } => "remove_label",
        W::CreateEdge { .. } => "create_edge",
        W::DeleteEdge { .. } => "delete_edge",
        W::DeleteNode { .. } => "delete_node",
        W::SetNodeProp { .. } => "set_node_prop",
        W::RemoveNodeProp { .. } => "remove_node_prop",
        W::SetEdgeProp { .. } => "set_edge_prop",
        W::RemoveEdgeProp { .. } => "remove_edge_prop",
        W::SetVector { .. } => "set_vector",
    }
}
