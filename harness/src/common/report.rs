//! Result protocol between the monitors (this binary) and `/verif/check`.
//!
//! A monitor run produces one `Report` per property; `/verif/check` matches the violations against
//! `/verif/known_findings.json`, writes `/verif/evidence/<id>.json` and decides the exit code.

use serde_json::{Value as J, json};
use std::collections::{BTreeMap, BTreeSet};
use std::path::{Path, PathBuf};
use std::sync::Mutex;
use std::sync::atomic::{AtomicUsize, Ordering};
use std::time::Instant;

#[derive(Clone, Debug)]
pub struct Violation {
    /// Stable classification of *what* failed (used to match known findings).
    pub signature: String,
    pub summary: String,
    pub detail: J,
    /// Everything needed to re-execute the case (`vmon <engine> --replay <file>`).
    pub replay: J,
}

#[derive(Default, Clone, Debug)]
pub struct CaseOut {
    pub evaluations: u64,
    pub cells: BTreeSet<String>,
    pub counters: BTreeMap<String, u64>,
    pub violations: Vec<Violation>,
    pub inconclusive: BTreeMap<String, u64>,
    pub samples: Vec<J>,
}

impl CaseOut {
    pub fn count(&mut self, k: &str, n: u64) {
        *self.counters.entry(k.to_string()).or_default() += n;
    }
    pub fn cell(&mut self, k: impl Into<String>) {
        self.cells.insert(k.into());
    }
    pub fn inconclusive(&mut self, why: &str) {
        *self.inconclusive.entry(why.to_string()).or_default() += 1;
    }
    pub fn to_json(&self) -> J {
        json!({
            "evaluations": self.evaluations,
            "cells": self.cells,
            "counters": self.counters,
            "inconclusive": self.inconclusive,
            "samples": self.samples,
            "violations": self.violations.iter().map(|v| json!({"signature": v.signature, "summary": v.summary, "detail": v.detail, "replay": v.replay})).collect::<Vec<_>>(),
        })
    }

    pub fn from_json(j: &J) -> CaseOut {
        let mut o = CaseOut::default();
        o.evaluations = j["evaluations"].as_u64().unwrap_or(0);
        if let Some(a) = j["cells"].as_array() {
            for c in a {
                if let Some(s) = c.as_str() {
                    o.cells.insert(s.to_string());
                }
            }
        }
        for (field, target) in [("counters", 0), ("inconclusive", 1)] {
            if let Some(m) = j[field].as_object() {
                for (k, v) in m {
                    let n = v.as_u64().unwrap_or(0);
                    if target == 0 {
                        o.counters.insert(k.clone(), n);
                    } else {
                        o.inconclusive.insert(k.clone(), n);
                    }
                }
            }
        }
        if let Some(a) = j["samples"].as_array() {
            o.samples = a.clone();
        }
        if let Some(a) = j["violations"].as_array() {
            for v in a {
                o.violations.push(Violation {
                    signature: v["signature"].as_str().unwrap_or("").to_string(),
                    summary: v["summary"].as_str().unwrap_or("").to_string(),
                    detail: v["detail"].clone(),
                    replay: v["replay"].clone(),
                });
            }
        }
        o
    }

    pub fn merge(&mut self, o: CaseOut) {
        self.evaluations += o.evaluations;
        self.cells.extend(o.cells);
        for (k, v) in o.counters {
            *self.counters.entry(k).or_default() += v;
        }
        for (k, v) in o.inconclusive {
            *self.inconclusive.entry(k).or_default() += v;
        }
        self.violations.extend(o.violations);
        for s in o.samples {
            if self.samples.len() < 8 {
                self.samples.push(s);
            }
        }
    }
}

pub struct Report {
    pub property: String,
    pub tier: String,
    pub seed: u64,
    pub level: String,
    pub rule: String,
    pub assumptions: Vec<String>,
    pub out: CaseOut,
    pub floor_failures: Vec<String>,
    pub started: Instant,
    pub extra: BTreeMap<String, J>,
}

impl Report {
    pub fn new(property: &str, tier: &str, seed: u64, level: &str, rule: &str) -> Self {
        Report {
            property: property.to_string(),
            tier: tier.to_string(),
            seed,
            level: level.to_string(),
            rule: rule.to_string(),
            assumptions: Vec::new(),
            out: CaseOut::default(),
            floor_failures: Vec::new(),
            started: Instant::now(),
            extra: BTreeMap::new(),
        }
    }

    pub fn assume(&mut self, s: &str) {
        self.assumptions.push(s.to_string());
    }

    /// Coverage floor: below it the verdict is `inconclusive`, never `held`.
    pub fn floor(&mut self, name: &str, got: u64, need: u64) {
        if got < need {
            self.floor_failures
                .push(format!("{name}: observed {got} < required {need}"));
        }
    }

    pub fn counter(&self, k: &str) -> u64 {
        self.out.counters.get(k).copied().unwrap_or(0)
    }

    pub fn to_json(&self) -> J {
        // De-duplicate violations by signature, keeping the first few witnesses of each.
        let mut by_sig: BTreeMap<String, Vec<&Violation>> = BTreeMap::new();
        for v in &self.out.violations {
            by_sig.entry(v.signature.clone()).or_default().push(v);
        }
        let viols: Vec<J> = by_sig
            .iter()
            .map(|(sig, vs)| {
                json!({
                    "signature": sig,
                    "count": vs.len(),
                    "summary": vs[0].summary,
                    "detail": vs[0].detail,
                    "replay": vs[0].replay,
                    "more_replays": vs.iter().skip(1).take(2).map(|v| v.replay.clone()).collect::<Vec<_>>(),
                })
            })
            .collect();
        json!({
            "property": self.property,
            "tier": self.tier,
            "seed": self.seed,
            "level": self.level,
            "rule": self.rule,
            "assumptions": self.assumptions,
            "evaluations": self.out.evaluations,
            "distinct_nontrivial": self.out.cells.len(),
            "cells_sample": self.out.cells.iter().take(40).collect::<Vec<_>>(),
            "counters": self.out.counters,
            "inconclusive": self.out.inconclusive,
            "samples": self.out.samples,
            "violations": viols,
            "violation_witnesses": self.out.violations.len(),
            "floor_failures": self.floor_failures,
            "wall_s": self.started.elapsed().as_secs_f64(),
            "extra": self.extra,
        })
    }

    pub fn write(&self, path: &Path) {
        let s = serde_json::to_string_pretty(&self.to_json()).expect("serialize report");
        if let Some(p) = path.parent() {
            let _ = std::fs::create_dir_all(p);
        }
        std::fs::write(path, s).expect("write report");
    }
}

/// Run `n` cases on `threads` worker threads; case k gets index k. Results are merged in
/// index order so the report is deterministic for a given seed.
pub fn par_cases<F>(n: usize, threads: usize, deadline: Option<Instant>, f: F) -> (CaseOut, usize)
where
    F: Fn(usize) -> CaseOut + Sync,
{
    let next = AtomicUsize::new(0);
    let results: Mutex<BTreeMap<usize, CaseOut>> = Mutex::new(BTreeMap::new());
    std::thread::scope(|s| {
        for _ in 0..threads.max(1) {
            s.spawn(|| {
                loop {
                    if let Some(d) = deadline
                        && Instant::now() >= d
                    {
                        break;
                    }
                    let k = next.fetch_add(1, Ordering::SeqCst);
                    if k >= n {
                        break;
                    }
                    let out = f(k);
                    results.lock().unwrap().insert(k, out);
                }
            });
        }
    });
    let mut total = CaseOut::default();
    let res = results.into_inner().unwrap();
    let done = res.len();
    for (_, o) in res {
        total.merge(o);
    }
    (total, done)
}

pub fn threads() -> usize {
    std::env::var("VERIF_THREADS")
        .ok()
        .and_then(|s| s.parse().ok())
        .unwrap_or_else(|| std::thread::available_parallelism().map(|n| n.get()).unwrap_or(8))
}

pub struct Args {
    pub seed: u64,
    pub tier: String,
    pub out: PathBuf,
    pub replay: Option<PathBuf>,
    pub rest: Vec<String>,
}

impl Args {
    pub fn parse(argv: &[String]) -> Args {
        let mut a = Args {
            seed: 1,
            tier: "quick".into(),
            out: PathBuf::from("/dev/stdout"),
            replay: None,
            rest: Vec::new(),
        };
        let mut i = 0;
        while i < argv.len() {
            match argv[i].as_str() {
                "--seed" => {
                    a.seed = argv[i + 1].parse().expect("seed");
                    i += 1;
                }
                "--tier" => {
                    a.tier = argv[i + 1].clone();
                    i += 1;
                }
                "--out" => {
                    a.out = PathBuf::from(&argv[i + 1]);
                    i += 1;
                }
                "--replay" => {
                    a.replay = Some(PathBuf::from(&argv[i + 1]));
                    i += 1;
                }
                other => a.rest.push(other.to_string()),
            }
            i += 1;
        }
        a
    }
    pub fn thorough(&self) -> bool {
        self.tier == "thorough"
    }
    /// Optional wall-clock budget for the exploration loop (seconds), from VERIF_BUDGET_S.
    pub fn budget_s(&self, quick: u64, thorough: u64) -> u64 {
        std::env::var("VERIF_BUDGET_S")
            .ok()
            .and_then(|s| s.parse().ok())
            .unwrap_or(if self.thorough() { thorough } else { quick })
    }
}
