//! Reference model: a plain in-memory property graph, the operations of a storage-level
//! history, and the rendering of a model state into a flat fact map.

use super::value::{canon, to_json};
use nervusdb_api::PropertyValue as PV;
use serde_json::{Value as J, json};
use std::collections::{BTreeMap, BTreeSet};

pub type Facts = BTreeMap<String, String>;

#[derive(Clone, Debug, PartialEq)]
pub enum W {
    CreateNode { ext: u64, labels: Vec<String> },
    AddLabel { node: u32, label: String },
    RemoveLabel { node: u32, label: String },
    CreateEdge { src: u32, typ: String, dst: u32 },
    DeleteEdge { src: u32, typ: String, dst: u32 },
    DeleteNode { node: u32 },
    SetNodeProp { node: u32, key: String, val: PV },
    RemoveNodeProp { node: u32, key: String },
    SetEdgeProp { src: u32, typ: String, dst: u32, key: String, val: PV },
    RemoveEdgeProp { src: u32, typ: String, dst: u32, key: String },
    SetVector { node: u32, vec: Vec<f32> },
}

#[derive(Clone, Debug, PartialEq)]
pub enum Op {
    Tx { writes: Vec<W>, commit: bool },
    Compact,
    Checkpoint,
    CreateIndex { label: String, field: String },
    /// close == true: `Db::close()` (checkpoint-on-close) then open; false: drop then open.
    Reopen { close: bool },
}

#[derive(Clone, Debug, Default, PartialEq)]
pub struct MNode {
    pub ext: u64,
    pub labels: BTreeSet<String>,
    pub props: BTreeMap<String, PV>,
    pub alive: bool,
}

#[derive(Clone, Debug, Default, PartialEq)]
pub struct MEdge {
    pub count: u32,
    pub props: BTreeMap<String, PV>,
}

#[derive(Clone, Debug, Default, PartialEq)]
pub struct Model {
    /// index = internal node id (dense, never reused)
    pub nodes: Vec<MNode>,
    pub edges: BTreeMap<(u32, String, u32), MEdge>,
    pub indexes: BTreeSet<(String, String)>,
    pub vectors: BTreeMap<u32, Vec<f32>>,
}

impl Model {
    pub fn live_nodes(&self) -> Vec<u32> {
        self.nodes
            .iter()
            .enumerate()
            .filter(|(_, n)| n.alive)
            .map(|(i, _)| i as u32)
            .collect()
    }

    pub fn live_edges(&self) -> Vec<(u32, String, u32)> {
        self.edges
            .iter()
            .filter(|(_, e)| e.count > 0)
            .map(|(k, _)| k.clone())
            .collect()
    }

    pub fn incident(&self, node: u32) -> Vec<(u32, String, u32)> {
        self.edges
            .iter()
            .filter(|(k, e)| e.count > 0 && (k.0 == node || k.2 == node))
            .map(|(k, _)| k.clone())
            .collect()
    }

    pub fn apply_w(&mut self, w: &W) {
        match w {
            W::CreateNode { ext, labels } => {
                self.nodes.push(MNode {
                    ext: *ext,
                    labels: labels.iter().cloned().collect(),
                    props: BTreeMap::new(),
                    alive: true,
                });
            }
            W::AddLabel { node, label } => {
                self.nodes[*node as usize].labels.insert(label.clone());
            }
            W::RemoveLabel { node, label } => {
                self.nodes[*node as usize].labels.remove(label);
            }
            W::CreateEdge { src, typ, dst } => {
                self.edges
                    .entry((*src, typ.clone(), *dst))
                    .or_default()
                    .count += 1;
            }
            W::DeleteEdge { src, typ, dst } => {
                if let Some(e) = self.edges.get_mut(&(*src, typ.clone(), *dst)) {
                    e.count = 0;
                    e.props.clear();
                }
            }
            W::DeleteNode { node } => {
                let n = &mut self.nodes[*node as usize];
                n.alive = false;
                n.props.clear();
                n.labels.clear();
                self.vectors.remove(node);
            }
            W::SetNodeProp { node, key, val } => {
                self.nodes[*node as usize]
                    .props
                    .insert(key.clone(), val.clone());
            }
            W::RemoveNodeProp { node, key } => {
                self.nodes[*node as usize].props.remove(key);
            }
            W::SetEdgeProp { src, typ, dst, key, val } => {
                self.edges
                    .entry((*src, typ.clone(), *dst))
                    .or_default()
                    .props
                    .insert(key.clone(), val.clone());
            }
            W::RemoveEdgeProp { src, typ, dst, key } => {
                if let Some(e) = self.edges.get_mut(&(*src, typ.clone(), *dst)) {
                    e.props.remove(key);
                }
            }
            W::SetVector { node, vec } => {
                self.vectors.insert(*node, vec.clone());
            }
        }
    }

    /// Apply an operation of a history. Only committed transactions and index creation
    /// change the logical state; compaction/checkpoint/reopen must be invisible.
    pub fn apply_op(&mut self, op: &Op) {
        match op {
            Op::Tx { writes, commit } => {
                if *commit {
                    for w in writes {
                        self.apply_w(w);
                    }
                }
            }
            Op::CreateIndex { label, field } => {
                self.indexes.insert((label.clone(), field.clone()));
            }
            Op::Compact | Op::Checkpoint | Op::Reopen { .. } => {}
        }
    }

    /// Render as facts. `with_vectors` adds the stored vectors.
    pub fn facts(&self) -> Facts {
        let mut f = Facts::new();
        f.insert("count/nodes".into(), self.nodes.len().to_string());
        for (i, n) in self.nodes.iter().enumerate() {
            if !n.alive {
                f.insert(format!("dead/{i}"), "1".into());
                continue;
            }
            f.insert(format!("n/{i}/ext"), n.ext.to_string());
            f.insert(
                format!("n/{i}/labels"),
                n.labels.iter().cloned().collect::<Vec<_>>().join(","),
            );
            for (k, v) in &n.props {
                f.insert(format!("n/{i}/p/{k}"), canon(v));
            }
        }
        for ((s, t, d), e) in &self.edges {
            if e.count == 0 {
                continue;
            }
            f.insert(format!("o/{s}/{t}/{d}"), e.count.to_string());
            f.insert(format!("i/{d}/{t}/{s}"), e.count.to_string());
            for (k, v) in &e.props {
                f.insert(format!("e/{s}/{t}/{d}/p/{k}"), canon(v));
            }
        }
        f
    }
}

pub fn w_to_json(w: &W) -> J {
    match w {
        W::CreateNode { ext, labels } => json!({"w":"create_node","ext":ext,"labels":labels}),
        W::AddLabel { node, label } => json!({"w":"add_label","node":node,"label":label}),
        W::RemoveLabel { node, label } => json!({"w":"remove_label","node":node,"label":label}),
        W::CreateEdge { src, typ, dst } => json!({"w":"create_edge","src":src,"type":typ,"dst":dst}),
        W::DeleteEdge { src, typ, dst } => json!({"w":"delete_edge","src":src,"type":typ,"dst":dst}),
        W::DeleteNode { node } => json!({"w":"delete_node","node":node}),
        W::SetNodeProp { node, key, val } => {
            json!({"w":"set_node_prop","node":node,"key":key,"val":to_json(val),"canon":canon(val)})
        }
        W::RemoveNodeProp { node, key } => json!({"w":"remove_node_prop","node":node,"key":key}),
        W::SetEdgeProp { src, typ, dst, key, val } => {
            json!({"w":"set_edge_prop","src":src,"type":typ,"dst":dst,"key":key,"val":to_json(val),"canon":canon(val)})
        }
        W::RemoveEdgeProp { src, typ, dst, key } => {
            json!({"w":"remove_edge_prop","src":src,"type":typ,"dst":dst,"key":key})
        }
        W::SetVector { node, vec } => json!({"w":"set_vector","node":node,"vec":vec}),
    }
}

pub fn op_to_json(op: &Op) -> J {
    match op {
        Op::Tx { writes, commit } => {
            json!({"op":"tx","commit":commit,"writes":writes.iter().map(w_to_json).collect::<Vec<_>>()})
        }
        Op::Compact => json!({"op":"compact"}),
        Op::Checkpoint => json!({"op":"checkpoint"}),
        Op::CreateIndex { label, field } => json!({"op":"create_index","label":label,"field":field}),
        Op::Reopen { close } => json!({"op":"reopen","close":close}),
    }
}

pub fn history_to_json(h: &[Op]) -> J {
    J::Array(h.iter().map(op_to_json).collect())
}

/// Compare two fact maps; returns up to `max` differences as (key, left, right).
pub fn diff_facts(a: &Facts, b: &Facts, max: usize) -> Vec<(String, String, String)> {
    let mut out = Vec::new();
    let keys: BTreeSet<&String> = a.keys().chain(b.keys()).collect();
    for k in keys {
        let x = a.get(k);
        let y = b.get(k);
        if x != y {
            out.push((
                k.clone(),
                x.cloned().unwrap_or_else(|| "<absent>".into()),
                y.cloned().unwrap_or_else(|| "<absent>".into()),
            ));
            if out.len() >= max {
                break;
            }
        }
    }
    out
}
