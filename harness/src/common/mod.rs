pub mod capi;
pub mod child;
pub mod cypher;
pub mod dump;
pub mod r#gen;
pub mod model;
pub mod report;
pub mod rng;
pub mod shrink;
pub mod sut;
pub mod value;

use serde_json::{Value as J, json};

pub fn facts_diff_json(d: &[(String, String, String)], left: &str, right: &str) -> J {
    J::Array(
        d.iter()
            .map(|(k, a, b)| json!({"fact": k, left: a, right: b}))
            .collect(),
    )
}

/// Category of a fact key, used to build violation signatures that survive renumbering.
pub fn fact_category(key: &str) -> String {
    let parts: Vec<&str> = key.split('/').collect();
    match parts.first().copied().unwrap_or("") {
        "n" => match parts.get(2).copied().unwrap_or("") {
            "p" => "node-prop".into(),
            "labels" => "labels".into(),
            "ext" => "ext".into(),
            o => format!("n-{o}"),
        },
        "o" => "out".into(),
        "i" => "in".into(),
        "e" => "edge-prop".into(),
        "dead" => "dead".into(),
        "count" => "count".into(),
        "vs" => "vector-search".into(),
        "x" => "index".into(),
        "q" => "query".into(),
        o if o.starts_with('!') => {
            let sub = parts.get(1).copied().unwrap_or("");
            format!("{o}-{sub}")
        }
        o => o.to_string(),
    }
}

/// Direction of a difference: the right side lost a fact, gained one, or changed its value.
pub fn diff_signature(d: &[(String, String, String)]) -> String {
    let mut cats = std::collections::BTreeSet::new();
    for (k, a, b) in d {
        let dir = if b == "<absent>" {
            "lost"
        } else if a == "<absent>" {
            "extra"
        } else {
            "changed"
        };
        cats.insert(format!("{}:{}", fact_category(k), dir));
    }
    cats.into_iter().collect::<Vec<_>>().join("+")
}
