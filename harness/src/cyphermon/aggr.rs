//! C21: count(*), count, sum, avg, min, max, collect (plain and DISTINCT) equal folding each
//! group's non-null values with Cypher arithmetic and ordering (sum never wraps), and there is
//! exactly one result row per distinct grouping key.
//!
//! Oracle: a direct fold in the harness (exact i128 sums, exact int/float comparison) plus the
//! engine's own reduce()/collect() rewrite on inputs without overflow.

use super::order::ref_cmp;
use super::{Prep, Scratch, kind, params};
use crate::common::cypher::{QErr, canon_value};
use crate::common::report::{Args, CaseOut, Report, Violation};
use crate::common::rng::Rng;
use ndb_core::query::Value;
use serde_json::json;
use std::cmp::Ordering;
use std::collections::BTreeMap;

#[derive(Clone, Copy, Debug, PartialEq)]
enum Fam {
    SmallInts,
    BoundaryInts,
    Floats,
    MixedNumbers,
    /// integers (also near the 64-bit limits), halves and NaN: min/max must follow the ordering in
    /// which NaN comes after every number, whatever the order of the rows
    NumbersWithNan,
    Strings,
    Anything,
}

fn gen_value(rng: &mut Rng, fam: Fam, null_pm: u32) -> Value {
    if rng.chance(null_pm, 1000) {
        return Value::Null;
    }
    match fam {
        Fam::SmallInts => Value::Int(rng.range(-20, 20)),
        Fam::BoundaryInts => Value::Int(*rng.pick(&[i64::MAX, i64::MAX - 1, i64::MIN, i64::MIN + 1, 1 << 62, -(1 << 62), 1, -1, 0, 4611686018427387904, 9007199254740993, 3])),
        // halves only: never numerically equal to an integer of the other pools, exactly summable
        Fam::Floats => Value::Float(rng.range(-40, 40) as f64 + 0.5),
        Fam::MixedNumbers => {
            if rng.chance(1, 2) {
                Value::Int(rng.range(-1000, 1000))
            } else {
                Value::Float(rng.range(-40, 40) as f64 + 0.5)
            }
        }
        Fam::NumbersWithNan => match rng.below(5) {
            0 => Value::Float(f64::NAN),
            1 => Value::Float(rng.range(-40, 40) as f64 + 0.5),
            2 => Value::Int(*rng.pick(&[i64::MAX, i64::MIN, 9007199254740993, -9007199254740993])),
            _ => Value::Int(rng.range(-20, 20)),
        },
        Fam::Strings => Value::String(rng.pick(&["", "a", "b", "ab", "A", "é", "zz"]).to_string()),
        Fam::Anything => match rng.below(6) {
            0 => Value::Bool(rng.chance(1, 2)),
            1 => Value::String(rng.pick(&["a", "b"]).to_string()),
            2 => Value::List(vec![Value::Int(rng.range(0, 2))]),
            3 => Value::Float(f64::NAN),
            4 => Value::Float(rng.range(-3, 3) as f64 + 0.5),
            _ => Value::Int(rng.range(-3, 3)),
        },
    }
}

fn gen_key(rng: &mut Rng, nkeys: usize) -> Vec<Value> {
    (0..nkeys)
        .map(|_| match rng.below(5) {
            0 => Value::Null,
            1 => Value::String(rng.pick(&["x", "y"]).to_string()),
            2 => Value::Bool(rng.chance(1, 2)),
            _ => Value::Int(rng.range(0, 2)),
        })
        .collect()
}

fn c(v: &Value) -> String {
    canon_value(v, false)
}

fn approx(got: f64, want: f64, scale: f64) -> bool {
    if want.is_nan() {
        return got.is_nan();
    }
    if want.is_infinite() {
        return got == want;
    }
    (got - want).abs() <= 1e-9 * scale.max(want.abs()) + 1e-12
}

struct Expect {
    n: usize,
    nonnull: Vec<Value>,
}

fn one_case(s: &Scratch, prep: &mut Prep, rng: &mut Rng, k: usize, out: &mut CaseOut) {
    let fam = [Fam::SmallInts, Fam::BoundaryInts, Fam::Floats, Fam::MixedNumbers, Fam::Strings, Fam::Anything, Fam::NumbersWithNan][k % 7];
    let nkeys = [0usize, 1, 1, 2, 3][rng.below(5)];
    let nrows = rng.below(14);
    let null_pm = [0, 150, 400][rng.below(3)];
    let rows: Vec<(Vec<Value>, Value)> = (0..nrows).map(|_| (gen_key(rng, nkeys), gen_value(rng, fam, null_pm))).collect();
    let rows_param = Value::List(rows.iter().map(|(g, x)| Value::List(vec![Value::List(g.clone()), x.clone()])).collect());
    let ps = params(&[("rows", rows_param)]);
    let keys_ret = (0..nkeys).map(|j| format!("r[0][{j}] AS g{j}")).collect::<Vec<_>>().join(", ");
    let keys_with = if nkeys == 0 { String::new() } else { format!("{keys_ret}, ") };
    // expected groups
    let mut groups: BTreeMap<String, Expect> = BTreeMap::new();
    for (g, x) in &rows {
        let e = groups.entry(g.iter().map(c).collect::<Vec<_>>().join("|")).or_insert(Expect { n: 0, nonnull: vec![] });
        e.n += 1;
        if !matches!(x, Value::Null) {
            e.nonnull.push(x.clone());
        }
    }
    if nkeys == 0 && rows.is_empty() {
        groups.insert(String::new(), Expect { n: 0, nonnull: vec![] }); // global aggregation over nothing: one row
    }
    let numeric = matches!(fam, Fam::SmallInts | Fam::BoundaryInts | Fam::Floats | Fam::MixedNumbers | Fam::NumbersWithNan);
    let ordered = !matches!(fam, Fam::Anything);
    let mut aggs: Vec<(&str, String)> = vec![("count(*)", "count(*)".into()), ("count", "count(r[1])".into()), ("collect", "collect(r[1])".into()), ("count-distinct", "count(DISTINCT r[1])".into()), ("collect-distinct", "collect(DISTINCT r[1])".into())];
    if numeric {
        aggs.push(("sum", "sum(r[1])".into()));
        aggs.push(("avg", "avg(r[1])".into()));
        aggs.push(("sum-distinct", "sum(DISTINCT r[1])".into()));
    }
    if ordered {
        aggs.push(("min", "min(r[1])".into()));
        aggs.push(("max", "max(r[1])".into()));
    }
    out.count("aggregate_cases", 1);
    if nkeys >= 2 {
        out.count("cases_with_2-3_grouping_keys", 1);
    }
    if rows.iter().any(|(_, x)| matches!(x, Value::Null) || matches!(x, Value::Float(f) if f.is_nan())) {
        out.count("cases_with_null_or_nan_in_group", 1);
    }
    for (name, agg) in aggs {
        let q = format!("UNWIND $rows AS r RETURN {keys_with}{agg} AS v");
        out.evaluations += 1;
        out.count("aggregate_queries", 1);
        out.cell(format!("{name}:{fam:?}:keys={nkeys}"));
        let res = prep.rows(&s.db, &q, &ps);
        let detail = |extra: serde_json::Value| json!({"query": q, "rows": rows.iter().map(|(g, x)| format!("[{}] {}", g.iter().map(c).collect::<Vec<_>>().join(","), c(x))).collect::<Vec<_>>(), "extra": extra});
        let replay = json!({"engine":"cyphermon","property":"C21","case":k});
        let mut push = |out: &mut CaseOut, sig: String, summary: String, extra: serde_json::Value| {
            out.violations.push(Violation { signature: sig, summary, detail: detail(extra), replay: replay.clone() });
        };
        let res = match res {
            Ok(r) => r,
            Err(QErr::Panic(m)) => {
                push(out, format!("C21|{name}-panicked|{fam:?}"), format!("{agg} panicked: {m}"), json!({}));
                continue;
            }
            Err(e) => {
                // an error is acceptable only where the definition has no value: integer sum overflow
                let overflow = matches!(name, "sum" | "sum-distinct" | "avg") && fam == Fam::BoundaryInts;
                if overflow {
                    out.count("aggregate_errors_on_overflowing_input", 1);
                } else {
                    out.inconclusive(&format!("aggregate-query-error:{name}:{}", crate::storemon::normalise_msg(&e.to_string())));
                }
                continue;
            }
        };
        // one row per distinct grouping key
        let mut seen: BTreeMap<String, Value> = BTreeMap::new();
        let mut dup = false;
        for r in &res {
            let key = r[..nkeys].iter().map(|(_, v)| c(v)).collect::<Vec<_>>().join("|");
            if seen.insert(key, r[nkeys].1.clone()).is_some() {
                dup = true;
            }
        }
        if dup || seen.len() != groups.len() || seen.keys().any(|k| !groups.contains_key(k)) {
            push(out, format!("C21|rows-per-grouping-key|{}", if dup { "same-key-twice" } else { "keys-differ" }), format!("{} result rows for {} distinct grouping keys", res.len(), groups.len()), json!({"result_keys": seen.keys().collect::<Vec<_>>(), "expected_keys": groups.keys().collect::<Vec<_>>()}));
            continue;
        }
        for (key, exp) in &groups {
            let got = &seen[key];
            let vals = &exp.nonnull;
            let distinct: Vec<Value> = {
                let mut d: Vec<Value> = Vec::new();
                for v in vals {
                    if !d.iter().any(|w| c(w) == c(v)) {
                        d.push(v.clone());
                    }
                }
                d
            };
            let use_vals: &Vec<Value> = if name.ends_with("distinct") { &distinct } else { vals };
            // whether NaN is "the same value" as NaN for DISTINCT is not fixed by the property:
            // groups with more than one NaN are not judged for the DISTINCT forms
            if name.ends_with("distinct") && vals.iter().filter(|v| matches!(v, Value::Float(f) if f.is_nan())).count() > 1 {
                out.count("distinct_groups_with_several_nan_not_judged", 1);
                continue;
            }
            let mut bad: Option<(String, String)> = None; // (class, message)
            match name {
                "count(*)" => {
                    if !matches!(got, Value::Int(n) if *n as usize == exp.n) {
                        bad = Some(("count".into(), format!("count(*) = {} for a group of {} rows", c(got), exp.n)));
                    }
                }
                "count" | "count-distinct" => {
                    if !matches!(got, Value::Int(n) if *n as usize == use_vals.len()) {
                        bad = Some(("count".into(), format!("{agg} = {}, the group has {} such values", c(got), use_vals.len())));
                    }
                }
                "collect" | "collect-distinct" => {
                    let mut a: Vec<String> = match got {
                        Value::List(xs) => xs.iter().map(c).collect(),
                        _ => vec!["<not a list>".into()],
                    };
                    let mut b: Vec<String> = use_vals.iter().map(c).collect();
                    a.sort();
                    b.sort();
                    if a != b {
                        bad = Some(("collect".into(), format!("{agg} = {a:?}, expected the multiset {b:?}")));
                    }
                }
                "sum" | "sum-distinct" => {
                    let all_int = use_vals.iter().all(|v| matches!(v, Value::Int(_)));
                    if all_int {
                        let exact: i128 = use_vals.iter().map(|v| if let Value::Int(i) = v { *i as i128 } else { 0 }).sum();
                        let fits = exact >= i64::MIN as i128 && exact <= i64::MAX as i128;
                        if !fits {
                            out.count("sums_beyond_i64", 1);
                        }
                        let ok = match got {
                            Value::Int(i) => fits && *i as i128 == exact,
                            Value::Float(f) => !fits && approx(*f, exact as f64, 0.0),
                            _ => false,
                        };
                        if !ok {
                            bad = Some((if fits { "sum-wrong".into() } else { "integer-sum-wraps".into() }, format!("{agg} = {}, exact sum is {exact}", c(got))));
                        }
                    } else {
                        let want: f64 = use_vals.iter().map(|v| match v { Value::Int(i) => *i as f64, Value::Float(f) => *f, _ => 0.0 }).sum();
                        let scale: f64 = use_vals.iter().map(|v| match v { Value::Int(i) => (*i as f64).abs(), Value::Float(f) => f.abs(), _ => 0.0 }).sum();
                        if !matches!(got, Value::Float(f) if approx(*f, want, scale)) {
                            bad = Some(("sum-wrong".into(), format!("{agg} = {}, expected about {want}", c(got))));
                        }
                    }
                }
                "avg" => {
                    if vals.is_empty() {
                        if !matches!(got, Value::Null) {
                            bad = Some(("avg-of-nothing".into(), format!("avg over no values = {}, expected null", c(got))));
                        }
                    } else {
                        let exact: f64 = if vals.iter().all(|v| matches!(v, Value::Int(_))) {
                            let s: i128 = vals.iter().map(|v| if let Value::Int(i) = v { *i as i128 } else { 0 }).sum();
                            s as f64 / vals.len() as f64
                        } else {
                            vals.iter().map(|v| match v { Value::Int(i) => *i as f64, Value::Float(f) => *f, _ => 0.0 }).sum::<f64>() / vals.len() as f64
                        };
                        let scale: f64 = vals.iter().map(|v| match v { Value::Int(i) => (*i as f64).abs(), Value::Float(f) => f.abs(), _ => 0.0 }).sum::<f64>() / vals.len() as f64;
                        let ok = match got {
                            Value::Float(f) => approx(*f, exact, scale),
                            Value::Int(i) => approx(*i as f64, exact, scale),
                            _ => false,
                        };
                        if !ok {
                            let cls = if fam == Fam::BoundaryInts { "avg-of-large-integers-wrong" } else { "avg-wrong" };
                            bad = Some((cls.into(), format!("avg = {}, mean of the group's values is {exact}", c(got))));
                        }
                    }
                }
                "min" | "max" => {
                    if vals.is_empty() {
                        if !matches!(got, Value::Null) {
                            bad = Some(("min-max-of-nothing".into(), format!("{agg} over no values = {}", c(got))));
                        }
                    } else {
                        let mut best = &vals[0];
                        for v in vals.iter().skip(1) {
                            let o = ref_cmp(v, best);
                            if (name == "min" && o == Some(Ordering::Less)) || (name == "max" && o == Some(Ordering::Greater)) {
                                best = v;
                            }
                        }
                        if ref_cmp(got, best) != Some(Ordering::Equal) {
                            bad = Some((format!("{name}-wrong:{}", kind(best)), format!("{agg} = {}, expected {}", c(got), c(best))));
                        }
                    }
                }
                _ => {}
            }
            if let Some((cls, msg)) = bad {
                push(out, format!("C21|{cls}|{fam:?}"), format!("group [{key}]: {msg}"), json!({"group": key, "values": vals.iter().map(c).collect::<Vec<_>>()}));
                break;
            }
        }
    }
    // rewrite inside the engine: sum(x) = reduce(a = 0, v IN collect(x) | a + v) where nothing overflows
    if matches!(fam, Fam::SmallInts | Fam::Floats | Fam::MixedNumbers) {
        let q = format!("UNWIND $rows AS r WITH {}collect(r[1]) AS xs, sum(r[1]) AS s RETURN s, reduce(a = 0, v IN xs | a + v) AS f", if nkeys == 0 { String::new() } else { format!("{}, ", (0..nkeys).map(|j| format!("r[0][{j}] AS g{j}")).collect::<Vec<_>>().join(", ")) });
        out.evaluations += 1;
        out.count("sum_vs_reduce_rewrites", 1);
        if let Ok(res) = prep.rows(&s.db, &q, &ps) {
            for r in res {
                let (a, b) = (&r[0].1, &r[1].1);
                let same = match (a, b) {
                    (Value::Float(x), Value::Float(y)) => approx(*x, *y, x.abs().max(y.abs())),
                    (Value::Int(x), Value::Float(y)) | (Value::Float(y), Value::Int(x)) => approx(*x as f64, *y, 1.0),
                    _ => c(a) == c(b),
                };
                if !same {
                    out.violations.push(Violation {
                        signature: format!("C21|sum-differs-from-reduce-rewrite|{fam:?}"),
                        summary: format!("sum(x) = {} but reduce(a = 0, v IN collect(x) | a + v) = {}", c(a), c(b)),
                        detail: json!({"query": q, "rows": rows.iter().map(|(g, x)| format!("[{}] {}", g.iter().map(c).collect::<Vec<_>>().join(","), c(x))).collect::<Vec<_>>()}),
                        replay: json!({"engine":"cyphermon","property":"C21","case":k}),
                    });
                    break;
                }
            }
        }
    }
}

pub fn main(args: &Args) -> Report {
    let mut rep = Report::new(
        "C21",
        &args.tier,
        args.seed,
        "exploration",
        "UNWIND $rows AS r RETURN <0-3 grouping keys>, <aggregate>(r[1]) over generated groups (small ints, integers near the 64-bit limits, floats, mixed numbers, strings, anything incl. NaN/lists/bools; 0-40% nulls): one row per distinct grouping key (identical keys merged, no key invented); count(*), count, sum, avg, min, max, collect and their DISTINCT forms against a direct fold (exact i128 integer sums: in range -> that Int, out of range -> error or Float, never a wrapped Int; exact int/float ordering for min/max); sum vs reduce() rewrite inside the engine. A cell is (aggregate, value family, key count)",
    );
    rep.assume("grouping keys are drawn from ints, strings, booleans and null, so 'equal only under numeric coercion' (1 vs 1.0) does not arise; DISTINCT inputs never contain an int and a float that are numerically equal");
    let s = Scratch::new("c21");
    let mut prep = Prep::default();
    let mut out = CaseOut::default();
    let n = if args.thorough() { 600_000 } else { 10_000 };
    let deadline = std::time::Instant::now() + std::time::Duration::from_secs(args.budget_s(90, 900));
    for k in 0..n {
        if std::time::Instant::now() > deadline {
            break;
        }
        let mut rng = Rng::derive(args.seed, k as u64);
        one_case(&s, &mut prep, &mut rng, k, &mut out);
    }
    out.samples.push(json!({"query": "UNWIND $rows AS r RETURN r[0][0] AS g0, sum(r[1]) AS v", "rows": "[[[1], 9223372036854775807], [[1], 1], [[null], 3]]", "oracle": "group [1]: exact sum 9223372036854775808 does not fit i64 -> must be an error or a Float, never -9223372036854775808"}));
    let mut seen = std::collections::BTreeMap::<String, usize>::new();
    out.violations.retain(|v| {
        let c = seen.entry(v.signature.clone()).or_default();
        *c += 1;
        *c <= 3
    });
    rep.out = out;
    let t = args.thorough();
    rep.floor("aggregate queries", rep.counter("aggregate_queries"), if t { 100_000 } else { 10_000 });
    rep.floor("sums beyond +-2^63", rep.counter("sums_beyond_i64") + rep.counter("aggregate_errors_on_overflowing_input"), if t { 1000 } else { 100 });
    rep.floor("cases with null/NaN in the group", rep.counter("cases_with_null_or_nan_in_group"), if t { 3000 } else { 300 });
    rep.floor("cases with 2-3 grouping keys", rep.counter("cases_with_2-3_grouping_keys"), if t { 3000 } else { 300 });
    rep
}
