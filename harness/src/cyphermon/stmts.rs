//! Statement-level behaviour through the C API and the Rust API:
//! C13 a failed statement has no effect; C14 no dangling relationships / refusal of non-DETACH
//! deletes; C24 statements inside one explicit transaction see the earlier ones' writes.

use crate::common::capi::CDb;
use crate::common::cypher::{QErr, canon_value, run_read, run_write};
use crate::common::dump::{Universe, dump_db};
use crate::common::model::{Facts, diff_facts};
use crate::common::report::{Args, CaseOut, Report, Violation, par_cases, threads};
use crate::common::rng::Rng;
use crate::common::sut::ScratchDir;
use crate::common::{diff_signature, facts_diff_json};
use ndb_core::Db;
use ndb_core::query::{Params, Value};
use serde_json::json;
use std::time::{Duration, Instant};

/// Graph content keyed by the `uid` property (internal ids may legitimately differ between two
/// databases that created nodes in a different order).
pub fn uid_view(db: &Db) -> Facts {
    let mut f = Facts::new();
    let p = Params::new();
    let mut add = |name: &str, q: &str| match run_read(db, q, &p, true) {
        Ok(rows) => {
            let mut counts: std::collections::BTreeMap<String, u32> = Default::default();
            for r in rows {
                let cells: Vec<String> = r
                    .iter()
                    .map(|(k, v)| {
                        if k == "l"
                            && let Value::List(xs) = v
                        {
                            let mut s: Vec<String> = xs.iter().map(|x| canon_value(x, false)).collect();
                            s.sort();
                            return format!("[{}]", s.join(","));
                        }
                        canon_value(v, false)
                    })
                    .collect();
                *counts.entry(cells.join(" | ")).or_default() += 1;
            }
            for (row, c) in counts {
                f.insert(format!("q/{name}/{row}"), c.to_string());
            }
        }
        Err(e) => {
            f.insert(format!("q/{name}/!error"), e.to_string());
        }
    };
    add("node", "MATCH (n) RETURN n.uid AS u, labels(n) AS l, properties(n) AS p");
    add("rel", "MATCH (a)-[r]->(b) RETURN a.uid AS a, type(r) AS t, b.uid AS b, properties(r) AS p");
    add("rel-in", "MATCH (b)<-[r]-(a) RETURN a.uid AS a, type(r) AS t, b.uid AS b, properties(r) AS p");
    f
}

fn open_view(base: &std::path::Path) -> Result<Facts, String> {
    let db = Db::open(base).map_err(|e| e.to_string())?;
    Ok(uid_view(&db))
}

// ------------------------------------------------------------------------------------------------
// C24
// ------------------------------------------------------------------------------------------------

/// A dependency: later statements read/update/merge/delete what earlier ones wrote.
fn gen_dependency(rng: &mut Rng, uid: &mut i64) -> (&'static str, Vec<String>) {
    *uid += 10;
    let u = *uid;
    match rng.below(10) {
        9 => (
            // relationships created earlier in the transaction between committed nodes must be seen
            // by the DETACH DELETEs that follow (this kind holds on the current tree)
            "create-rels->detach-delete",
            vec![
                "MATCH (x:Q {uid: 3}), (a:Q {uid: 2}) CREATE (x)-[:R]->(a)".into(),
                "MATCH (a:Q {uid: 2}), (b:Q {uid: 1}) CREATE (a)-[:R]->(b)".into(),
                "MATCH (b:Q {uid: 1}) DETACH DELETE b".into(),
                "MATCH (a:Q {uid: 2}) DETACH DELETE a".into(),
            ],
        ),
        0 => ("create->match-set", vec![format!("CREATE (:P {{uid: {u}}})"), format!("MATCH (n:P {{uid: {u}}}) SET n.k = 5")]),
        1 => ("create->merge", vec![format!("CREATE (:P {{uid: {u}}})"), format!("MERGE (:P {{uid: {u}}})")]),
        2 => ("create->delete", vec![format!("CREATE (:P {{uid: {u}}})"), format!("MATCH (n:P {{uid: {u}}}) DELETE n")]),
        3 => ("set->where", vec!["MATCH (n:Q) SET n.k = 1".into(), "MATCH (n:Q) WHERE n.k = 1 SET n.done = true".into()]),
        4 => ("create->match-create-rel", vec![format!("CREATE (:P {{uid: {u}}}), (:P {{uid: {}}})", u + 1), format!("MATCH (a {{uid: {u}}}), (b {{uid: {}}}) CREATE (a)-[:R {{w: 1}}]->(b)", u + 1)]),
        5 => ("merge->merge", vec![format!("MERGE (:M {{uid: {u}}})"), format!("MERGE (:M {{uid: {u}}})")]),
        6 => ("delete->match", vec!["MATCH (n:Q {uid: 1}) DETACH DELETE n".into(), "MATCH (n:Q) SET n.seen = true".into()]),
        7 => ("create-rel->match-rel", vec![format!("CREATE (:P {{uid: {u}}})-[:R]->(:P {{uid: {}}})", u + 1), format!("MATCH (a:P {{uid: {u}}})-[r:R]->(b) SET r.w = 2, b.reached = true")]),
        _ => ("set->unwind-count", vec!["MATCH (n:Q) SET n.c = 7".into(), "MATCH (n:Q) WHERE n.c = 7 WITH count(n) AS c CREATE (:Summary {uid: 999, c: c})".into()]),
    }
}

fn c24_case(seed: u64, k: usize, out: &mut CaseOut) -> Option<Violation> {
    let mut rng = Rng::derive(seed, k as u64);
    let mut uid = 100i64;
    // two thirds of the scripts hold one dependency, so that a difference names its kind
    let n_deps = if k % 3 == 2 { 2 + rng.below(2) } else { 1 };
    let mut kinds = Vec::new();
    let mut script: Vec<String> = Vec::new();
    for _ in 0..n_deps {
        let (kind, stmts) = gen_dependency(&mut rng, &mut uid);
        kinds.push(kind);
        script.extend(stmts);
    }
    let setup = ["CREATE (:Q {uid: 1}), (:Q {uid: 2}), (:Q {uid: 3})", "MATCH (a:Q {uid: 1}), (b:Q {uid: 2}) CREATE (a)-[:S]->(b)"];
    let (da, db_) = (ScratchDir::new("c24a"), ScratchDir::new("c24b"));
    // (a) one explicit transaction; (b) consecutive auto-commit statements
    let run = |dir: &ScratchDir, in_txn: bool| -> Result<Vec<String>, String> {
        let c = CDb::open(&dir.db_base()).map_err(|e| e.message)?;
        for s in setup {
            c.execute_write(s, None).map_err(|e| format!("setup: {}", e.message))?;
        }
        let mut errors = Vec::new();
        if in_txn {
            let mut t = c.begin_write().map_err(|e| e.message)?;
            for s in &script {
                if let Err(e) = t.query(s, None) {
                    errors.push(format!("{s}: {}", e.message));
                }
            }
            t.commit().map_err(|e| format!("commit: {}", e.message))?;
        } else {
            for s in &script {
                if let Err(e) = c.execute_write(s, None) {
                    errors.push(format!("{s}: {}", e.message));
                }
            }
        }
        c.close().map_err(|e| e.message)?;
        Ok(errors)
    };
    let (ea, eb) = match (run(&da, true), run(&db_, false)) {
        (Ok(a), Ok(b)) => (a, b),
        (Err(e), _) | (_, Err(e)) => {
            out.inconclusive(&format!("run-failed:{}", crate::storemon::normalise_msg(&e)));
            return None;
        }
    };
    out.evaluations += 1;
    out.count("scripts", 1);
    for kd in &kinds {
        out.count(&format!("dependency.{kd}"), 1);
        out.cell(kd.to_string());
    }
    if !eb.is_empty() {
        // the sequential run itself failed somewhere: the script is not a valid reference
        out.inconclusive("auto-commit-reference-had-errors");
        return None;
    }
    let (va, vb) = match (open_view(&da.db_base()), open_view(&db_.db_base())) {
        (Ok(a), Ok(b)) => (a, b),
        _ => {
            out.inconclusive("view");
            return None;
        }
    };
    let d = diff_facts(&vb, &va, usize::MAX);
    if !d.is_empty() || !ea.is_empty() {
        // attribute to the first dependency kind whose statements alone reproduce a difference
        let mut ks: Vec<&str> = kinds.clone();
        ks.sort();
        ks.dedup();
        let kind = ks.join("+");
        return Some(Violation {
            signature: format!("C24|transaction-differs-from-sequential:{}|{kind}", if d.is_empty() { "statement-error-only".to_string() } else { diff_signature(&d) }),
            summary: format!("running the script inside one explicit transaction gives a different final state than running its statements one after the other ({} differing facts, {} statement errors inside the transaction)", d.len(), ea.len()),
            detail: json!({"setup": setup, "script": script, "errors_inside_transaction": ea, "diff": facts_diff_json(&d[..d.len().min(12)], "sequential", "one-transaction")}),
            replay: json!({"engine":"cyphermon","property":"C24","seed":seed,"case":k}),
        });
    }
    None
}

pub fn main_c24(args: &Args) -> Report {
    let mut rep = Report::new(
        "C24",
        &args.tier,
        args.seed,
        "exploration",
        "generated scripts of 1-3 dependencies (CREATE->MATCH SET, CREATE->MERGE, CREATE->DELETE, SET->WHERE, CREATE->MATCH CREATE rel, MERGE->MERGE, DELETE->MATCH, CREATE rel->MATCH rel, SET->aggregate) run inside one explicit C API transaction (ndb_begin_write / ndb_txn_query / ndb_txn_commit) and, on a twin database, as consecutive ndb_execute_write statements; the final uid-keyed graph content must be equal. A cell is a dependency kind",
    );
    rep.assume("the sequential auto-commit run is the reference; scripts whose reference run reports an error are not judged");
    let n = if args.thorough() { 60_000 } else { 2000 };
    let deadline = Instant::now() + Duration::from_secs(args.budget_s(90, 900));
    let seed = args.seed;
    let (mut out, _) = par_cases(n, threads(), Some(deadline), |k| {
        let mut out = CaseOut::default();
        if let Some(v) = c24_case(seed, k, &mut out) {
            out.violations.push(v);
        }
        out
    });
    out.samples.push(json!({"script": ["CREATE (:P {uid: 110})", "MATCH (n:P {uid: 110}) SET n.k = 5"], "oracle": "one transaction == two auto-commit statements"}));
    dedupe(&mut out, 2);
    rep.out = out;
    rep.floor("scripts", rep.counter("scripts"), if args.thorough() { 1000 } else { 300 });
    rep
}

fn dedupe(out: &mut CaseOut, keep: usize) {
    let mut seen = std::collections::BTreeMap::<String, usize>::new();
    out.violations.retain(|v| {
        let c = seen.entry(v.signature.clone()).or_default();
        *c += 1;
        *c <= keep
    });
}

// ------------------------------------------------------------------------------------------------
// C13
// ------------------------------------------------------------------------------------------------

/// A statement that fails, and why. `{POS}`-style construction: the failing row index is chosen.
/// Statements that fail only at run time with an error that is *classified* as a syntax error
/// (negative / non-integer SKIP and LIMIT parameters, a missing parameter) after earlier clauses
/// have already buffered writes. Returns (kind, statement, parameters as JSON).
fn gen_failing_with_params(rng: &mut Rng, uid: i64) -> (&'static str, String, Option<String>) {
    match rng.below(4) {
        0 => ("runtime:negative-limit-parameter-after-set", "MATCH (n:Q) SET n.touched = 1 WITH n LIMIT $k RETURN n.uid".to_string(), Some("{\"k\": -1}".to_string())),
        1 => ("runtime:non-integer-skip-parameter-after-create", format!("CREATE (g:F {{uid: {uid}}}) WITH g SKIP $k RETURN g.uid"), Some("{\"k\": \"two\"}".to_string())),
        2 => ("runtime:missing-parameter-after-create", format!("CREATE (g:F {{uid: {uid}}}) WITH g RETURN $missing"), None),
        _ => ("runtime:negative-skip-parameter-after-merge", format!("MERGE (g:F {{uid: {uid}}}) WITH g SKIP $k RETURN g.uid"), Some("{\"k\": -3}".to_string())),
    }
}

fn gen_failing(rng: &mut Rng, uid: i64) -> (&'static str, String) {
    let len = 2 + rng.below(4);
    let pos = rng.below(len);
    let list = |bad: &str, good: &dyn Fn(usize) -> String| (0..len).map(|i| if i == pos { bad.to_string() } else { good(i) }).collect::<Vec<_>>().join(", ");
    match rng.below(12) {
        // resource limits (the C API runs with the default limits): the statement has buffered
        // writes when a later clause exceeds the collection-size limit
        9 => ("limit:collection-size-after-create", format!("CREATE (:F {{uid: {uid}}}) WITH 1 AS one UNWIND range(1, 3000000) AS x RETURN count(x) AS c")),
        10 => ("limit:collection-size-after-set", "MATCH (n:Q) SET n.touched = 1 WITH n UNWIND range(1, 3000000) AS x RETURN count(x) AS c".to_string()),
        11 => ("limit:collection-size-after-merge-and-label", format!("MERGE (g:F {{uid: {uid}}}) SET g:Marked WITH g UNWIND range(1, 3000000) AS x RETURN count(x) AS c")),
        0 => ("runtime:list-index-type:create", format!("UNWIND [{}] AS x CREATE (:F {{uid: {uid} + size(toString(x)), v: [1, 2, 3][x]}})", list("'a'", &|i| (i % 3).to_string()))),
        1 => ("runtime:toBoolean:create", format!("UNWIND [{}] AS x CREATE (:F {{uid: {uid}, v: toBoolean(x)}})", list("1.5", &|_| "true".to_string()))),
        2 => ("runtime:toBoolean:set", format!("UNWIND [{}] AS x MATCH (n:Q) SET n.touched = toBoolean(x)", list("2.5", &|_| "'true'".to_string()))),
        3 => ("runtime:map-in-list-property", format!("UNWIND [{}] AS x CREATE (:F {{uid: {uid}, v: x}})", list("[{a: 1}]", &|i| format!("[{i}]")))),
        4 => ("runtime:delete-connected-node", "MATCH (n:Q) DELETE n".to_string()),
        5 => ("runtime:delete-connected-after-create", format!("CREATE (:F {{uid: {uid}}}) WITH 1 AS one MATCH (n:Q) DELETE n")),
        6 => ("compile:syntax", format!("CREATE (:F {{uid: {uid}}}) RETURN )")),
        7 => ("compile:undefined-variable", format!("CREATE (:F {{uid: {uid}}}) SET m.k = 1")),
        _ => ("runtime:toInteger-list:merge", format!("UNWIND [{}] AS x MERGE (:F {{uid: {uid}, v: toInteger(x)}})", list("[1]", &|i| format!("'{i}'")))),
    }
}

fn gen_ok(rng: &mut Rng, uid: i64) -> String {
    match rng.below(8) {
        // label changes buffered by the transaction before the failing statement
        4 => format!("CREATE (:G:H {{uid: {uid}}})"),
        5 => format!("MATCH (n:Q {{uid: {}}}) SET n:Marked", 1 + rng.below(3)),
        6 => "MATCH (n:Q {uid: 3}) REMOVE n:Extra".to_string(),
        7 => format!("MATCH (n:Q {{uid: {}}}) SET n:Marked:Seen REMOVE n:Extra", 1 + rng.below(3)),
        0 => format!("CREATE (:G {{uid: {uid}}})"),
        1 => "MATCH (n:Q) SET n.step = coalesce(n.step, 0) + 1".to_string(),
        2 => format!("MERGE (:G {{uid: {}}})", uid % 3 + 50),
        _ => format!("CREATE (:G {{uid: {uid}}})-[:R]->(:G {{uid: {}}})", uid + 1),
    }
}

fn c13_case(seed: u64, k: usize, out: &mut CaseOut) -> Option<Violation> {
    let mut rng = Rng::derive(seed, k as u64);
    let in_txn = k % 2 == 0;
    let n = 2 + rng.below(4);
    let fail_at = rng.below(n);
    let mut uid = 200i64;
    let mut with: Vec<(String, bool)> = Vec::new();
    let mut fkind = "";
    let mut fparams: Option<String> = None;
    for i in 0..n {
        uid += 10;
        if i == fail_at {
            if rng.chance(1, 4) {
                let (kd, s, p) = gen_failing_with_params(&mut rng, uid);
                fkind = kd;
                fparams = p;
                with.push((s, true));
            } else {
                let (kd, s) = gen_failing(&mut rng, uid);
                fkind = kd;
                with.push((s, true));
            }
        } else {
            with.push((gen_ok(&mut rng, uid), false));
        }
    }
    let setup = ["CREATE (:Q {uid: 1}), (:Q {uid: 2}), (:Q:Extra {uid: 3})", "MATCH (a:Q {uid: 1}), (b:Q {uid: 2}) CREATE (a)-[:S]->(b)"];
    let (da, db_) = (ScratchDir::new("c13a"), ScratchDir::new("c13b"));
    // the labels as the running process shows them after the script (reopening loses secondary
    // labels on both sides alike — the C04 finding — so the files alone would hide label effects)
    let live_labels: std::cell::RefCell<Vec<String>> = std::cell::RefCell::new(Vec::new());
    // returns (did the failing statement fail?, errors of other statements)
    let run = |dir: &ScratchDir, include_failing: bool| -> Result<(bool, Vec<String>), String> {
        let c = CDb::open(&dir.db_base()).map_err(|e| e.message)?;
        for s in setup {
            c.execute_write(s, None).map_err(|e| format!("setup: {}", e.message))?;
        }
        let mut failed = false;
        let mut other = Vec::new();
        if in_txn {
            let mut t = c.begin_write().map_err(|e| e.message)?;
            for (s, failing) in &with {
                if *failing && !include_failing {
                    continue;
                }
                match t.query(s, if *failing { fparams.as_deref() } else { None }) {
                    Ok(()) => {}
                    Err(e) if *failing => {
                        failed = true;
                        let _ = e;
                    }
                    Err(e) => other.push(format!("{s}: {}", e.message)),
                }
            }
            t.commit().map_err(|e| format!("commit: {}", e.message))?;
        } else {
            for (s, failing) in &with {
                if *failing && !include_failing {
                    continue;
                }
                match c.execute_write(s, if *failing { fparams.as_deref() } else { None }) {
                    Ok(_) => {}
                    Err(_) if *failing => failed = true,
                    Err(e) => other.push(format!("{s}: {}", e.message)),
                }
            }
        }
        let live = c.query("MATCH (n) RETURN n.uid AS u, labels(n) AS l", None).map(|j| {
            let mut rows: Vec<String> = j
                .as_array()
                .map(|a| {
                    a.iter()
                        .map(|r| {
                            let mut ls: Vec<String> = r["l"].as_array().map(|x| x.iter().filter_map(|s| s.as_str().map(|s| s.to_string())).collect()).unwrap_or_default();
                            ls.sort();
                            format!("{}:{}", r["u"], ls.join("+"))
                        })
                        .collect()
                })
                .unwrap_or_default();
            rows.sort();
            rows.join(" ")
        });
        live_labels.borrow_mut().push(live.unwrap_or_else(|e| format!("query failed: {}", e.message)));
        c.close().map_err(|e| e.message)?;
        Ok((failed, other))
    };
    let (ra, rb) = match (run(&da, true), run(&db_, false)) {
        (Ok(a), Ok(b)) => (a, b),
        (Err(e), _) | (_, Err(e)) => {
            out.inconclusive(&format!("run-failed:{}", crate::storemon::normalise_msg(&e)));
            return None;
        }
    };
    if !ra.0 {
        // the constructed statement did not fail: nothing to judge
        out.inconclusive(&format!("constructed-statement-did-not-fail:{fkind}"));
        return None;
    }
    if !rb.1.is_empty() {
        out.inconclusive("reference-script-had-errors");
        return None;
    }
    out.evaluations += 1;
    out.count("failing_statements", 1);
    if in_txn {
        out.count("failing_statements_inside_explicit_transactions", 1);
    }
    out.cell(format!("{fkind}:{}", if in_txn { "explicit-transaction" } else { "auto-commit" }));
    let (va, vb) = match (open_view(&da.db_base()), open_view(&db_.db_base())) {
        (Ok(a), Ok(b)) => (a, b),
        _ => {
            out.inconclusive("view");
            return None;
        }
    };
    let d = diff_facts(&vb, &va, usize::MAX);
    let live = live_labels.borrow();
    if d.is_empty() && ra.1.is_empty() && live.len() == 2 && live[0] != live[1] {
        return Some(Violation {
            signature: format!("C13|failed-statement-left-effects:labels-in-the-running-process|{fkind}:{}", if in_txn { "explicit-transaction" } else { "auto-commit" }),
            summary: format!("the statement failed, yet the labels shown by the running process differ from the run without it: with it [{}], without it [{}]", live[0], live[1]),
            detail: json!({"setup": setup, "script": with.iter().map(|(s, f)| json!({"statement": s, "fails": f})).collect::<Vec<_>>(), "mode": if in_txn { "ndb_begin_write + ndb_txn_query* + ndb_txn_commit" } else { "ndb_execute_write" }}),
            replay: json!({"engine":"cyphermon","property":"C13","seed":seed,"case":k}),
        });
    }
    if !d.is_empty() || !ra.1.is_empty() {
        return Some(Violation {
            signature: format!("C13|failed-statement-left-effects:{}|{fkind}:{}", if d.is_empty() { "later-statement-failed".into() } else { diff_signature(&d) }, if in_txn { "explicit-transaction" } else { "auto-commit" }),
            summary: format!("the statement failed, yet the final state differs from the run without it ({} facts; later statements failing only in the run with it: {})", d.len(), ra.1.len()),
            detail: json!({"setup": setup, "script": with.iter().map(|(s, f)| json!({"statement": s, "fails": f})).collect::<Vec<_>>(), "mode": if in_txn { "ndb_begin_write + ndb_txn_query* + ndb_txn_commit" } else { "ndb_execute_write" }, "diff": facts_diff_json(&d[..d.len().min(12)], "without-the-failing-statement", "with-it"), "later_errors": ra.1}),
            replay: json!({"engine":"cyphermon","property":"C13","seed":seed,"case":k}),
        });
    }
    None
}

pub fn main_c13(args: &Args) -> Report {
    let mut rep = Report::new(
        "C13",
        &args.tier,
        args.seed,
        "exploration",
        "scripts of 2-5 write statements with one constructed failing statement at a generated position (multi-row UNWIND whose expression raises at a chosen row: list index type error, toBoolean/toInteger on a bad value, map inside a list property; non-DETACH delete of a connected node, also after a CREATE in the same statement; syntax and compile-time errors) run through ndb_execute_write and inside ndb_begin_write/ndb_txn_query/ndb_txn_commit, against a twin database running the script without the failing statement; final uid-keyed content must be equal. A cell is (failure kind, mode)",
    );
    rep.assume("a constructed statement that does not fail is not judged (inconclusive)");
    let n = if args.thorough() { 150_000 } else { 3000 };
    let deadline = Instant::now() + Duration::from_secs(args.budget_s(90, 900));
    let seed = args.seed;
    let (mut out, _) = par_cases(n, threads(), Some(deadline), |k| {
        let mut out = CaseOut::default();
        if let Some(v) = c13_case(seed, k, &mut out) {
            out.violations.push(v);
        }
        out
    });
    out.samples.push(json!({"failing": "UNWIND [0, 1, 'a', 2] AS x CREATE (:F {uid: 210, v: [1, 2, 3][x]})", "oracle": "after commit the database equals the run without this statement"}));
    dedupe(&mut out, 2);
    rep.out = out;
    rep.floor("failing statements", rep.counter("failing_statements"), if args.thorough() { 1000 } else { 300 });
    rep.floor("failing statements inside explicit transactions", rep.counter("failing_statements_inside_explicit_transactions"), if args.thorough() { 300 } else { 100 });
    rep
}

// ------------------------------------------------------------------------------------------------
// C14
// ------------------------------------------------------------------------------------------------

fn dangling_facts(db: &Db) -> Vec<(String, String)> {
    let keys: Vec<String> = vec![];
    let types: Vec<String> = ["R", "S"].iter().map(|s| s.to_string()).collect();
    let f = dump_db(db, &Universe { keys: &keys, types: &types });
    let mut bad: Vec<(String, String)> = f.iter().filter(|(k, _)| k.starts_with("!dangling") || k.starts_with("!panic")).map(|(k, v)| (k.clone(), v.clone())).collect();
    // out and in must describe the same multiset
    for (k, v) in &f {
        if let Some(rest) = k.strip_prefix("o/") {
            let p: Vec<&str> = rest.split('/').collect();
            if p.len() == 3 {
                let ik = format!("i/{}/{}/{}", p[2], p[1], p[0]);
                if f.get(&ik) != Some(v) {
                    bad.push((format!("!asymmetric/{k}"), format!("outgoing x{v}, incoming {:?}", f.get(&ik))));
                }
            }
        }
        if let Some(rest) = k.strip_prefix("i/") {
            let p: Vec<&str> = rest.split('/').collect();
            if p.len() == 3 && !f.contains_key(&format!("o/{}/{}/{}", p[2], p[1], p[0])) {
                bad.push((format!("!asymmetric/{k}"), "incoming only".into()));
            }
        }
    }
    // Cypher in both pattern directions: endpoints must be nodes (non-null id and labels)
    for q in ["MATCH (a)-[r]->(b) RETURN id(a) AS a, labels(a) AS la, type(r) AS t, id(b) AS b, labels(b) AS lb", "MATCH (b)<-[r]-(a) RETURN id(a) AS a, labels(a) AS la, type(r) AS t, id(b) AS b, labels(b) AS lb"] {
        if let Ok(rows) = run_read(db, q, &Params::new(), true) {
            for r in rows {
                if r.iter().any(|(k, v)| k != "t" && matches!(v, Value::Null)) {
                    bad.push(("!dangling/cypher".into(), r.iter().map(|(_, v)| canon_value(v, false)).collect::<Vec<_>>().join(" | ")));
                }
            }
        }
    }
    bad
}

fn c14_case(seed: u64, k: usize, out: &mut CaseOut) -> Vec<Violation> {
    let mut rng = Rng::derive(seed, k as u64);
    let dir = ScratchDir::new("c14");
    let Ok(mut db) = Db::open(dir.db_base()) else {
        out.inconclusive("open");
        return vec![];
    };
    let params = Params::new();
    let mut viols = Vec::new();
    // harness-side reference of which uid has relationships (incl. uncommitted ones inside the
    // current statement): uid -> live?, rel multiset
    let mut nodes: std::collections::BTreeSet<i64> = Default::default();
    let mut rels: Vec<(i64, i64)> = Vec::new();
    let mut uid = 0i64;
    let mut history: Vec<String> = Vec::new();
    let steps = 6 + rng.below(14);
    for _ in 0..steps {
        let live: Vec<i64> = nodes.iter().copied().collect();
        let choice = rng.weighted(&[25, 20, 14, 10, 10, 8, 5, 4, 8, 8, 12]);
        let (stmt, expect_refusal, kind): (String, Option<bool>, &str) = match choice {
            0 => {
                uid += 1;
                nodes.insert(uid);
                (format!("CREATE (:N {{uid: {uid}}})"), None, "create-node")
            }
            1 if live.len() >= 2 => {
                let (a, b) = (*rng.pick(&live), *rng.pick(&live));
                rels.push((a, b));
                (format!("MATCH (a:N {{uid: {a}}}), (b:N {{uid: {b}}}) CREATE (a)-[:{}]->(b)", rng.pick(&["R", "S"])), None, "create-rel")
            }
            2 if !live.is_empty() => {
                // non-DETACH delete: must be refused iff the node has relationships
                let a = *rng.pick(&live);
                let connected = rels.iter().any(|(x, y)| *x == a || *y == a);
                if !connected {
                    nodes.remove(&a);
                }
                (format!("MATCH (n:N {{uid: {a}}}) DELETE n"), Some(connected), "delete-node")
            }
            3 if !live.is_empty() => {
                let a = *rng.pick(&live);
                nodes.remove(&a);
                rels.retain(|(x, y)| *x != a && *y != a);
                (format!("MATCH (n:N {{uid: {a}}}) DETACH DELETE n"), Some(false), "detach-delete")
            }
            4 if !rels.is_empty() => {
                let (a, b) = *rng.pick(&rels);
                rels.retain(|(x, y)| !(*x == a && *y == b));
                (format!("MATCH (a:N {{uid: {a}}})-[r]->(b:N {{uid: {b}}}) DELETE r"), Some(false), "delete-rel")
            }
            5 if !live.is_empty() => {
                // create a relationship and delete its endpoint without DETACH in ONE statement
                let a = *rng.pick(&live);
                uid += 1;
                // if refused (as it must be) nothing changes; the new node is not created either
                (format!("MATCH (a:N {{uid: {a}}}) CREATE (a)-[:R]->(b:N {{uid: {uid}}}) WITH a DELETE a"), Some(true), "create-rel-then-delete-endpoint-in-one-statement")
            }
            6 => {
                let _ = db.compact();
                ("/* compact */".into(), None, "compact")
            }
            9 if live.len() >= 2 => {
                // ONE transaction: the same relationship is created twice, then an endpoint is
                // DETACH DELETEd; nothing of the deleted node's relationships may survive
                let (a, b) = (*rng.pick(&live), *rng.pick(&live));
                if a == b {
                    continue;
                }
                let s1 = format!("MATCH (a:N {{uid: {a}}}), (b:N {{uid: {b}}}) UNWIND [1, 2] AS i CREATE (a)-[:R]->(b)");
                let s2 = format!("MATCH (n:N {{uid: {a}}}) DETACH DELETE n");
                history.push(format!("BEGIN; {s1}; {s2}; COMMIT"));
                out.evaluations += 1;
                out.count("duplicate_create_then_detach_delete_in_one_transaction", 1);
                out.count("delete_statements", 1);
                out.cell("duplicate-create-then-detach-delete-in-one-transaction".to_string());
                let mut txn = db.begin_write();
                let snap = db.snapshot();
                let r1 = ndb_core::query::prepare(&s1).and_then(|p| p.execute_mixed(&snap, &mut txn, &params));
                let r2 = ndb_core::query::prepare(&s2).and_then(|p| p.execute_mixed(&snap, &mut txn, &params));
                if r1.is_ok() && r2.is_ok() && txn.commit().is_ok() {
                    nodes.remove(&a);
                    rels.retain(|(x, y)| *x != a && *y != a);
                } else {
                    out.inconclusive("duplicate-create-transaction-failed");
                    return viols;
                }
                ("/* transaction */".into(), None, "duplicate-create-then-detach-delete")
            }
            10 if live.len() >= 3 => {
                // ONE explicit transaction of several statements over committed nodes: relationships
                // are created, endpoints DETACH DELETEd, plain DELETEs attempted. A plain DELETE must
                // be refused iff the node has a relationship, committed or created earlier in this
                // transaction and not deleted since; a refused statement leaves nothing (savepoint).
                let n_stmts = 3 + rng.below(4);
                let mut script: Vec<String> = Vec::new();
                let mut t_nodes = nodes.clone();
                let mut t_rels = rels.clone();
                let mut txn = db.begin_write();
                let snap = db.snapshot();
                out.count("multi_statement_transactions", 1);
                out.cell("multi-statement-transaction".to_string());
                let mut failed_viol: Option<Violation> = None;
                for _ in 0..n_stmts {
                    let tl: Vec<i64> = t_nodes.iter().copied().collect();
                    if tl.len() < 2 {
                        break;
                    }
                    let (a, b) = (*rng.pick(&tl), *rng.pick(&tl));
                    let mut batch: Vec<(String, Option<bool>)> = Vec::new();
                    match rng.below(5) {
                        0 | 1 => {
                            if t_rels.contains(&(a, b)) {
                                continue;
                            }
                            t_rels.push((a, b));
                            batch.push((format!("MATCH (a:N {{uid: {a}}}), (b:N {{uid: {b}}}) CREATE (a)-[:R]->(b)"), None));
                        }
                        2 => {
                            t_nodes.remove(&a);
                            t_rels.retain(|(x, y)| *x != a && *y != a);
                            batch.push((format!("MATCH (n:N {{uid: {a}}}) DETACH DELETE n"), Some(false)));
                        }
                        3 => {
                            // a relationship created and deleted by one statement, created again by the
                            // next, then its target deleted: the second creation is what counts
                            if t_rels.contains(&(a, b)) || a == b {
                                continue;
                            }
                            batch.push((format!("MATCH (a:N {{uid: {a}}}), (b:N {{uid: {b}}}) CREATE (a)-[r:R]->(b) DELETE r"), None));
                            t_rels.push((a, b));
                            batch.push((format!("MATCH (a:N {{uid: {a}}}), (b:N {{uid: {b}}}) CREATE (a)-[:R]->(b)"), None));
                            if rng.chance(1, 2) {
                                batch.push((format!("MATCH (n:N {{uid: {b}}}) DELETE n"), Some(true)));
                            } else {
                                t_nodes.remove(&b);
                                t_rels.retain(|(x, y)| *x != b && *y != b);
                                batch.push((format!("MATCH (n:N {{uid: {b}}}) DETACH DELETE n"), Some(false)));
                            }
                        }
                        _ => {
                            let connected = t_rels.iter().any(|(x, y)| *x == a || *y == a);
                            if !connected {
                                t_nodes.remove(&a);
                            }
                            batch.push((format!("MATCH (n:N {{uid: {a}}}) DELETE n"), Some(connected)));
                        }
                    };
                    let mut stop_script = false;
                    for (stmt, refuse) in batch {
                    script.push(stmt.clone());
                    out.evaluations += 1;
                    out.count("statements_in_multi_statement_transactions", 1);
                    if stmt.contains("DELETE") {
                        out.count("delete_statements", 1);
                    }
                    let sp = txn.savepoint();
                    let r = ndb_core::query::prepare(&stmt).and_then(|p| p.execute_mixed(&snap, &mut txn, &params));
                    match (r, refuse) {
                        (Ok(_), Some(true)) => {
                            stop_script = true;
                            failed_viol = Some(Violation {
                                signature: "C14|delete-of-connected-node-accepted|multi-statement-transaction".into(),
                                summary: format!("inside one transaction [{}] the last statement succeeded although the node has a relationship (committed, or created earlier in the transaction)", script.join("; ")),
                                detail: json!({"history": history, "transaction": script}),
                                replay: json!({"engine":"cyphermon","property":"C14","seed":seed,"case":k}),
                            });
                            break;
                        }
                        (Err(_), Some(true)) => {
                            txn.rollback_to(sp);
                            out.count("refusals_inside_multi_statement_transactions", 1);
                        }
                        (Err(e), _) => {
                            out.inconclusive(&format!("transaction-statement-failed:{}", crate::storemon::normalise_msg(&e.to_string()).chars().take(50).collect::<String>()));
                            return viols;
                        }
                        _ => {}
                    }
                    if stop_script {
                        break;
                    }
                    }
                    if stop_script {
                        break;
                    }
                }
                history.push(format!("BEGIN; {}; COMMIT", script.join("; ")));
                if let Some(v) = failed_viol {
                    let _ = txn.commit();
                    viols.push(v);
                    return viols_with_scan(&db, viols, &history, seed, k, "multi-statement-transaction");
                }
                if txn.commit().is_err() {
                    out.inconclusive("multi-statement-transaction-commit-failed");
                    return viols;
                }
                nodes = t_nodes;
                rels = t_rels;
                // what the committed transaction left: every relationship the reference has must be
                // found from both ends (the invariant scan below checks out/in agreement as well)
                let want: std::collections::BTreeSet<(i64, i64)> = rels.iter().copied().collect();
                let got: std::collections::BTreeSet<(i64, i64)> = run_read(&db, "MATCH (b)<-[r]-(a) RETURN a.uid AS a, b.uid AS b", &params, false)
                    .map(|rows| rows.iter().filter_map(|r| match (&r[0].1, &r[1].1) { (Value::Int(a), Value::Int(b)) => Some((*a, *b)), _ => None }).collect())
                    .unwrap_or_default();
                // (a compaction earlier in the history can bring deleted relationships back — the
                // C05 findings — which would make this comparison about compaction, not about the
                // transaction: it is made only on histories without one)
                let compacted = history.iter().any(|h| h.contains("compact"));
                if compacted {
                    out.count("multi_statement_transactions_after_a_compaction_not_compared", 1);
                }
                if want != got && !compacted {
                    viols.push(Violation {
                        signature: "C14|relationships-differ-after-transaction|multi-statement-transaction".into(),
                        summary: format!("after the transaction [{}] the relationships found from their target end are {:?}, the statements leave {:?}", script.join("; "), got, want),
                        detail: json!({"history": history, "transaction": script}),
                        replay: json!({"engine":"cyphermon","property":"C14","seed":seed,"case":k}),
                    });
                    return viols;
                }
                ("/* transaction */".into(), None, "multi-statement-transaction")
            }
            8 if live.len() >= 2 => {
                // two statements in ONE explicit transaction: create a relationship, then delete an
                // endpoint without DETACH; the second statement must be refused
                let (a, b) = (*rng.pick(&live), *rng.pick(&live));
                let s1 = format!("MATCH (a:N {{uid: {a}}}), (b:N {{uid: {b}}}) CREATE (a)-[:R]->(b)");
                let s2 = format!("MATCH (n:N {{uid: {a}}}) DELETE n");
                history.push(format!("BEGIN; {s1}; {s2}; (commit only if both succeed)"));
                out.evaluations += 1;
                out.count("create_then_delete_in_one_transaction", 1);
                out.count("delete_statements", 1);
                out.cell("create-rel-then-delete-endpoint-in-one-transaction".to_string());
                let mut txn = db.begin_write();
                let snap = db.snapshot();
                let r1 = ndb_core::query::prepare(&s1).and_then(|p| p.execute_mixed(&snap, &mut txn, &params));
                let r2 = ndb_core::query::prepare(&s2).and_then(|p| p.execute_mixed(&snap, &mut txn, &params));
                match (r1, r2) {
                    (Ok(_), Ok(_)) => {
                        let _ = txn.commit();
                        viols.push(Violation {
                            signature: "C14|delete-of-connected-node-accepted|create-rel-then-delete-endpoint-in-one-transaction".into(),
                            summary: format!("inside one transaction: {s1}; then {s2} succeeded although the node has the relationship just created"),
                            detail: json!({"history": history}),
                            replay: json!({"engine":"cyphermon","property":"C14","seed":seed,"case":k}),
                        });
                        return viols_with_scan(&db, viols, &history, seed, k, "create-rel-then-delete-endpoint-in-one-transaction");
                    }
                    _ => drop(txn), // refused (or the create failed): nothing was committed
                }
                ("/* transaction */".into(), None, "transaction")
            }
            7 => {
                drop(db);
                db = match Db::open(dir.db_base()) {
                    Ok(d) => d,
                    Err(_) => {
                        out.inconclusive("reopen");
                        return viols;
                    }
                };
                ("/* reopen */".into(), None, "reopen")
            }
            _ => {
                uid += 1;
                nodes.insert(uid);
                (format!("CREATE (:N {{uid: {uid}}})"), None, "create-node")
            }
        };
        history.push(stmt.clone());
        if !stmt.starts_with("/*") {
            let r = run_write(&db, &stmt, &params);
            out.evaluations += 1;
            out.count(&format!("stmt.{kind}"), 1);
            out.cell(kind.to_string());
            if kind.contains("delete") {
                out.count("delete_statements", 1);
            }
            match (&r, expect_refusal) {
                (Ok(_), Some(true)) => {
                    viols.push(Violation {
                        signature: format!("C14|delete-of-connected-node-accepted|{kind}"),
                        summary: format!("{stmt} succeeded although the node still has relationships"),
                        detail: json!({"history": history}),
                        replay: json!({"engine":"cyphermon","property":"C14","seed":seed,"case":k}),
                    });
                    // resynchronise the reference with what the engine did, as far as we can tell
                    return viols_with_scan(&db, viols, &history, seed, k, kind);
                }
                (Err(QErr::Panic(m)), _) => {
                    viols.push(Violation { signature: format!("C14|statement-panicked|{kind}"), summary: format!("{stmt} panicked: {m}"), detail: json!({"history": history}), replay: json!({"engine":"cyphermon","property":"C14","seed":seed,"case":k}) });
                    return viols;
                }
                (Err(e), Some(false)) | (Err(e), None) => {
                    out.inconclusive(&format!("statement-failed:{kind}:{}", crate::storemon::normalise_msg(&e.to_string()).chars().take(50).collect::<String>()));
                    return viols;
                }
                _ => {}
            }
            if kind == "create-rel-then-delete-endpoint-in-one-statement" {
                out.count("create_then_delete_in_one_statement", 1);
            }
        }
        let bad = dangling_facts(&db);
        if !bad.is_empty() {
            viols.push(Violation {
                signature: format!("C14|dangling-relationship:{}|after-{kind}", bad[0].0.split('/').take(2).collect::<Vec<_>>().join("/")),
                summary: format!("after {stmt}: {} -> {}", bad[0].0, bad[0].1),
                detail: json!({"history": history, "observations": bad.iter().take(6).collect::<Vec<_>>()}),
                replay: json!({"engine":"cyphermon","property":"C14","seed":seed,"case":k}),
            });
            return viols;
        }
    }
    viols
}

fn viols_with_scan(db: &Db, mut viols: Vec<Violation>, history: &[String], seed: u64, k: usize, kind: &str) -> Vec<Violation> {
    let bad = dangling_facts(db);
    if !bad.is_empty() {
        viols.push(Violation {
            signature: format!("C14|dangling-relationship:{}|after-{kind}", bad[0].0.split('/').take(2).collect::<Vec<_>>().join("/")),
            summary: format!("{} -> {}", bad[0].0, bad[0].1),
            detail: json!({"history": history, "observations": bad.iter().take(6).collect::<Vec<_>>()}),
            replay: json!({"engine":"cyphermon","property":"C14","seed":seed,"case":k}),
        });
    }
    viols
}

pub fn main_c14(args: &Args) -> Report {
    let mut rep = Report::new(
        "C14",
        &args.tier,
        args.seed,
        "exploration",
        "generated histories of CREATE node/relationship, DELETE (non-DETACH, judged against a harness-side reference of which node has relationships), DETACH DELETE, relationship DELETE, create-relationship-then-delete-endpoint in one statement, compaction and reopen; after every statement an invariant scan: every relationship returned by neighbors/incoming_neighbors and by MATCH in both pattern directions has two live endpoints, outgoing and incoming views describe the same multiset. A cell is a statement kind",
    );
    rep.assume("refusal is judged only where the reference is certain (the statement itself is well-formed and earlier statements succeeded)");
    let n = if args.thorough() { 150_000 } else { 2500 };
    let deadline = Instant::now() + Duration::from_secs(args.budget_s(90, 900));
    let seed = args.seed;
    let (mut out, _) = par_cases(n, threads(), Some(deadline), |k| {
        let mut out = CaseOut::default();
        let v = c14_case(seed, k, &mut out);
        out.violations.extend(v);
        out
    });
    out.samples.push(json!({"history": ["CREATE (:N {uid: 1})", "CREATE (:N {uid: 2})", "MATCH (a:N {uid: 1}), (b:N {uid: 2}) CREATE (a)-[:R]->(b)", "MATCH (n:N {uid: 2}) DELETE n  -- must be refused"], "scan": "out/in symmetric, both endpoints live, MATCH both directions"}));
    dedupe(&mut out, 2);
    rep.out = out;
    rep.floor("delete statements", rep.counter("delete_statements"), if args.thorough() { 3000 } else { 500 });
    rep.floor("create-then-delete within one statement", rep.counter("create_then_delete_in_one_statement"), if args.thorough() { 500 } else { 50 });
    rep
}
