//! Small random property graphs for the Cypher-level monitors, their loading through Cypher
//! statements, and rendering of values as Cypher literals.

use crate::common::cypher::{QErr, run_write};
use crate::common::rng::Rng;
use ndb_core::Db;
use ndb_core::query::{Params, Value};
use std::collections::BTreeMap;

pub const LABELS: [&str; 4] = ["A", "B", "C", "D"];
pub const TYPES: [&str; 3] = ["R", "S", "T"];

#[derive(Clone, Debug)]
pub struct GNode {
    pub uid: i64,
    pub labels: Vec<String>,
    pub props: BTreeMap<String, Value>,
}

#[derive(Clone, Debug)]
pub struct GEdge {
    pub src: usize,
    pub dst: usize,
    pub typ: String,
    pub props: BTreeMap<String, Value>,
}

#[derive(Clone, Debug, Default)]
pub struct Graph {
    pub nodes: Vec<GNode>,
    pub edges: Vec<GEdge>,
}

#[derive(Clone, Debug)]
pub struct GraphCfg {
    pub max_nodes: usize,
    pub max_edges: usize,
    pub parallel_edges: bool,
    pub self_loops: bool,
}

impl Default for GraphCfg {
    fn default() -> Self {
        GraphCfg { max_nodes: 8, max_edges: 12, parallel_edges: false, self_loops: true }
    }
}

/// Typed pools: within one graph a key always holds one scalar kind (or is missing), so that
/// generated queries are well-typed by construction.
pub fn gen_prop(rng: &mut Rng, key: &str) -> Option<Value> {
    if rng.chance(1, 4) {
        return None;
    }
    Some(match key {
        "k" => Value::Int(rng.range(0, 4)),
        "n" => Value::Int(*rng.pick(&[-1i64, 0, 1, 2, 10, 100])),
        "name" => Value::String(rng.pick(&["a", "ab", "b", "", "Bob", "al"]).to_string()),
        "v" => Value::Float(*rng.pick(&[0.5, 1.5, -2.5, 0.0, 10.25])),
        "flag" => Value::Bool(rng.chance(1, 2)),
        _ => Value::Int(rng.range(0, 2)),
    })
}

pub const NODE_KEYS: [&str; 5] = ["k", "n", "name", "v", "flag"];
pub const EDGE_KEYS: [&str; 2] = ["k", "name"];

pub fn gen_graph(rng: &mut Rng, cfg: &GraphCfg) -> Graph {
    let n = 1 + rng.below(cfg.max_nodes);
    let mut g = Graph::default();
    for i in 0..n {
        let nl = [0usize, 1, 1, 1, 2, 3][rng.below(6)];
        let mut labels: Vec<String> = Vec::new();
        while labels.len() < nl {
            let l = rng.pick(&LABELS).to_string();
            if !labels.contains(&l) {
                labels.push(l);
            }
        }
        let mut props = BTreeMap::new();
        for k in NODE_KEYS {
            if let Some(v) = gen_prop(rng, k) {
                props.insert(k.to_string(), v);
            }
        }
        g.nodes.push(GNode { uid: i as i64 + 1, labels, props });
    }
    let ne = rng.below(cfg.max_edges + 1);
    for _ in 0..ne {
        let s = rng.below(n);
        let d = rng.below(n);
        if s == d && !cfg.self_loops {
            continue;
        }
        let t = rng.pick(&TYPES).to_string();
        if !cfg.parallel_edges && g.edges.iter().any(|e| e.src == s && e.dst == d && e.typ == t) {
            continue;
        }
        let mut props = BTreeMap::new();
        for k in EDGE_KEYS {
            if let Some(v) = gen_prop(rng, k) {
                props.insert(k.to_string(), v);
            }
        }
        g.edges.push(GEdge { src: s, dst: d, typ: t, props });
    }
    g
}

/// Cypher literal for a value (only kinds the generators use).
pub fn lit(v: &Value) -> String {
    match v {
        Value::Null => "null".into(),
        Value::Bool(b) => b.to_string(),
        Value::Int(i) => {
            if *i == i64::MIN {
                "(-9223372036854775807 - 1)".into()
            } else {
                i.to_string()
            }
        }
        Value::Float(f) => {
            if f.fract() == 0.0 && f.abs() < 1e15 {
                format!("{f:.1}")
            } else {
                format!("{f:?}")
            }
        }
        Value::String(s) => format!("'{}'", s.replace('\\', "\\\\").replace('\'', "\\'")),
        Value::List(xs) => format!("[{}]", xs.iter().map(lit).collect::<Vec<_>>().join(", ")),
        Value::Map(m) => format!("{{{}}}", m.iter().map(|(k, x)| format!("{k}: {}", lit(x))).collect::<Vec<_>>().join(", ")),
        other => format!("/* unsupported literal {other:?} */ null"),
    }
}

pub fn props_lit(uid: Option<i64>, props: &BTreeMap<String, Value>) -> String {
    let mut parts: Vec<String> = Vec::new();
    if let Some(u) = uid {
        parts.push(format!("uid: {u}"));
    }
    for (k, v) in props {
        parts.push(format!("{k}: {}", lit(v)));
    }
    if parts.is_empty() { String::new() } else { format!(" {{{}}}", parts.join(", ")) }
}

/// The statements that build the graph: one CREATE per node, one MATCH..CREATE per relationship.
pub fn load_statements(g: &Graph) -> Vec<String> {
    let mut out = Vec::new();
    for n in &g.nodes {
        let labels: String = n.labels.iter().map(|l| format!(":{l}")).collect();
        out.push(format!("CREATE (n{labels}{})", props_lit(Some(n.uid), &n.props)));
    }
    for e in &g.edges {
        out.push(format!(
            "MATCH (a {{uid: {}}}), (b {{uid: {}}}) CREATE (a)-[:{}{}]->(b)",
            g.nodes[e.src].uid,
            g.nodes[e.dst].uid,
            e.typ,
            props_lit(None, &e.props)
        ));
    }
    out
}

pub fn load(db: &Db, g: &Graph) -> Result<(), QErr> {
    let p = Params::new();
    for s in load_statements(g) {
        run_write(db, &s, &p)?;
    }
    Ok(())
}

pub fn graph_json(g: &Graph) -> serde_json::Value {
    serde_json::json!({"load_statements": load_statements(g)})
}
