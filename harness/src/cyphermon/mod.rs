//! cyphermon: monitors over the Cypher front end (parser, planner, executor, evaluator).

pub mod aggr;
pub mod capi_parity;
pub mod errors;
pub mod graph;
pub mod index;
pub mod laws;
pub mod limits;
pub mod order;
pub mod read;
pub mod reference;
pub mod stmts;
pub mod tlp;
pub mod updates;
pub mod updates_gen;
pub mod updates_model;

use crate::common::cypher::{QErr, Rows, run_read};
use crate::common::sut::ScratchDir;
use ndb_core::Db;
use ndb_core::query::{Params, PreparedQuery, Value, prepare};
use std::cmp::Ordering;
use std::collections::BTreeMap;

/// An empty scratch database for expression-only queries.
pub struct Scratch {
    pub _dir: ScratchDir,
    pub db: Db,
}

impl Scratch {
    pub fn new(tag: &str) -> Scratch {
        let dir = ScratchDir::new(tag);
        let db = Db::open(dir.db_base()).expect("open scratch db");
        Scratch { _dir: dir, db }
    }
}

/// Prepared-statement cache: the monitors use few templates with many parameter tuples.
#[derive(Default)]
pub struct Prep {
    cache: BTreeMap<String, Result<PreparedQuery, String>>,
}

impl Prep {
    /// Evaluate `RETURN <expr> AS r` (or any single-row query) and hand back the first column.
    pub fn eval(&mut self, db: &Db, q: &str, params: &Params) -> Result<Value, QErr> {
        let rows = self.rows(db, q, params)?;
        match rows.into_iter().next().and_then(|r| r.into_iter().next()) {
            Some((_, v)) => Ok(v),
            None => Err(QErr::Runtime("no row".into())),
        }
    }

    pub fn rows(&mut self, db: &Db, q: &str, params: &Params) -> Result<Rows, QErr> {
        let entry = self.cache.entry(q.to_string()).or_insert_with(|| prepare(q).map_err(|e| e.to_string()));
        let prepared = match entry {
            Ok(p) => p.clone(),
            Err(e) => return Err(QErr::Compile(e.clone())),
        };
        let r = std::panic::catch_unwind(std::panic::AssertUnwindSafe(|| {
            let snap = db.snapshot();
            let mut out = Vec::new();
            for row in prepared.execute_streaming(&snap, params) {
                let row = row.map_err(|e| QErr::Runtime(e.to_string()))?;
                out.push(row.columns().to_vec());
            }
            Ok(out)
        }));
        match r {
            Ok(x) => x,
            Err(p) => Err(QErr::Panic(crate::common::dump::panic_msg(&p))),
        }
    }
}

pub fn params(pairs: &[(&str, Value)]) -> Params {
    let mut p = Params::new();
    for (k, v) in pairs {
        p.insert(*k, v.clone());
    }
    p
}

/// Exact comparison of two numbers (i64/f64) without lossy casts. None when a NaN is involved.
pub fn cmp_num(a: &Value, b: &Value) -> Option<Ordering> {
    fn int_float(i: i64, f: f64) -> Option<Ordering> {
        if f.is_nan() {
            return None;
        }
        if f >= 9.223372036854775807e18 {
            return Some(Ordering::Less);
        }
        if f < -9.223372036854775808e18 {
            return Some(Ordering::Greater);
        }
        let t = f.trunc();
        let ti = t as i64; // exact: |t| < 2^63 and t is integral
        match i.cmp(&ti) {
            Ordering::Equal => {
                let frac = f - t;
                if frac > 0.0 {
                    Some(Ordering::Less)
                } else if frac < 0.0 {
                    Some(Ordering::Greater)
                } else {
                    Some(Ordering::Equal)
                }
            }
            o => Some(o),
        }
    }
    match (a, b) {
        (Value::Int(x), Value::Int(y)) => Some(x.cmp(y)),
        (Value::Float(x), Value::Float(y)) => x.partial_cmp(y),
        (Value::Int(x), Value::Float(y)) => int_float(*x, *y),
        (Value::Float(x), Value::Int(y)) => int_float(*y, *x).map(|o| o.reverse()),
        _ => None,
    }
}

pub fn is_nan(v: &Value) -> bool {
    matches!(v, Value::Float(f) if f.is_nan())
}

pub fn kind(v: &Value) -> &'static str {
    match v {
        Value::Null => "null",
        Value::Bool(_) => "bool",
        Value::Int(_) => "int",
        Value::Float(f) if f.is_nan() => "nan",
        Value::Float(f) if f.is_infinite() => "inf",
        Value::Float(_) => "float",
        Value::String(_) => "string",
        Value::List(_) => "list",
        Value::Map(_) => "map",
        Value::Node(_) | Value::NodeId(_) => "node",
        Value::Relationship(_) | Value::EdgeKey(_) => "relationship",
        Value::Path(_) | Value::ReifiedPath(_) => "path",
        Value::DateTime(_) => "datetime",
        Value::Blob(_) => "blob",
        Value::ExternalId(_) => "extid",
    }
}

/// Integers and floats around the places where i64 and f64 stop agreeing.
pub fn boundary_numbers() -> Vec<Value> {
    let p53 = 1i64 << 53;
    let mut v: Vec<Value> = vec![0, 1, -1, 2, -2, 7, p53 - 1, p53, p53 + 1, p53 + 2, -p53, -p53 - 1, i64::MAX, i64::MAX - 1, i64::MIN, i64::MIN + 1, (1i64 << 62), (1i64 << 31), 3037000500]
        .into_iter()
        .map(Value::Int)
        .collect();
    for f in [0.0, -0.0, 1.0, -1.0, 0.5, 1.5, p53 as f64, (p53 as f64) + 2.0, -(p53 as f64), 9.223372036854775807e18, -9.223372036854775808e18, 1e308, -1e308, 4.9e-324, f64::INFINITY, f64::NEG_INFINITY, 0.1, 2.0, 7.0] {
        v.push(Value::Float(f));
    }
    v
}

pub fn run(db: &Db, q: &str, p: &Params) -> Result<Rows, QErr> {
    run_read(db, q, p, false)
}
