//! C15: indexes never change query results. The same generated statement history is executed on
//! two databases — one gets `create_index(label, property)` at a generated position, the other
//! never — and after every step generated equality queries must return the same row multisets.

use super::graph::{LABELS, lit};
use crate::common::cypher::{QErr, canon_rows, run_read, run_write, sorted};
use crate::common::report::{Args, CaseOut, Report, Violation, par_cases, threads};
use crate::common::rng::Rng;
use crate::common::sut::ScratchDir;
use ndb_core::Db;
use ndb_core::query::{Params, Value};
use serde_json::json;
use std::time::{Duration, Instant};

/// What the generator knows about a statement (used to classify a disagreement by the history
/// of the node it concerns).
#[derive(Clone, Debug)]
enum Info {
    Create { uid: i64, labels: Vec<String> },
    AddLabel { label: String, modulus: i64, rem: i64 },
    RemoveLabel { label: String, modulus: i64, rem: i64 },
    SetProp { label: String, prop: String, modulus: i64, rem: i64 },
    Delete { label: String, modulus: i64, rem: i64 },
    RemoveProp { label: String, prop: String, modulus: i64, rem: i64 },
    Other,
}

#[derive(Clone, Debug)]
enum Step {
    Stmt(String, Info),
    CreateIndex(String, String),
    Compact,
    Reopen,
}

fn value_pool() -> Vec<Value> {
    vec![
        Value::Int(1),
        Value::Float(1.0),
        Value::Int(0),
        Value::Float(0.0),
        Value::Float(-0.0),
        Value::Int(2),
        Value::Float(2.5),
        Value::String("a".into()),
        Value::String("1".into()),
        Value::String("".into()),
        Value::Bool(true),
        Value::Bool(false),
        Value::Int(9007199254740993),
        Value::Float(9007199254740992.0),
        Value::List(vec![Value::Int(1)]),
        Value::String("m".into()),
        Value::String("p".into()),
        Value::String("x".into()),
        Value::String("zz".into()),
        Value::String("b".into()),
    ]
}

fn stmt(q: String, info: Info) -> Step {
    Step::Stmt(q, info)
}

fn gen_history(seed: u64, k: usize) -> (Vec<Step>, (String, String), usize) {
    let mut rng = Rng::derive(seed, k as u64);
    // Every second history stays away from the triggers of the recorded findings (index created
    // first, one label per node, no label changes, no deletions, no floats) so that index
    // maintenance on property updates/removals, compaction and reopen is still explored in depth.
    // Every fifth history is "heavy": repeated SETs of ~1.5 KB strings on one node make the index
    // B-tree split its root while an *update* (not a create) is being indexed; lookups for short
    // values on both sides of the split follow.
    if k % 5 == 4 {
        return gen_heavy_history(&mut rng);
    }
    if k % 7 == 6 {
        return gen_relabel_history(&mut rng);
    }
    let clean = k % 2 == 1;
    let pool: Vec<Value> = if clean { value_pool().into_iter().filter(|v| !matches!(v, Value::Float(_))).collect() } else { value_pool() };
    let idx_label = rng.pick(&LABELS[..2]).to_string(); // A or B
    let idx_prop = rng.pick(&["p", "q"]).to_string();
    let n_steps = 6 + rng.below(14);
    let index_at = if clean { 0 } else { rng.below(n_steps) };
    let mut steps = Vec::new();
    let mut uid = 0;
    for i in 0..n_steps {
        if i == index_at {
            steps.push(Step::CreateIndex(idx_label.clone(), idx_prop.clone()));
        }
        let l = *rng.pick(&LABELS[..3]);
        let p = *rng.pick(&["p", "q"]);
        let v = lit(rng.pick(&pool));
        let weights: [u32; 10] = if clean { [30, 8, 20, 10, 0, 0, 0, 6, 5, 4] } else { [30, 8, 14, 6, 6, 6, 6, 4, 4, 3] };
        let s = match rng.weighted(&weights) {
            0 => {
                uid += 1;
                // duplicates of a value across nodes; sometimes two labels (index keyed on one)
                let second = if !clean && rng.chance(1, 4) { Some(rng.pick(&LABELS[..3]).to_string()) } else { None };
                let l2 = second.as_ref().map(|x| format!(":{x}")).unwrap_or_default();
                let mut labels = vec![l.to_string()];
                labels.extend(second);
                stmt(format!("CREATE (:{l}{l2} {{uid: {uid}, {p}: {v}}})"), Info::Create { uid, labels })
            }
            1 => {
                uid += 1;
                stmt(format!("CREATE (:{l} {{uid: {uid}}})"), Info::Create { uid, labels: vec![l.to_string()] })
            }
            2 => {
                let r = rng.below(2) as i64;
                stmt(format!("MATCH (n:{l}) WHERE n.uid % 2 = {r} SET n.{p} = {v}"), Info::SetProp { label: l.to_string(), prop: p.to_string(), modulus: 2, rem: r })
            }
            3 => {
                let r = rng.below(3) as i64;
                stmt(format!("MATCH (n:{l}) WHERE n.uid % 3 = {r} REMOVE n.{p}"), Info::RemoveProp { label: l.to_string(), prop: p.to_string(), modulus: 3, rem: r })
            }
            4 => {
                let r = rng.below(3) as i64;
                stmt(format!("MATCH (n) WHERE n.uid % 3 = {r} SET n:{l}"), Info::AddLabel { label: l.to_string(), modulus: 3, rem: r })
            }
            5 => {
                let r = rng.below(3) as i64;
                stmt(format!("MATCH (n:{l}) WHERE n.uid % 3 = {r} REMOVE n:{l}"), Info::RemoveLabel { label: l.to_string(), modulus: 3, rem: r })
            }
            6 => {
                let r = rng.below(4) as i64;
                stmt(format!("MATCH (n:{l}) WHERE n.uid % 4 = {r} DETACH DELETE n"), Info::Delete { label: l.to_string(), modulus: 4, rem: r })
            }
            7 => stmt(format!("MATCH (n:{l}) SET n.{p} = null"), Info::RemoveProp { label: l.to_string(), prop: p.to_string(), modulus: 1, rem: 0 }),
            8 => Step::Compact,
            _ => Step::Reopen,
        };
        steps.push(s);
    }
    (steps, (idx_label, idx_prop), index_at)
}

fn gen_heavy_history(rng: &mut Rng) -> (Vec<Step>, (String, String), usize) {
    let l = "A";
    let p = "p";
    let mut steps = vec![Step::CreateIndex(l.into(), p.into())];
    let mut uid = 0i64;
    let mut create = |steps: &mut Vec<Step>, v: &str, uid: &mut i64| {
        *uid += 1;
        steps.push(stmt(format!("CREATE (:{l} {{uid: {uid}, {p}: '{v}'}})"), Info::Create { uid: *uid, labels: vec![l.to_string()] }));
    };
    for v in ["a", "m", "x"] {
        create(&mut steps, v, &mut uid);
    }
    let target = 1 + rng.below(3) as i64;
    let n_sets = 7 + rng.below(8);
    for i in 0..n_sets {
        let long = format!("{}{i}", ["k", "n", "q", "b"][rng.below(4)].repeat(1400 + rng.below(300)));
        steps.push(stmt(format!("MATCH (n:{l}) WHERE n.uid = {target} SET n.{p} = '{long}'"), Info::SetProp { label: l.into(), prop: p.into(), modulus: 1_000_000, rem: target }));
        if rng.chance(1, 6) {
            steps.push(Step::Compact);
        }
    }
    for v in ["m", "p", "m", "a", "zz", "b"] {
        create(&mut steps, v, &mut uid);
        if rng.chance(1, 5) {
            steps.push(Step::Reopen);
        }
    }
    (steps, (l.into(), p.into()), 0)
}

/// Nodes of the indexed label later gain a label that was interned before theirs (or lose
/// nothing): their indexed property is then set to values that other nodes of the label already
/// have, so that a lookup served from an incomplete index is non-empty and no scan hides the gap.
fn gen_relabel_history(rng: &mut Rng) -> (Vec<Step>, (String, String), usize) {
    let (l, other, p) = ("B", "A", "p");
    let mut steps = vec![stmt(format!("CREATE (:{other} {{uid: 1, {p}: 'a'}})"), Info::Create { uid: 1, labels: vec![other.to_string()] })];
    steps.push(Step::CreateIndex(l.into(), p.into()));
    let mut uid = 1i64;
    for v in ["a", "m", "x", "m"] {
        uid += 1;
        steps.push(stmt(format!("CREATE (:{l} {{uid: {uid}, {p}: '{v}'}})"), Info::Create { uid, labels: vec![l.to_string()] }));
    }
    uid += 1;
    steps.push(stmt(format!("CREATE (:{l} {{uid: {uid}}})"), Info::Create { uid, labels: vec![l.to_string()] }));
    for _ in 0..1 + rng.below(2) {
        let r = rng.below(3) as i64;
        steps.push(stmt(format!("MATCH (n) WHERE n.uid % 3 = {r} SET n:{other}"), Info::AddLabel { label: other.to_string(), modulus: 3, rem: r }));
    }
    if rng.chance(1, 3) {
        steps.push(if rng.chance(1, 2) { Step::Compact } else { Step::Reopen });
    }
    for v in ["a", "m", "zz", "a"] {
        let r = rng.below(2) as i64;
        steps.push(stmt(format!("MATCH (n:{l}) WHERE n.uid % 2 = {r} SET n.{p} = '{v}'"), Info::SetProp { label: l.to_string(), prop: p.to_string(), modulus: 2, rem: r }));
        if rng.chance(1, 5) {
            steps.push(Step::Compact);
        }
    }
    (steps, (l.into(), p.into()), 1)
}

fn step_json(s: &Step) -> serde_json::Value {
    match s {
        Step::Stmt(q, _) => json!(if q.len() > 160 { format!("{} ... ({} characters)", &q[..120], q.len()) } else { q.clone() }),
        Step::CreateIndex(l, p) => json!(format!("create_index({l}, {p})")),
        Step::Compact => json!("compact"),
        Step::Reopen => json!("reopen"),
    }
}

fn queries(idx: &(String, String)) -> Vec<(String, bool)> {
    let (l, p) = idx;
    let other = if p == "p" { "q" } else { "p" };
    vec![
        (format!("MATCH (n:{l}) WHERE n.{p} = $v RETURN n.uid AS u"), true),
        (format!("MATCH (n:{l} {{{p}: $v}}) RETURN n.uid AS u"), true),
        (format!("MATCH (n:{l}) WHERE n.{p} = $v AND n.uid > 1 RETURN n.uid AS u"), true),
        (format!("MATCH (n:{l}) WHERE $v = n.{p} RETURN n.uid AS u"), true),
        (format!("MATCH (n:{l}) WHERE n.{p} = $v OR n.{other} = $v RETURN n.uid AS u"), true),
        (format!("MATCH (n:{l}) WHERE n.{p} = $v RETURN count(n) AS c"), true),
        (format!("MATCH (n:{l}) WHERE n.{p} IS NOT NULL RETURN n.uid AS u, n.{p} AS v"), false),
        (format!("MATCH (n:{l}) WHERE n.{p} > $v RETURN n.uid AS u"), true),
        (format!("MATCH (n) WHERE n.{p} = $v RETURN n.uid AS u"), true),
    ]
}

fn run_case(seed: u64, k: usize, out: &mut CaseOut) -> Option<Violation> {
    let (steps, idx, index_at) = gen_history(seed, k);
    let (da, db_) = (ScratchDir::new("c15a"), ScratchDir::new("c15b"));
    let (mut a, mut b) = match (Db::open(da.db_base()), Db::open(db_.db_base())) {
        (Ok(a), Ok(b)) => (a, b),
        _ => {
            out.inconclusive("open");
            return None;
        }
    };
    let params = Params::new();
    let pool = value_pool();
    let mut indexed = false;
    let mut data_before_index = false;
    let mut deleted_indexed = false;
    out.count("history_pairs", 1);
    for (i, st) in steps.iter().enumerate() {
        match st {
            Step::Stmt(q, _) => {
                let (ra, rb) = (run_write(&a, q, &params), run_write(&b, q, &params));
                match (&ra, &rb) {
                    (Ok((_, na)), Ok((_, nb))) => {
                        if na != nb {
                            return Some(viol(seed, k, "statement-change-count-differs", format!("{q}: {na} changes with the index, {nb} without"), &steps, i, &idx, json!({})));
                        }
                        if q.contains("DELETE") && indexed && *na > 0 {
                            deleted_indexed = true;
                        }
                    }
                    (Err(QErr::Panic(m)), Ok(_)) => return Some(viol(seed, k, "statement-panics-with-index-only", format!("{q} panicked on the indexed database: {m}"), &steps, i, &idx, json!({}))),
                    (Err(e), Ok(_)) => return Some(viol(seed, k, "statement-fails-with-index-only", format!("{q} failed on the indexed database only: {e}"), &steps, i, &idx, json!({}))),
                    (Ok(_), Err(e)) => {
                        out.inconclusive(&format!("statement-fails-without-index-only:{}", crate::storemon::normalise_msg(&e.to_string())));
                        return None;
                    }
                    (Err(_), Err(_)) => {
                        out.inconclusive("statement-fails-on-both");
                        return None;
                    }
                }
                if !indexed && q.starts_with("CREATE") {
                    data_before_index = true;
                }
            }
            Step::CreateIndex(l, p) => {
                if let Err(e) = a.create_index(l, p) {
                    return Some(viol(seed, k, "create-index-failed", format!("create_index failed: {e}"), &steps, i, &idx, json!({})));
                }
                indexed = true;
                if data_before_index {
                    out.count("index_created_after_data", 1);
                }
            }
            Step::Compact => {
                if a.compact().is_err() || b.compact().is_err() {
                    out.inconclusive("compact");
                    return None;
                }
            }
            Step::Reopen => {
                drop(a);
                drop(b);
                match (Db::open(da.db_base()), Db::open(db_.db_base())) {
                    (Ok(x), Ok(y)) => {
                        a = x;
                        b = y;
                    }
                    _ => {
                        out.inconclusive("reopen");
                        return None;
                    }
                }
            }
        }
        // compare the generated queries after every step
        for (q, needs_v) in queries(&idx) {
            let vals: Vec<Option<&Value>> = if needs_v { pool.iter().map(Some).collect() } else { vec![None] };
            for v in vals {
                let mut ps = Params::new();
                if let Some(v) = v {
                    ps.insert("v", v.clone());
                }
                let (ra, rb) = (run_read(&a, &q, &ps, false), run_read(&b, &q, &ps, false));
                out.evaluations += 1;
                out.count("query_pairs", 1);
                if indexed {
                    out.count("query_pairs_with_index_present", 1);
                }
                match (ra, rb) {
                    (Ok(x), Ok(y)) => {
                        let (x, y) = (sorted(canon_rows(&x, false)), sorted(canon_rows(&y, false)));
                        if !y.is_empty() {
                            out.count("query_pairs_with_rows", 1);
                        }
                        if x != y {
                            let vk = v.map(super::kind).unwrap_or("-");
                            let dir = if x.len() < y.len() { "rows-missing-with-index" } else if x.len() > y.len() { "extra-rows-with-index" } else { "rows-differ" };
                            let cause = classify(&steps[..=i], &idx, &x, &y, v, &b);
                            return Some(viol(
                                seed,
                                k,
                                &format!("{dir}:{vk}:{cause}"),
                                format!("{q} with v = {} returns {x:?} with the index and {y:?} without", v.map(|v| crate::common::cypher::canon_value(v, false)).unwrap_or_default()),
                                &steps,
                                i,
                                &idx,
                                json!({"query": q, "index_created_at_step": index_at, "data_existed_before_index": data_before_index}),
                            ));
                        }
                    }
                    (Err(QErr::Panic(m)), _) => return Some(viol(seed, k, "query-panics-with-index", format!("{q} panicked on the indexed database: {m}"), &steps, i, &idx, json!({}))),
                    (Err(e), Ok(_)) => return Some(viol(seed, k, "query-fails-with-index-only", format!("{q} fails only with the index: {e}"), &steps, i, &idx, json!({}))),
                    (Ok(_), Err(e)) => return Some(viol(seed, k, "query-fails-without-index-only", format!("{q} fails only without the index: {e}"), &steps, i, &idx, json!({}))),
                    (Err(_), Err(_)) => out.inconclusive("query-fails-on-both"),
                }
            }
        }
    }
    if deleted_indexed {
        out.count("pairs_with_deleted_indexed_nodes", 1);
    }
    out.cell(format!("index-at={}:before-data={}", (index_at * 4) / steps.len().max(1), data_before_index));
    None
}

/// Cause class of a row disagreement, from the history of the first node (uid) the two results
/// disagree on. "-" = none of the recorded patterns.
fn classify(steps: &[Step], idx: &(String, String), with_index: &[String], without: &[String], v: Option<&Value>, reference: &Db) -> String {
    let uid_of = |row: &String| row.split(" | ").next().and_then(|c| c.strip_prefix("i:")).and_then(|n| n.parse::<i64>().ok());
    let missing: Vec<i64> = without.iter().filter(|r| !with_index.contains(r)).filter_map(uid_of).collect();
    let extra: Vec<i64> = with_index.iter().filter(|r| !without.contains(r)).filter_map(uid_of).collect();
    let (uid, is_missing) = match (missing.first(), extra.first()) {
        (Some(u), _) => (*u, true),
        (None, Some(u)) => (*u, false),
        _ => return "-".into(),
    };
    let (il, ip) = idx;
    let index_pos = steps.iter().position(|s| matches!(s, Step::CreateIndex(..)));
    let mut created_at = None;
    let mut first_label = String::new();
    let mut label_added_later = false;
    let mut label_removed = false;
    let mut prop_set_after_index = false;
    let mut maybe_deleted = false;
    let mut maybe_prop_removed = false;
    let compacted = steps.iter().any(|s| matches!(s, Step::Compact));
    // the labels the node carries while the history runs: a statement that names a label only
    // touches the node if it carries that label at that moment
    let mut labels_now: std::collections::BTreeSet<String> = Default::default();
    for (i, s) in steps.iter().enumerate() {
        if let Step::Stmt(_, info) = s {
            match info {
                Info::Create { uid: u, labels } if *u == uid => {
                    created_at = Some(i);
                    first_label = labels[0].clone();
                    labels_now = labels.iter().cloned().collect();
                }
                Info::AddLabel { label, modulus, rem } if uid % modulus == *rem && created_at.is_some() => {
                    if label == il && first_label != *il {
                        label_added_later = true;
                    }
                    labels_now.insert(label.clone());
                }
                Info::RemoveLabel { label, modulus, rem } if uid % modulus == *rem && created_at.is_some() && labels_now.contains(label) => {
                    if label == il {
                        label_removed = true;
                    }
                    labels_now.remove(label);
                }
                Info::Delete { label, modulus, rem } if uid % modulus == *rem && created_at.is_some() && labels_now.contains(label) => maybe_deleted = true,
                Info::RemoveProp { label, prop, modulus, rem } if prop == ip && uid % modulus == *rem && created_at.is_some() && labels_now.contains(label) => maybe_prop_removed = true,
                Info::SetProp { label, prop, modulus, rem } if prop == ip && uid % modulus == *rem && labels_now.contains(label) && index_pos.map(|p| i > p).unwrap_or(false) => prop_set_after_index = true,
                _ => {}
            }
        }
    }
    // stored value of the node in the reference database: numeric kind differs from the probe?
    let stored = run_read(reference, &format!("MATCH (n {{uid: {uid}}}) RETURN n.{ip} AS v"), &Params::new(), false).ok().and_then(|r| r.into_iter().next()).and_then(|r| r.into_iter().next()).map(|(_, v)| v);
    let cross_numeric = matches!((&stored, v), (Some(Value::Int(_)), Some(Value::Float(_))) | (Some(Value::Float(_)), Some(Value::Int(_))));
    if is_missing {
        if cross_numeric {
            return "stored-and-probe-differ-in-int-vs-float".into();
        }
        if first_label != *il {
            return if label_added_later { "indexed-label-added-after-creation".into() } else { "indexed-label-is-not-the-first-label".into() };
        }
        if let (Some(c), Some(p)) = (created_at, index_pos)
            && c < p
            && !prop_set_after_index
        {
            return "node-existed-before-the-index".into();
        }
        // the scan (no index) returns a node that the history deleted, or matches a property the
        // history removed, and a compaction ran: compaction brings both back (recorded under C05);
        // the indexed lookup is the one that is right here
        if compacted && maybe_deleted {
            return "deleted-node-visible-to-the-scan-after-compaction".into();
        }
        if compacted && maybe_prop_removed {
            return "removed-property-visible-to-the-scan-after-compaction".into();
        }
        "-".into()
    } else {
        if label_removed {
            return "indexed-label-was-removed".into();
        }
        // the reference database no longer has the node at all
        let gone = run_read(reference, &format!("MATCH (n {{uid: {uid}}}) RETURN count(n) AS c"), &Params::new(), false)
            .ok()
            .and_then(|r| r.into_iter().next())
            .and_then(|r| r.into_iter().next())
            .map(|(_, v)| matches!(v, Value::Int(0)))
            .unwrap_or(false);
        if maybe_deleted && gone {
            return "indexed-node-was-deleted".into();
        }
        "-".into()
    }
}

fn viol(seed: u64, k: usize, kind: &str, what: String, steps: &[Step], upto: usize, idx: &(String, String), extra: serde_json::Value) -> Violation {
    let ctx = "";
    Violation {
        signature: format!("C15|{kind}{ctx}"),
        summary: what,
        detail: json!({"index": format!("{}({})", idx.0, idx.1), "steps": steps[..=upto.min(steps.len() - 1)].iter().map(step_json).collect::<Vec<_>>(), "extra": extra}),
        replay: json!({"engine":"cyphermon","property":"C15","seed":seed,"case":k}),
    }
}

pub fn main(args: &Args) -> Report {
    let mut rep = Report::new(
        "C15",
        &args.tier,
        args.seed,
        "exploration",
        "generated statement histories (CREATE with duplicated values and one or two labels, SET/REMOVE property, SET/REMOVE label, DETACH DELETE, SET = null, compaction, reopen) executed on two databases; one gets create_index(label, property) at a generated position; after every step 9 query shapes (WHERE n.p = $v, inline {p: $v}, conjunction, reversed operands, OR, count, IS NOT NULL, >, unlabelled) x 15 values (1 vs 1.0, +-0.0, 2^53 neighbours, strings, booleans, list) must return the same row multisets, and every statement must report the same change count. A cell is (index position, data before index)",
    );
    rep.assume("node identities are compared through a uid property, so id assignment does not matter");
    if let Some(p) = &args.replay {
        let j: serde_json::Value = serde_json::from_str(&std::fs::read_to_string(p).expect("read replay")).expect("json");
        let mut out = CaseOut::default();
        if let Some(v) = run_case(j["seed"].as_u64().unwrap(), j["case"].as_u64().unwrap() as usize, &mut out) {
            out.violations.push(v);
        }
        rep.out = out;
        return rep;
    }
    let n = if args.thorough() { 20_000 } else { 800 };
    let deadline = Instant::now() + Duration::from_secs(args.budget_s(120, 1200));
    let seed = args.seed;
    let (mut out, _) = par_cases(n, threads(), Some(deadline), |k| {
        let mut out = CaseOut::default();
        if let Some(v) = run_case(seed, k, &mut out) {
            out.violations.push(v);
        }
        if k < 2 {
            let (steps, idx, _) = gen_history(seed, k);
            out.samples.push(json!({"index": format!("{}({})", idx.0, idx.1), "steps": steps.iter().map(step_json).collect::<Vec<_>>()}));
        }
        out
    });
    let mut seen = std::collections::BTreeMap::<String, usize>::new();
    out.violations.retain(|v| {
        let c = seen.entry(v.signature.clone()).or_default();
        *c += 1;
        *c <= 3
    });
    rep.out = out;
    let t = args.thorough();
    rep.floor("history pairs", rep.counter("history_pairs"), if t { 3000 } else { 250 });
    rep.floor("query pairs", rep.counter("query_pairs"), if t { 1_000_000 } else { 50_000 });
    rep.floor("index created after data", rep.counter("index_created_after_data"), if t { 1000 } else { 80 });
    rep
}
