//! C12 generator and monitor: random sequences of update statements on random graphs, each one
//! executed by the engine (execute_mixed on one database, execute_write on a twin) and by the
//! reference model (updates_model.rs), the whole content compared after every statement.

use super::graph::{Graph, GraphCfg, LABELS, TYPES, gen_graph, graph_json, load};
use super::reference::{Clause, Dir, Expr, NodePat, PathPat, Projection, RelPat, V};
use super::stmts::uid_view;
use super::updates::{CNode, CPath, CRel, RemoveItem, SetItem, UClause, UStmt, render_stmt, stmt_kinds, stmt_params, v_to_value};
use super::updates_model::{Effects, ModelErr, apply, model_view};
use crate::common::cypher::{QErr, run_read, run_write};
use crate::common::model::{Facts, diff_facts};
use crate::common::report::{Args, CaseOut, Report, Violation, par_cases, threads};
use crate::common::rng::Rng;
use crate::common::sut::ScratchDir;
use crate::storemon::normalise_msg;
use ndb_core::Db;
use ndb_core::query::{Params, Value, prepare};
use serde_json::json;
use std::collections::BTreeMap;
use std::time::{Duration, Instant};

// keys the update clauses write, with the kind of value they hold
const WRITE_KEYS: [(&str, u8); 5] = [("w", 0), ("x", 1), ("tag", 2), ("k", 0), ("name", 2)];
// keys update expressions may read (a statement never reads what it writes)
const READ_KEYS: [&str; 2] = ["n", "uid"];

struct G<'a> {
    rng: &'a mut Rng,
    g: &'a Graph,
    next_uid: &'a mut i64,
    pcount: usize,
    /// expressions may read properties of matched variables (off when the statement replaces maps)
    may_read: bool,
}

impl G<'_> {
    fn fresh(&mut self, n: i64) -> i64 {
        let b = *self.next_uid;
        *self.next_uid += n;
        b
    }

    fn some_uid(&mut self) -> i64 {
        if self.g.nodes.is_empty() || self.rng.chance(1, 10) { 9_999 } else { self.g.nodes[self.rng.below(self.g.nodes.len())].uid }
    }

    fn label(&mut self) -> String {
        self.rng.pick(&LABELS).to_string()
    }

    fn labels(&mut self, max: usize) -> Vec<String> {
        let n = self.rng.below(max + 1);
        let mut out: Vec<String> = Vec::new();
        while out.len() < n {
            let l = self.label();
            if !out.contains(&l) {
                out.push(l);
            }
        }
        out
    }

    fn param(&mut self, v: V) -> Expr {
        self.pcount += 1;
        Expr::Param(format!("p{}", self.pcount), v)
    }

    /// A value for a written key. `reads`: variables whose read keys may be used; `ints`: integer
    /// variables in scope (UNWIND / FOREACH).
    fn value(&mut self, kind: u8, reads: &[String], ints: &[String]) -> Expr {
        if self.rng.chance(1, 7) {
            return Expr::Lit(V::Null);
        }
        let lit = match kind {
            0 => V::Int(self.rng.range(-3, 50)),
            1 => V::Float(*self.rng.pick(&[0.5, -1.25, 2.0, 0.0, 1e10])),
            _ => V::Str(self.rng.pick(&["a", "zz", "", "Bob", "ż", "it s"]).to_string()),
        };
        match self.rng.below(8) {
            0 => self.param(lit),
            1 if kind == 0 && !ints.is_empty() => {
                let v = self.rng.pick(ints).clone();
                Expr::Bin("+", Box::new(Expr::Bin("*", Box::new(Expr::Var(v)), Box::new(Expr::Lit(V::Int(2))))), Box::new(Expr::Lit(V::Int(1))))
            }
            2 if kind == 0 && !ints.is_empty() => Expr::Var(self.rng.pick(ints).clone()),
            3 if kind == 0 && self.may_read && !reads.is_empty() => {
                let v = self.rng.pick(reads).clone();
                let k = *self.rng.pick(&READ_KEYS);
                Expr::Bin("+", Box::new(Expr::Func("coalesce", vec![Expr::Prop(v, k.to_string()), Expr::Lit(V::Int(0))])), Box::new(Expr::Lit(V::Int(1))))
            }
            4 if kind == 2 && self.may_read && !reads.is_empty() => {
                let v = self.rng.pick(reads).clone();
                Expr::Func("toString", vec![Expr::Prop(v, "uid".into())])
            }
            5 if kind == 0 => {
                // a list property
                Expr::ListLit((0..self.rng.below(3) + 1).map(|_| Expr::Lit(V::Int(self.rng.range(0, 5)))).collect())
            }
            _ => Expr::Lit(lit),
        }
    }

    fn write_key(&mut self) -> (&'static str, u8) {
        *self.rng.pick(&WRITE_KEYS)
    }

    fn written_props(&mut self, n: usize, reads: &[String], ints: &[String]) -> Vec<(String, Expr)> {
        let mut out: Vec<(String, Expr)> = Vec::new();
        for _ in 0..n {
            let (k, kind) = self.write_key();
            if out.iter().any(|(x, _)| x == k) {
                continue;
            }
            let e = self.value(kind, reads, ints);
            out.push((k.to_string(), e));
        }
        out
    }

    /// MATCH of one node variable: by uid, by label, or all nodes; sometimes with a WHERE.
    fn match_node(&mut self, var: &str) -> Clause {
        let mut pat = NodePat { var: Some(var.to_string()), labels: vec![], props: vec![] };
        match self.rng.below(5) {
            0 | 1 => pat.props.push(("uid".into(), V::Int(self.some_uid()))),
            2 => pat.labels.push(self.label()),
            3 => {
                pat.labels.push(self.label());
                pat.props.push(("k".into(), V::Int(self.rng.range(0, 4))));
            }
            _ => {}
        }
        let where_ = match self.rng.below(6) {
            0 => Some(Expr::Bin(">", Box::new(Expr::Prop(var.into(), "k".into())), Box::new(Expr::Lit(V::Int(1))))),
            1 => Some(Expr::IsNull(Box::new(Expr::Prop(var.into(), "name".into())), false)),
            2 => Some(Expr::IsNull(Box::new(Expr::Prop(var.into(), "w".into())), true)),
            _ => None,
        };
        Clause::Match { optional: false, patterns: vec![PathPat { nodes: vec![pat], rels: vec![] }], where_ }
    }

    fn match_two(&mut self) -> Clause {
        let a = NodePat { var: Some("a".into()), labels: vec![], props: vec![("uid".into(), V::Int(self.some_uid()))] };
        let b = NodePat { var: Some("b".into()), labels: vec![], props: vec![("uid".into(), V::Int(self.some_uid()))] };
        Clause::Match { optional: false, patterns: vec![PathPat { nodes: vec![a], rels: vec![] }, PathPat { nodes: vec![b], rels: vec![] }], where_: None }
    }

    fn match_rel(&mut self) -> Clause {
        let types = if self.rng.chance(2, 3) { vec![self.rng.pick(&TYPES).to_string()] } else { vec![] };
        let mut a = NodePat { var: Some("a".into()), labels: vec![], props: vec![] };
        let b = NodePat { var: Some("b".into()), labels: vec![], props: vec![] };
        if self.rng.chance(1, 3) {
            a.props.push(("uid".into(), V::Int(self.some_uid())));
        }
        let where_ = if self.rng.chance(1, 5) { Some(Expr::IsNull(Box::new(Expr::Prop("r".into(), "k".into())), true)) } else { None };
        Clause::Match { optional: false, patterns: vec![PathPat { nodes: vec![a, b], rels: vec![RelPat { var: Some("r".into()), types, dir: Dir::Out, varlen: None }] }], where_ }
    }

    fn unwind(&mut self, var: &str, allow_null: bool) -> Clause {
        let n = 1 + self.rng.below(3);
        let mut items: Vec<V> = (0..n).map(|i| V::Int(i as i64 + 1)).collect();
        if self.rng.chance(1, 3) {
            // a repeated element: the second row meets what the first row did
            items.push(V::Int(1));
        }
        if allow_null && self.rng.chance(1, 6) {
            items.push(V::Null);
        }
        let expr = if self.rng.chance(1, 4) { self.param(V::List(items)) } else { Expr::ListLit(items.into_iter().map(Expr::Lit).collect()) };
        Clause::Unwind { expr, var: var.to_string() }
    }

    fn new_node(&mut self, var: Option<&str>, uid: Expr, ints: &[String]) -> CNode {
        let mut props = vec![("uid".to_string(), uid)];
        let n = self.rng.below(3);
        props.extend(self.written_props(n, &[], ints));
        CNode { var: var.map(|s| s.to_string()), labels: self.labels(2), props }
    }

    fn bound(var: &str) -> CNode {
        CNode { var: Some(var.to_string()), labels: vec![], props: vec![] }
    }

    fn rel(&mut self, var: Option<&str>, with_props: bool, reads: &[String], ints: &[String]) -> CRel {
        let props = if with_props && self.rng.chance(1, 2) {
            let (k, kind) = *self.rng.pick(&[("k", 0u8), ("name", 2u8)]);
            vec![(k.to_string(), self.value(kind, reads, ints))]
        } else {
            vec![]
        };
        CRel { var: var.map(|s| s.to_string()), typ: self.rng.pick(&TYPES).to_string(), props, dir: if self.rng.chance(1, 4) { 1 } else { 0 } }
    }

    fn uid_plus(base: i64, var: &str) -> Expr {
        Expr::Bin("+", Box::new(Expr::Lit(V::Int(base))), Box::new(Expr::Var(var.to_string())))
    }

    fn set_items(&mut self, var: &str, reads: &[String], ints: &[String]) -> Vec<SetItem> {
        let n = 1 + self.rng.below(2);
        self.written_props(n, reads, ints).into_iter().map(|(k, e)| SetItem::Prop(var.to_string(), k, e)).collect()
    }

    pub fn statement(&mut self) -> (String, UStmt) {
        let x = vec!["x".to_string()];
        let none: Vec<String> = vec![];
        let pick = self.rng.below(34);
        let mut s = UStmt { prefix: vec![], updates: vec![], ret_count: self.rng.chance(1, 4) };
        let fam: &str;
        match pick {
            0 | 1 => {
                fam = "create-nodes";
                if self.rng.chance(1, 2) {
                    s.prefix.push(self.unwind("x", false));
                    let base = self.fresh(10) ;
                    let n = self.new_node(Some("m"), Self::uid_plus(base, "x"), &x);
                    s.updates.push(UClause::Create(vec![CPath { nodes: vec![n], rels: vec![] }]));
                } else {
                    let u = self.fresh(1);
                    let uid = if self.rng.chance(1, 3) { self.param(V::Int(u)) } else { Expr::Lit(V::Int(u)) };
                    let n = self.new_node(None, uid, &none);
                    s.updates.push(UClause::Create(vec![CPath { nodes: vec![n], rels: vec![] }]));
                }
            }
            2 | 3 => {
                fam = "create-path";
                let len = 1 + self.rng.below(2);
                let mut nodes = Vec::new();
                let mut rels = Vec::new();
                for i in 0..=len {
                    let u = self.fresh(1);
                    nodes.push(self.new_node(if i == 0 { Some("a") } else { None }, Expr::Lit(V::Int(u)), &none));
                    if i < len {
                        rels.push(self.rel(None, true, &none, &none));
                    }
                }
                let mut paths = vec![CPath { nodes, rels }];
                if self.rng.chance(1, 3) {
                    // a second path reusing the variable bound by the first
                    let u = self.fresh(1);
                    let m = self.new_node(None, Expr::Lit(V::Int(u)), &none);
                    let r = self.rel(None, false, &none, &none);
                    paths.push(CPath { nodes: vec![Self::bound("a"), m], rels: vec![r] });
                }
                s.updates.push(UClause::Create(paths));
            }
            4 | 5 => {
                fam = "create-rel-between-matched";
                s.prefix.push(self.match_two());
                let ab = vec!["a".to_string(), "b".to_string()];
                let r = self.rel(Some("r"), true, &ab, &none);
                s.updates.push(UClause::Create(vec![CPath { nodes: vec![Self::bound("a"), Self::bound("b")], rels: vec![r] }]));
            }
            6 => {
                fam = "create-attached-to-matched";
                s.prefix.push(self.match_node("a"));
                let base = self.fresh(0);
                *self.next_uid += 1000;
                let uid = Expr::Bin("+", Box::new(Expr::Lit(V::Int(base))), Box::new(Expr::Prop("a".into(), "uid".into())));
                let m = self.new_node(None, uid, &none);
                let r = self.rel(None, true, &["a".to_string()], &none);
                s.updates.push(UClause::Create(vec![CPath { nodes: vec![Self::bound("a"), m], rels: vec![r] }]));
            }
            7 | 8 | 9 => {
                fam = "set-property";
                s.prefix.push(self.match_node("n"));
                let items = self.set_items("n", &["n".to_string()], &none);
                s.updates.push(UClause::Set(items));
            }
            10 => {
                fam = "set-relationship-property";
                s.prefix.push(self.match_rel());
                let (k, kind) = *self.rng.pick(&[("k", 0u8), ("name", 2u8), ("w", 0u8)]);
                let e = self.value(kind, &["a".to_string()], &none);
                s.updates.push(UClause::Set(vec![SetItem::Prop("r".into(), k.into(), e)]));
            }
            11 | 12 => {
                fam = "set-merge-map";
                s.prefix.push(self.match_node("n"));
                let n = 1 + self.rng.below(3);
                let m = self.written_props(n, &["n".to_string()], &none);
                if self.rng.chance(1, 3) {
                    let vals: BTreeMap<String, V> = m.iter().map(|(k, _)| (k.clone(), if self.rng.chance(1, 4) { V::Null } else { V::Int(self.rng.range(0, 9)) })).collect();
                    self.pcount += 1;
                    s.updates.push(UClause::Set(vec![SetItem::MapParam("n".into(), true, format!("p{}", self.pcount), vals)]));
                } else {
                    s.updates.push(UClause::Set(vec![SetItem::MapMerge("n".into(), m)]));
                }
            }
            13 | 14 => {
                fam = "set-replace-map";
                self.may_read = false;
                if self.rng.chance(1, 3) {
                    let u = self.some_uid();
                    s.prefix.push(Clause::Match { optional: false, patterns: vec![PathPat { nodes: vec![NodePat { var: Some("n".into()), labels: vec![], props: vec![("uid".into(), V::Int(u))] }], rels: vec![] }], where_: None });
                    let mut vals: BTreeMap<String, V> = BTreeMap::new();
                    vals.insert("uid".into(), V::Int(u));
                    if self.rng.chance(2, 3) {
                        vals.insert("w".into(), V::Int(7));
                    }
                    if self.rng.chance(1, 3) {
                        vals.insert("tag".into(), V::Null);
                    }
                    self.pcount += 1;
                    s.updates.push(UClause::Set(vec![SetItem::MapParam("n".into(), false, format!("p{}", self.pcount), vals)]));
                } else {
                    s.prefix.push(self.match_node("n"));
                    let mut m = vec![("uid".to_string(), Expr::Prop("n".into(), "uid".into()))];
                    let n = self.rng.below(3);
                    m.extend(self.written_props(n, &none, &none));
                    s.updates.push(UClause::Set(vec![SetItem::MapReplace("n".into(), m)]));
                }
            }
            15 => {
                fam = "set-labels";
                s.prefix.push(self.match_node("n"));
                let mut ls = self.labels(2);
                if ls.is_empty() {
                    ls.push(self.label());
                }
                s.updates.push(UClause::Set(vec![SetItem::Labels("n".into(), ls)]));
            }
            16 => {
                fam = "remove-labels";
                s.prefix.push(self.match_node("n"));
                let mut ls = self.labels(2);
                if ls.is_empty() {
                    ls.push(self.label());
                }
                s.updates.push(UClause::Remove(vec![RemoveItem::Labels("n".into(), ls)]));
            }
            17 | 18 => {
                fam = "remove-property";
                if self.rng.chance(1, 4) {
                    s.prefix.push(self.match_rel());
                    s.updates.push(UClause::Remove(vec![RemoveItem::Prop("r".into(), self.rng.pick(&["k", "name"]).to_string())]));
                } else {
                    s.prefix.push(self.match_node("n"));
                    let mut items = vec![RemoveItem::Prop("n".into(), self.rng.pick(&["k", "name", "v", "flag", "w", "tag"]).to_string())];
                    if self.rng.chance(1, 3) {
                        items.push(RemoveItem::Prop("n".into(), self.rng.pick(&["n", "x"]).to_string()));
                    }
                    s.updates.push(UClause::Remove(items));
                }
            }
            19 => {
                fam = "delete-relationship";
                s.prefix.push(self.match_rel());
                s.updates.push(UClause::Delete { detach: false, vars: vec!["r".into()] });
            }
            20 => {
                fam = "detach-delete";
                s.prefix.push(self.match_node("n"));
                s.updates.push(UClause::Delete { detach: true, vars: vec!["n".into()] });
            }
            21 => {
                fam = "delete-node";
                if self.rng.chance(1, 2) {
                    s.prefix.push(self.match_node("n"));
                    s.updates.push(UClause::Delete { detach: false, vars: vec!["n".into()] });
                } else {
                    // relationship first, then its end node: fine unless the node has other relationships
                    s.prefix.push(self.match_rel());
                    s.updates.push(UClause::Delete { detach: false, vars: vec!["r".into(), "b".into()] });
                }
            }
            22 | 23 => {
                fam = "merge-node";
                let ints: Vec<String>;
                let uid = if self.rng.chance(1, 2) {
                    s.prefix.push(self.unwind("x", false));
                    ints = x.clone();
                    let base = if self.rng.chance(1, 2) { self.fresh(10) } else { 0 };
                    Self::uid_plus(base, "x")
                } else {
                    ints = vec![];
                    let u = if self.rng.chance(1, 2) { self.some_uid() } else { self.fresh(1) };
                    Expr::Lit(V::Int(u))
                };
                let mut props = vec![("uid".to_string(), uid)];
                if self.rng.chance(1, 4) {
                    props.push(("k".into(), Expr::Lit(V::Int(self.rng.range(0, 4)))));
                }
                let labels = if self.rng.chance(3, 4) { vec![self.label()] } else { vec![] };
                // what MERGE sets never touches the keys of its own pattern (whether a later row
                // still matches a node whose pattern property was rewritten is not decided here)
                let not_k = |items: Vec<SetItem>| -> Vec<SetItem> { items.into_iter().filter(|i| !matches!(i, SetItem::Prop(_, k, _) if k == "k")).collect() };
                let on_create = if self.rng.chance(1, 2) { not_k(self.set_items("m", &none, &ints)) } else { vec![] };
                let on_match = if self.rng.chance(1, 2) { not_k(self.set_items("m", &none, &ints)) } else { vec![] };
                s.updates.push(UClause::Merge { path: CPath { nodes: vec![CNode { var: Some("m".into()), labels, props }], rels: vec![] }, on_create, on_match });
                if self.rng.chance(1, 4) {
                    let items = not_k(self.set_items("m", &none, &ints));
                    if !items.is_empty() {
                        s.updates.push(UClause::Set(items));
                    }
                }
            }
            24 | 25 => {
                fam = "merge-relationship";
                s.prefix.push(self.match_two());
                let mut r = self.rel(Some("r"), false, &none, &none);
                if self.rng.chance(1, 4) {
                    r.dir = 2;
                }
                let on_create = if self.rng.chance(1, 2) { vec![SetItem::Prop("r".into(), "k".into(), Expr::Lit(V::Int(1)))] } else { vec![] };
                let on_match = if self.rng.chance(1, 2) { vec![SetItem::Prop("r".into(), "name".into(), Expr::Lit(V::Str("seen".into())))] } else { vec![] };
                s.updates.push(UClause::Merge { path: CPath { nodes: vec![Self::bound("a"), Self::bound("b")], rels: vec![r] }, on_create, on_match });
            }
            26 => {
                fam = "foreach";
                if self.rng.chance(1, 2) {
                    s.prefix.push(self.match_node("n"));
                    let list = Expr::ListLit((0..self.rng.below(3)).map(|i| Expr::Lit(V::Int(i as i64 + 1))).collect());
                    s.updates.push(UClause::Foreach { var: "i".into(), list, body: vec![UClause::Set(vec![SetItem::Prop("n".into(), "w".into(), Expr::Var("i".into()))])] });
                } else {
                    let base = self.fresh(10);
                    let i = vec!["i".to_string()];
                    let n = self.new_node(None, Self::uid_plus(base, "i"), &i);
                    s.updates.push(UClause::Foreach { var: "i".into(), list: Expr::ListLit(vec![Expr::Lit(V::Int(1)), Expr::Lit(V::Int(2)), Expr::Lit(V::Int(3))]), body: vec![UClause::Create(vec![CPath { nodes: vec![n], rels: vec![] }])] });
                }
            }
            27 => {
                fam = "optional-null";
                let missing = NodePat { var: Some("n".into()), labels: vec![self.label()], props: vec![("uid".into(), V::Int(777_777))] };
                s.prefix.push(Clause::Match { optional: true, patterns: vec![PathPat { nodes: vec![missing], rels: vec![] }], where_: None });
                s.updates.push(match self.rng.below(5) {
                    0 => UClause::Set(vec![SetItem::Prop("n".into(), "w".into(), Expr::Lit(V::Int(1)))]),
                    1 => UClause::Remove(vec![RemoveItem::Prop("n".into(), "k".into())]),
                    2 => UClause::Delete { detach: false, vars: vec!["n".into()] },
                    3 => UClause::Delete { detach: true, vars: vec!["n".into()] },
                    _ => {
                        let u = self.fresh(1);
                        let m = self.new_node(None, Expr::Lit(V::Int(u)), &none);
                        let r = self.rel(None, false, &none, &none);
                        UClause::Create(vec![CPath { nodes: vec![Self::bound("n"), m], rels: vec![r] }])
                    }
                });
            }
            30 | 31 => {
                // the same key written more than once by one statement, nulls included: the last
                // write wins, whether or not the key existed when the statement started
                fam = "set-from-unwind-with-nulls";
                let mut items: Vec<Expr> = (0..1 + self.rng.below(3)).map(|_| if self.rng.chance(1, 3) { Expr::Lit(V::Null) } else { Expr::Lit(V::Int(self.rng.range(1, 9))) }).collect();
                if self.rng.chance(1, 2) {
                    items.push(Expr::Lit(V::Null));
                }
                let list = if self.rng.chance(1, 3) {
                    let vals: Vec<V> = items.iter().map(|e| if let Expr::Lit(v) = e { v.clone() } else { V::Null }).collect();
                    self.param(V::List(vals))
                } else {
                    Expr::ListLit(items)
                };
                s.prefix.push(Clause::Unwind { expr: list, var: "x".into() });
                let key = self.rng.pick(&["w", "k", "fresh"]).to_string();
                if self.rng.chance(1, 4) {
                    s.prefix.push(self.match_rel());
                    s.updates.push(UClause::Set(vec![SetItem::Prop("r".into(), key, Expr::Var("x".into()))]));
                } else {
                    s.prefix.push(self.match_node("n"));
                    s.updates.push(UClause::Set(vec![SetItem::Prop("n".into(), key, Expr::Var("x".into()))]));
                }
            }
            32 | 33 => {
                fam = "same-key-written-twice";
                s.prefix.push(self.match_node("n"));
                let key = self.rng.pick(&["w", "k", "fresh"]).to_string();
                let v = |g: &mut Self| if g.rng.chance(1, 2) { Expr::Lit(V::Null) } else { Expr::Lit(V::Int(g.rng.range(1, 9))) };
                let (a, b) = (v(self), v(self));
                match self.rng.below(5) {
                    0 => {
                        s.updates.push(UClause::Set(vec![SetItem::Prop("n".into(), key.clone(), a)]));
                        s.updates.push(UClause::Set(vec![SetItem::Prop("n".into(), key, b)]));
                    }
                    1 => s.updates.push(UClause::Set(vec![SetItem::Prop("n".into(), key.clone(), a), SetItem::Prop("n".into(), key, b)])),
                    2 => {
                        s.updates.push(UClause::Set(vec![SetItem::MapMerge("n".into(), vec![(key.clone(), a)])]));
                        s.updates.push(UClause::Set(vec![SetItem::Prop("n".into(), key, b)]));
                    }
                    3 => {
                        s.updates.push(UClause::Remove(vec![RemoveItem::Prop("n".into(), key.clone())]));
                        s.updates.push(UClause::Set(vec![SetItem::Prop("n".into(), key, b)]));
                    }
                    _ => {
                        s.updates.push(UClause::Set(vec![SetItem::Prop("n".into(), key.clone(), a)]));
                        s.updates.push(UClause::Remove(vec![RemoveItem::Prop("n".into(), key)]));
                    }
                }
            }
            28 => {
                fam = "several-clauses";
                match self.rng.below(3) {
                    0 => {
                        s.prefix.push(self.match_node("n"));
                        let items = self.set_items("n", &["n".to_string()], &none);
                        s.updates.push(UClause::Set(items));
                        s.updates.push(UClause::Remove(vec![RemoveItem::Prop("n".into(), self.rng.pick(&["v", "flag"]).to_string())]));
                    }
                    1 => {
                        let (u1, u2) = (self.fresh(1), self.fresh(1));
                        let a = self.new_node(Some("a"), Expr::Lit(V::Int(u1)), &none);
                        let b = self.new_node(Some("b"), Expr::Lit(V::Int(u2)), &none);
                        s.updates.push(UClause::Create(vec![CPath { nodes: vec![a], rels: vec![] }]));
                        let r = self.rel(None, true, &none, &none);
                        s.updates.push(UClause::Create(vec![CPath { nodes: vec![Self::bound("a"), b], rels: vec![r] }]));
                        if self.rng.chance(1, 2) {
                            s.updates.push(UClause::Set(vec![SetItem::Prop("b".into(), "w".into(), Expr::Lit(V::Int(5))), SetItem::Labels("a".into(), vec![self.label()])]));
                        }
                    }
                    _ => {
                        s.prefix.push(self.match_node("n"));
                        s.updates.push(UClause::Set(vec![SetItem::Labels("n".into(), vec!["A".into()])]));
                        s.updates.push(UClause::With(vec!["n".into()]));
                        s.updates.push(UClause::Set(vec![SetItem::Prop("n".into(), "tag".into(), Expr::Lit(V::Str("t".into())))]));
                    }
                }
            }
            _ => {
                fam = "with-prefix";
                if self.rng.chance(1, 2) {
                    s.prefix.push(self.match_node("n"));
                    s.prefix.push(Clause::With(Projection {
                        distinct: false,
                        items: vec![(Expr::Var("n".into()), "n".into()), (Expr::Prop("n".into(), "n".into()), "val".into())],
                        order: vec![],
                        skip: None,
                        limit: None,
                        where_: Some(Expr::IsNull(Box::new(Expr::Var("val".into())), true)),
                    }));
                    s.updates.push(UClause::Set(vec![SetItem::Prop("n".into(), "w".into(), Expr::Var("val".into()))]));
                } else {
                    let uids: Vec<V> = (0..3).map(|_| V::Int(self.some_uid())).collect();
                    let list = self.param(V::List(uids));
                    s.prefix.push(Clause::Unwind { expr: list, var: "x".into() });
                    s.prefix.push(Clause::Match { optional: false, patterns: vec![PathPat { nodes: vec![NodePat { var: Some("n".into()), labels: vec![], props: vec![] }], rels: vec![] }], where_: Some(Expr::Bin("=", Box::new(Expr::Prop("n".into(), "uid".into())), Box::new(Expr::Var("x".into())))) });
                    s.updates.push(UClause::Set(vec![SetItem::Prop("n".into(), "x".into(), Expr::Lit(V::Float(0.5)))]));
                }
            }
        }
        (fam.to_string(), s)
    }
}

/// One generated update statement as text and parameters (C34 runs these through the C API).
pub fn gen_update_statement(rng: &mut Rng, g: &Graph, next_uid: &mut i64) -> (String, String, BTreeMap<String, Value>) {
    let mut gen_ = G { rng, g, next_uid, pcount: 0, may_read: true };
    let (fam, stmt) = gen_.statement();
    let params = stmt_params(&stmt).iter().map(|(k, v)| (k.clone(), v_to_value(v))).collect();
    (fam, render_stmt(&stmt), params)
}

// ---------------------------------------------------------------------------------------------
// monitor
// ---------------------------------------------------------------------------------------------

fn to_params(m: &BTreeMap<String, V>) -> Params {
    let mut p = Params::new();
    for (k, v) in m {
        p.insert(k.clone(), v_to_value(v));
    }
    p
}

fn diff_cats(d: &[(String, String, String)]) -> String {
    let mut cats: Vec<String> = d
        .iter()
        .map(|(k, a, b)| {
            let kind = k.split('/').nth(1).unwrap_or("?");
            let what = if a.is_empty() || a == "-" { "extra" } else if b.is_empty() || b == "-" { "missing" } else { "count" };
            format!("{kind}:{what}")
        })
        .collect();
    cats.sort();
    cats.dedup();
    cats.join(",")
}

fn count_entities(f: &Facts) -> (u64, u64) {
    let mut n = 0;
    let mut r = 0;
    for (k, v) in f {
        let c: u64 = v.parse().unwrap_or(0);
        if k.starts_with("q/node/") {
            n += c;
        } else if k.starts_with("q/rel/") {
            r += c;
        }
    }
    (n, r)
}

fn unsupported(msg: &str) -> bool {
    let m = msg.to_lowercase();
    m.contains("not implemented") || m.contains("not supported") || m.contains("unsupported")
}

/// execute_write on the twin database (the other write path of the query crate).
fn run_execute_write(db: &Db, q: &str, params: &Params) -> Result<u32, QErr> {
    let r = std::panic::catch_unwind(std::panic::AssertUnwindSafe(|| {
        let prepared = prepare(q).map_err(|e| QErr::Compile(e.to_string()))?;
        let mut txn = db.begin_write();
        let snap = db.snapshot();
        let n = prepared.execute_write(&snap, &mut txn, params).map_err(|e| QErr::Runtime(e.to_string()))?;
        txn.commit().map_err(|e| QErr::Commit(e.to_string()))?;
        Ok(n)
    }));
    match r {
        Ok(x) => x,
        Err(p) => Err(QErr::Panic(crate::common::dump::panic_msg(&p))),
    }
}

fn one_case(seed: u64, k: usize, out: &mut CaseOut) {
    let mut rng = Rng::derive(seed, k as u64);
    let cfg = GraphCfg { max_nodes: 6, max_edges: 8, parallel_edges: false, self_loops: k % 3 == 0 };
    let g0 = gen_graph(&mut rng, &cfg);
    let (d1, d2) = (ScratchDir::new("c12a"), ScratchDir::new("c12b"));
    let (Ok(db), Ok(twin)) = (Db::open(d1.db_base()), Db::open(d2.db_base())) else {
        out.inconclusive("open");
        return;
    };
    if load(&db, &g0).is_err() || load(&twin, &g0).is_err() {
        out.inconclusive("load");
        return;
    }
    let mut model = g0.clone();
    if uid_view(&db) != model_view(&model) {
        out.inconclusive("loaded-graph-differs-from-model");
        return;
    }
    out.count("cases", 1);
    let mut next_uid: i64 = 100;
    let n_stmts = 3 + rng.below(8);
    let mut history: Vec<String> = Vec::new();
    for si in 0..n_stmts {
        let (fam, stmt) = {
            let mut gen_ = G { rng: &mut rng, g: &model, next_uid: &mut next_uid, pcount: 0, may_read: true };
            gen_.statement()
        };
        let text = render_stmt(&stmt);
        let pm = stmt_params(&stmt);
        let params = to_params(&pm);
        let kinds = stmt_kinds(&stmt);
        let repeats = if kinds == "merge" || kinds == "merge+set-prop" { 2 } else { 1 };
        for rep in 0..repeats {
            history.push(text.clone());
            out.evaluations += 1;
            let expected = apply(&model, &stmt);
            if let Err(ModelErr::Ambiguous(why)) = &expected {
                out.inconclusive(&format!("model-ambiguous:{why}"));
                out.count("cases_stopped_at_ambiguous_statement", 1);
                return;
            }
            let before = uid_view(&db);
            let got = run_write(&db, &text, &params);
            let got2 = run_execute_write(&twin, &text, &params);
            let mk = |sig: String, summary: String, extra: serde_json::Value| Violation {
                signature: sig,
                summary,
                detail: json!({"statement": text, "params": pm.iter().map(|(k, v)| (k.clone(), super::reference::v_lit(v))).collect::<BTreeMap<_, _>>(), "family": fam, "history": history, "graph": graph_json(&g0), "more": extra}),
                replay: json!({"engine": "cyphermon", "property": "C12", "seed": seed, "case": k, "statement_index": si}),
            };
            match (&expected, &got) {
                (_, Err(QErr::Panic(m))) => {
                    out.violations.push(mk(format!("C12|statement-panicked|{kinds}"), format!("`{text}` panicked: {m}"), json!({})));
                    return;
                }
                (_, Err(QErr::Compile(m))) => {
                    out.inconclusive(&format!("engine-rejects:{fam}:{}", normalise_msg(m).chars().take(50).collect::<String>()));
                    out.count("statements_rejected_at_prepare", 1);
                    if expected.is_ok() {
                        // the model moved on only if the engine did: keep them in step
                    }
                    break;
                }
                (Ok(_), Err(e)) => {
                    let m = e.to_string();
                    if unsupported(&m) {
                        out.inconclusive(&format!("engine-unsupported:{fam}"));
                        break;
                    }
                    out.violations.push(mk(format!("C12|outcome|engine-fails|{kinds}|{}", normalise_msg(&m).chars().take(60).collect::<String>()), format!("`{text}` must succeed by Cypher semantics, the engine fails: {m}"), json!({})));
                    return;
                }
                (Err(ModelErr::ExpectError(why)), Ok((_, n))) => {
                    out.violations.push(mk(format!("C12|outcome|engine-succeeds|{kinds}|{why}"), format!("`{text}` must fail ({why}), the engine succeeds and reports {n} changes"), json!({})));
                    return;
                }
                (Err(ModelErr::ExpectError(why)), Err(_)) => {
                    out.count("statements_failing_as_predicted", 1);
                    out.cell(format!("fails:{fam}:{why}"));
                    let after = uid_view(&db);
                    if after != before {
                        out.violations.push(mk(format!("C12|failed-statement-changed-the-graph|{kinds}"), format!("`{text}` failed as it must ({why}) but changed the graph"), json!({"diff": diff_facts(&before, &after, 6)})));
                        return;
                    }
                    // the twin must fail too
                    if got2.is_ok() {
                        out.violations.push(mk(format!("C12|write-paths-disagree|outcome|{kinds}"), format!("`{text}` fails through execute_mixed and succeeds through execute_write"), json!({})));
                        return;
                    }
                    break;
                }
                (Err(ModelErr::Ambiguous(_)), _) => unreachable!(),
                (Ok((g1, fx)), Ok((rows, n))) => {
                    out.count("statements_executed", 1);
                    out.count(&format!("family.{fam}"), 1);
                    out.cell(format!("{fam}|{kinds}|rows={}|created={}|deleted={}|merge={}/{}", fx.rows.min(3), (fx.nodes_created + fx.rels_created).min(3), (fx.nodes_deleted + fx.rels_deleted).min(3), fx.merge_matched.min(2), fx.merge_created.min(2)));
                    count_forms(&stmt, fx, out);
                    let after = uid_view(&db);
                    let want = model_view(g1);
                    let d = diff_facts(&want, &after, 8);
                    if !d.is_empty() {
                        out.violations.push(mk(format!("C12|content-differs|{kinds}|{}", diff_cats(&d)), format!("after `{text}` the graph differs from the reference model (model vs engine): {d:?}"), json!({"diff": d})));
                        return;
                    }
                    // change counts: only what is unambiguous
                    let pure_create = kinds == "create";
                    let pure_delete = kinds == "delete" || kinds == "detach-delete";
                    if pure_create {
                        out.count("pure_create_counts_compared", 1);
                        let want_n = (fx.nodes_created + fx.rels_created) as u32;
                        if *n != want_n {
                            out.violations.push(mk("C12|change-count|create".into(), format!("`{text}` created {} nodes and {} relationships, the reported count is {n}", fx.nodes_created, fx.rels_created), json!({})));
                            return;
                        }
                    }
                    if pure_delete {
                        out.count("pure_delete_counts_compared", 1);
                        let want_n = (fx.nodes_deleted + fx.rels_deleted) as u32;
                        if *n != want_n {
                            out.violations.push(mk(format!("C12|change-count|{kinds}"), format!("`{text}` deleted {} nodes and {} relationships, the reported count is {n}", fx.nodes_deleted, fx.rels_deleted), json!({})));
                            return;
                        }
                    }
                    if stmt.ret_count
                        && let Some(r) = rows.first()
                        && let Some((_, Value::Int(c))) = r.iter().find(|(k, _)| k == "c")
                    {
                        out.count("returned_row_counts_compared", 1);
                        if *c != fx.rows as i64 {
                            out.violations.push(mk(format!("C12|returned-rows|{kinds}"), format!("`{text}` returns count(*) = {c}, the reference has {} rows after the updates", fx.rows), json!({})));
                            return;
                        }
                    }
                    // the other write path: same count, same content
                    match &got2 {
                        Ok(n2) => {
                            out.count("write_paths_compared", 1);
                            let t = uid_view(&twin);
                            if n2 != n || t != after {
                                out.violations.push(mk(format!("C12|write-paths-disagree|{}|{kinds}", if n2 != n { "count" } else { "content" }), format!("`{text}`: execute_mixed reports {n} changes, execute_write {n2}; content equal: {}", t == after), json!({"diff": diff_facts(&after, &t, 6)})));
                                return;
                            }
                        }
                        Err(e) if e.to_string().contains("must be executed via") => {
                            // execute_write declines plans it was not built for and says so
                            out.count("execute_write_declines_the_plan", 1);
                            let _ = run_write(&twin, &text, &params);
                        }
                        Err(e) => {
                            out.violations.push(mk(format!("C12|write-paths-disagree|outcome|{kinds}"), format!("`{text}` succeeds through execute_mixed and fails through execute_write: {e}"), json!({})));
                            return;
                        }
                    }
                    if rep == 1 && fx.nodes_created + fx.rels_created == 0 {
                        // the repeated MERGE whose pattern now matches: nothing may have been created
                        out.count("merge_repeats", 1);
                        let (n0, r0) = count_entities(&before);
                        let (n1, r1) = count_entities(&after);
                        if (n0, r0) != (n1, r1) {
                            out.violations.push(mk("C12|repeated-merge-created".into(), format!("repeating `{text}` changed the number of nodes/relationships from {n0}/{r0} to {n1}/{r1}"), json!({})));
                            return;
                        }
                    }
                    model = g1.clone();
                }
            }
        }
    }
}

fn count_forms(s: &UStmt, fx: &Effects, out: &mut CaseOut) {
    for k in stmt_kinds(s).split('+') {
        out.count(&format!("form.{k}"), 1);
    }
    fn nulls(c: &UClause) -> u64 {
        match c {
            UClause::Set(items) => items
                .iter()
                .map(|i| match i {
                    SetItem::Prop(_, _, Expr::Lit(V::Null)) => 1,
                    SetItem::MapMerge(_, m) | SetItem::MapReplace(_, m) => m.iter().filter(|(_, e)| matches!(e, Expr::Lit(V::Null))).count() as u64,
                    SetItem::MapParam(_, _, _, m) => m.values().filter(|v| matches!(v, V::Null)).count() as u64,
                    _ => 0,
                })
                .sum(),
            UClause::Foreach { body, .. } => body.iter().map(nulls).sum(),
            _ => 0,
        }
    }
    let n: u64 = s.updates.iter().map(nulls).sum();
    if n > 0 {
        out.count("null_valued_sets", n);
    }
    if !stmt_params(s).is_empty() {
        out.count("statements_with_parameters", 1);
    }
    if fx.merge_matched > 0 {
        out.count("merges_matching", fx.merge_matched as u64);
    }
    if fx.merge_created > 0 {
        out.count("merges_creating", fx.merge_created as u64);
    }
    if fx.rows == 0 {
        out.count("statements_over_no_rows", 1);
    }
}

pub fn main(args: &Args) -> Report {
    let mut rep = Report::new(
        "C12",
        &args.tier,
        args.seed,
        "exploration",
        "sequences of 3-10 generated update statements (CREATE of nodes/paths/relationships between matched nodes, MERGE of nodes and relationships with ON CREATE/ON MATCH and repeated elements, SET property / += map / = map / labels, REMOVE property / labels, DELETE, DETACH DELETE, FOREACH, OPTIONAL MATCH nulls, several clauses; MATCH/WITH/UNWIND prefixes, parameters, null values) on random graphs. After every statement the uid-keyed content of the database is compared with an independent model of Cypher update semantics; outcome (must fail / must succeed) is compared; change counts are compared where unambiguous (pure CREATE, pure DELETE); RETURN count(*) is compared with the model's rows; the same statement runs through execute_write on a twin database (count and content must agree with execute_mixed); MERGE statements are repeated and must create nothing. A cell is (family, clause kinds, rows, created, deleted, merge outcome)",
    );
    rep.assume("a statement never reads a property it writes (the engine executes reads against the statement's start snapshot: recorded under C24); parallel relationships of one type between the same nodes are not created (one relationship in the storage model: C06)");
    rep.assume("statements the engine rejects at prepare or reports as unsupported are not judged");
    let n = if args.thorough() { 600_000 } else { 30_000 };
    let deadline = Instant::now() + Duration::from_secs(args.budget_s(60, 900));
    let (out, done) = par_cases(n, threads(), Some(deadline), |k| {
        let mut o = CaseOut::default();
        one_case(args.seed, k, &mut o);
        o
    });
    rep.out = out;
    rep.out.count("cases_planned", n as u64);
    rep.out.count("cases_done", done as u64);
    let t = args.thorough();
    rep.floor("statements executed and compared", rep.counter("statements_executed"), if t { 1_000_000 } else { 80_000 });
    for f in ["create", "merge", "set-prop", "set-merge-map", "set-replace-map", "set-label", "remove-prop", "remove-label", "delete", "detach-delete", "foreach"] {
        rep.floor(&format!("statements with {f}"), rep.counter(&format!("form.{f}")), if t { 30_000 } else { 2_500 });
    }
    rep.floor("MERGE repeats", rep.counter("merge_repeats"), if t { 60_000 } else { 5_000 });
    rep.floor("null-valued SETs", rep.counter("null_valued_sets"), if t { 60_000 } else { 5_000 });
    rep.floor("statements failing as predicted", rep.counter("statements_failing_as_predicted"), if t { 10_000 } else { 800 });
    rep.floor("write paths compared", rep.counter("write_paths_compared"), if t { 800_000 } else { 60_000 });
    let _ = run_read;
    rep
}
