//! C33: a query run with row, collection-size and time limits either returns its complete result
//! or fails with a resource-limit error; it never returns a truncated or altered result, and a
//! failing query stops within a bounded amount of extra work.

use super::graph::{GraphCfg, gen_graph, load};
use crate::common::cypher::{canon_value, f64_canon};
use crate::common::dump::panic_msg;
use crate::common::report::{Args, CaseOut, Report, Violation, par_cases, threads};
use crate::common::rng::Rng;
use crate::common::sut::ScratchDir;
use ndb_core::Db;
use ndb_core::query::{ExecuteOptions, Params, prepare};
use serde_json::json;
use std::panic::{AssertUnwindSafe, catch_unwind};
use std::time::{Duration, Instant};

enum Outcome {
    Rows(Vec<String>),
    LimitError(String),
    OtherError(String),
    Panic(String),
}

struct Run {
    outcome: Outcome,
    emitted: usize,
    elapsed: Duration,
}

fn run(db: &Db, q: &str, opts: ExecuteOptions) -> Run {
    let params = Params::with_execute_options(opts);
    let t0 = Instant::now();
    let r = catch_unwind(AssertUnwindSafe(|| {
        let prepared = match prepare(q) {
            Ok(p) => p,
            Err(e) => return Outcome::OtherError(format!("compile: {e}")),
        };
        let snap = db.snapshot();
        let mut rows = Vec::new();
        for row in prepared.execute_streaming(&snap, &params) {
            match row {
                Ok(r) => rows.push(r.columns().iter().map(|(_, v)| canon_value(v, false)).collect::<Vec<_>>().join(" | ")),
                Err(e) => {
                    let m = e.to_string();
                    return if m.contains("ResourceLimitExceeded") { Outcome::LimitError(m) } else { Outcome::OtherError(m) };
                }
            }
        }
        Outcome::Rows(rows)
    }));
    let outcome = match r {
        Ok(o) => o,
        Err(p) => Outcome::Panic(panic_msg(&p)),
    };
    Run { outcome, emitted: params.verif_emitted_rows(), elapsed: t0.elapsed() }
}

/// `vmon probe-limit "<query>" <row-limit>`: outcome and emitted-row counter under a row limit.
pub fn probe(q: &str, limit: usize) {
    let dir = ScratchDir::new("probe");
    let db = Db::open(dir.db_base()).expect("open");
    let r = run(&db, q, ExecuteOptions { max_intermediate_rows: limit, ..unlimited() });
    let o = match r.outcome {
        Outcome::Rows(v) => format!("rows={}", v.len()),
        Outcome::LimitError(m) => format!("limit-error {m}"),
        Outcome::OtherError(m) => format!("other-error {m}"),
        Outcome::Panic(m) => format!("panic {m}"),
    };
    println!("{o}; emitted={} elapsed={:?}", r.emitted, r.elapsed);
}

fn unlimited() -> ExecuteOptions {
    ExecuteOptions { max_intermediate_rows: usize::MAX / 4, max_collection_items: usize::MAX / 4, soft_timeout_ms: 0, max_apply_rows_per_outer: usize::MAX / 4 }
}

/// (query, ordered?, family)
fn gen_query(rng: &mut Rng) -> (String, bool, &'static str) {
    let n = *rng.pick(&[1usize, 2, 7, 30, 100, 400]);
    let m = *rng.pick(&[1usize, 3, 10, 25]);
    let k = *rng.pick(&[0usize, 1, 3, 10, 50]);
    let j = *rng.pick(&[0usize, 1, 5, 40]);
    match rng.below(23) {
        14 => (format!("UNWIND range(1, {n}) AS x RETURN x SKIP {k}"), false, "skip"),
        15 => (format!("UNWIND range(1, {n}) AS x RETURN x SKIP {k} LIMIT {j}"), false, "skip-limit"),
        16 => (format!("UNWIND range(1, {n}) AS x WITH x SKIP {k} RETURN count(x) AS c"), false, "with-skip"),
        17 => (format!("UNWIND range(1, {n}) AS x WITH x ORDER BY x DESC LIMIT {j} RETURN x"), false, "with-order-limit"),
        18 => (format!("UNWIND range(1, {n}) AS x RETURN x UNION ALL UNWIND range(1, {m}) AS x RETURN x"), false, "union-all"),
        19 => (format!("UNWIND range(1, {n}) AS x WITH collect(x) AS xs UNWIND xs AS y RETURN y"), false, "collect-unwind"),
        20 => ("MATCH (a) WHERE exists { MATCH (a)-->() } RETURN id(a) AS a".into(), false, "exists-subquery"),
        21 => (format!("UNWIND range(1, {n}) AS x RETURN x LIMIT {j}"), false, "limit"),
        22 => (format!("UNWIND range(1, {n}) AS x RETURN DISTINCT x % 7 AS r SKIP {k}"), false, "distinct-skip"),
        0 => (format!("UNWIND range(1, {n}) AS x RETURN x"), false, "unwind-range"),
        1 => (format!("UNWIND range(1, {n}) AS x UNWIND range(1, {m}) AS y RETURN x, y"), false, "nested-unwind"),
        2 => ("MATCH (a), (b) RETURN id(a) AS a, id(b) AS b".into(), false, "cartesian-match"),
        3 => ("MATCH (a)-[*1..3]->(b) RETURN id(a) AS a, id(b) AS b".into(), false, "varlen-expand"),
        4 => (format!("UNWIND range(1, {n}) AS x RETURN count(x) AS c, sum(x) AS s"), false, "aggregate"),
        5 => (format!("UNWIND range(1, {n}) AS x RETURN collect(x) AS xs"), false, "collect"),
        6 => (format!("UNWIND range(1, {n}) AS x RETURN x ORDER BY x DESC"), true, "order-by"),
        7 => (format!("RETURN [x IN range(1, {n}) | x * 2] AS xs"), false, "list-comprehension"),
        8 => (format!("UNWIND range(1, {n}) AS x WITH x WHERE x % 2 = 0 RETURN x"), false, "filter"),
        9 => ("MATCH (a) OPTIONAL MATCH (a)-->(b) RETURN id(a) AS a, id(b) AS b".into(), false, "optional-match"),
        10 => (format!("UNWIND range(1, {m}) AS x CALL {{ WITH x UNWIND range(1, {n}) AS y RETURN y }} RETURN x, y"), false, "subquery-apply"),
        11 => (format!("UNWIND range(1, {n}) AS x RETURN DISTINCT x % 5 AS r"), false, "distinct"),
        12 => (format!("UNWIND range(1, {n}) AS x RETURN x % 3 AS g, count(*) AS c"), false, "grouping"),
        _ => (format!("MATCH (a)-->(b) UNWIND range(1, {m}) AS x RETURN id(a) AS a, x"), false, "match+unwind"),
    }
}

fn one_case(seed: u64, k: usize, out: &mut CaseOut) {
    let mut rng = Rng::derive(seed, k as u64);
    let g = gen_graph(&mut rng, &GraphCfg { max_nodes: 7, max_edges: 16, parallel_edges: false, self_loops: true });
    let dir = ScratchDir::new("c33");
    let Ok(db) = Db::open(dir.db_base()) else {
        out.inconclusive("open");
        return;
    };
    if load(&db, &g).is_err() {
        out.inconclusive("load");
        return;
    }
    for _ in 0..6 {
        let (q, ordered, fam) = gen_query(&mut rng);
        let base = run(&db, &q, unlimited());
        let full = match base.outcome {
            Outcome::Rows(r) => r,
            Outcome::Panic(m) => {
                out.violations.push(Violation { signature: format!("C33|query-panicked|{fam}"), summary: format!("{q} panicked: {m}"), detail: json!({"query": q}), replay: json!({"engine":"cyphermon","property":"C33","seed":seed,"case":k}) });
                continue;
            }
            _ => {
                out.inconclusive("unlimited-run-failed");
                continue;
            }
        };
        let true_rows = full.len();
        let true_emitted = base.emitted;
        let canon = |mut v: Vec<String>| {
            if !ordered {
                v.sort();
            }
            v
        };
        let want = canon(full.clone());
        // limit settings around the query's true sizes
        let mut settings: Vec<(&str, ExecuteOptions, usize)> = Vec::new();
        for lim in [1usize, true_rows.saturating_sub(1).max(1), true_rows.max(1), true_rows + 1, true_emitted.saturating_sub(1).max(1), true_emitted.max(1), true_emitted + 1, rng.below(true_emitted + 2).max(1)] {
            settings.push(("rows", ExecuteOptions { max_intermediate_rows: lim, ..unlimited() }, lim));
        }
        for lim in [1usize, 2, true_rows.max(1), rng.below(500).max(1), 100_000] {
            settings.push(("collection", ExecuteOptions { max_collection_items: lim, ..unlimited() }, lim));
        }
        for lim in [1usize, 3, rng.below(400).max(1), 100_000] {
            settings.push(("apply", ExecuteOptions { max_apply_rows_per_outer: lim, ..unlimited() }, lim));
        }
        settings.push(("timeout-generous", ExecuteOptions { soft_timeout_ms: 60_000, ..unlimited() }, 60_000));
        for (kind, opts, lim) in settings {
            let r = run(&db, &q, opts);
            out.evaluations += 1;
            out.count("query_option_pairs", 1);
            out.cell(format!("{fam}:{kind}"));
            if kind == "rows" && (lim == true_emitted || lim == true_rows) {
                out.count("pairs_with_limit_equal_to_true_size", 1);
            }
            let replay = json!({"engine":"cyphermon","property":"C33","seed":seed,"case":k});
            match r.outcome {
                Outcome::Rows(rows) => {
                    let got = canon(rows);
                    if got != want {
                        let what = if got.len() < want.len() { "truncated" } else if got.len() > want.len() { "extra-rows" } else { "altered" };
                        out.violations.push(Violation {
                            signature: format!("C33|limited-run-returned-{what}-result|{kind}:{fam}"),
                            summary: format!("{q} with {kind} limit {lim} returned {} rows without an error; the unlimited result has {} rows", got.len(), want.len()),
                            detail: json!({"query": q, "limit_kind": kind, "limit": lim, "true_rows": true_rows, "true_emitted_rows": true_emitted, "got_first": got.iter().take(5).collect::<Vec<_>>(), "want_first": want.iter().take(5).collect::<Vec<_>>()}),
                            replay,
                        });
                    }
                }
                Outcome::LimitError(_) => {
                    out.count(&format!("limit_tripped.{kind}"), 1);
                    // bounded extra work for the row limit: the counter may pass the limit by one
                    // (a subquery inside a predicate is evaluated per outer row by separate
                    // executions sharing the budget: the trip surfaces at the next outer row, so
                    // "shortly after" is one outer iteration there, not one row)
                    let bound = if fam == "exists-subquery" { 2 * lim + 2 } else { lim + 1 };
                    if kind == "rows" && r.emitted > bound {
                        out.violations.push(Violation {
                            signature: format!("C33|work-continues-after-row-limit|{fam}"),
                            summary: format!("{q}: row limit {lim}, but {} rows had been emitted when the error surfaced", r.emitted),
                            detail: json!({"query": q, "limit": lim, "emitted_when_error_surfaced": r.emitted}),
                            replay,
                        });
                    }
                }
                Outcome::OtherError(m) => out.violations.push(Violation {
                    signature: format!("C33|limited-run-fails-with-non-limit-error|{kind}:{fam}"),
                    summary: format!("{q} with {kind} limit {lim} failed with an error that is not a resource-limit error: {m}"),
                    detail: json!({"query": q, "limit_kind": kind, "limit": lim, "error": m}),
                    replay,
                }),
                Outcome::Panic(m) => out.violations.push(Violation {
                    signature: format!("C33|limited-run-panicked|{kind}:{fam}"),
                    summary: format!("{q} with {kind} limit {lim} panicked: {m}"),
                    detail: json!({"query": q, "limit_kind": kind, "limit": lim}),
                    replay,
                }),
            }
        }
    }
}

/// Queries whose unlimited run time is effectively infinite must stop soon after the soft timeout.
fn timeout_cases(seed: u64, n: usize, out: &mut CaseOut) {
    let dir = ScratchDir::new("c33t");
    let Ok(db) = Db::open(dir.db_base()) else {
        out.inconclusive("open");
        return;
    };
    let qs = [
        "UNWIND range(1, 3000) AS a UNWIND range(1, 3000) AS b UNWIND range(1, 3000) AS c RETURN count(*) AS n",
        "UNWIND range(1, 3000) AS a UNWIND range(1, 3000) AS b UNWIND range(1, 3000) AS c RETURN a + b + c AS s",
        "UNWIND range(1, 3000) AS a UNWIND range(1, 3000) AS b UNWIND range(1, 3000) AS c WITH a WHERE a < 0 RETURN a",
        "UNWIND range(1, 3000) AS a UNWIND range(1, 3000) AS b UNWIND range(1, 3000) AS c RETURN DISTINCT a % 2 AS r",
        "UNWIND range(1, 3000) AS a UNWIND range(1, 3000) AS b UNWIND range(1, 3000) AS c RETURN a ORDER BY a LIMIT 1",
    ];
    let mut rng = Rng::derive(seed, 991);
    for i in 0..n {
        let q = qs[i % qs.len()];
        let t = *rng.pick(&[50u64, 120, 300]);
        let r = run(&db, q, ExecuteOptions { soft_timeout_ms: t, ..unlimited() });
        out.evaluations += 1;
        out.count("timeout_runs", 1);
        out.cell(format!("timeout:{}", i % qs.len()));
        let bound = Duration::from_millis((20 * t).max(t + 20_000));
        match r.outcome {
            Outcome::LimitError(_) => {
                out.count("limit_tripped.timeout", 1);
                if r.elapsed > bound {
                    out.violations.push(Violation {
                        signature: "C33|timeout-error-surfaces-late|".into(),
                        summary: format!("{q}: soft timeout {t} ms, the error surfaced after {:?} (bound {:?})", r.elapsed, bound),
                        detail: json!({"query": q, "soft_timeout_ms": t, "elapsed_ms": r.elapsed.as_millis() as u64}),
                        replay: json!({"engine":"cyphermon","property":"C33","kind":"timeout"}),
                    });
                }
            }
            Outcome::Rows(_) => out.inconclusive("timeout-query-completed"), // machine faster than expected
            Outcome::OtherError(m) => out.violations.push(Violation {
                signature: "C33|timeout-run-fails-with-non-limit-error|".into(),
                summary: format!("{q} with soft timeout {t} ms failed with: {m}"),
                detail: json!({"query": q}),
                replay: json!({"engine":"cyphermon","property":"C33","kind":"timeout"}),
            }),
            Outcome::Panic(m) => out.violations.push(Violation {
                signature: "C33|timeout-run-panicked|".into(),
                summary: format!("{q} panicked: {m}"),
                detail: json!({"query": q}),
                replay: json!({"engine":"cyphermon","property":"C33","kind":"timeout"}),
            }),
        }
    }
    let _ = f64_canon;
}

pub fn main(args: &Args) -> Report {
    let mut rep = Report::new(
        "C33",
        &args.tier,
        args.seed,
        "exploration",
        "generated queries with sizeable intermediate results (UNWIND range, nested UNWIND, cartesian MATCH, variable-length expansion, aggregation, collect, ORDER BY, list comprehension, filter, OPTIONAL MATCH, CALL subquery, DISTINCT, grouping) run unlimited and then under row / collection / apply-rows limits set just below, at and above the query's true sizes and at random values: the limited run must return exactly the unlimited result or fail with a ResourceLimitExceeded error; when the row limit trips, the emitted-row counter (hook) must not exceed limit+1; effectively infinite queries under a 50-300 ms soft timeout must fail within max(20 x timeout, timeout + 20 s). A cell is (query family, limit kind)",
    );
    rep.assume("only 'never stops' is decided by the clock, with a deliberately huge bound");
    let t = args.thorough();
    let n = if t { 40_000 } else { 800 };
    let deadline = Instant::now() + Duration::from_secs(args.budget_s(100, 1000));
    let seed = args.seed;
    let (mut out, _) = par_cases(n, threads(), Some(deadline), |k| {
        let mut out = CaseOut::default();
        one_case(seed, k, &mut out);
        out
    });
    timeout_cases(seed, if t { 60 } else { 10 }, &mut out);
    out.samples.push(json!({"query": "UNWIND range(1, 100) AS x UNWIND range(1, 10) AS y RETURN x, y", "options": "max_intermediate_rows = 999 / 1000 / 1001", "oracle": "Ok(rows) == unlimited rows, or Err(ResourceLimitExceeded)"}));
    let mut seen = std::collections::BTreeMap::<String, usize>::new();
    out.violations.retain(|v| {
        let c = seen.entry(v.signature.clone()).or_default();
        *c += 1;
        *c <= 3
    });
    rep.out = out;
    rep.floor("(query, options) pairs", rep.counter("query_option_pairs"), if t { 30_000 } else { 3000 });
    for kind in ["rows", "collection", "apply", "timeout"] {
        rep.floor(&format!("limit kind {kind} tripped"), rep.counter(&format!("limit_tripped.{kind}")), if kind == "timeout" { if t { 50 } else { 5 } } else if t { 300 } else { 30 });
    }
    rep.floor("pairs where the limit equals the true size", rep.counter("pairs_with_limit_equal_to_true_size"), if t { 300 } else { 100 });
    rep
}
