//! C34: the C API (`ndb_query`, `ndb_execute_write`, the statement API and explicit transactions)
//! returns the same rows, values, change counts and error category as the Rust API for the same
//! statement, parameters and graph; and its read and write entry points accept and refuse the
//! statements the documentation says they do.
//!
//! Each case builds one random graph, copies the database files, and drives copy A through the
//! Rust API and copy B through the C ABI (called from Rust exactly as a C caller would). The whole
//! case runs in a child process: a panic inside an `extern "C"` function aborts the host, which is
//! the strongest way of "not returning the same rows".

use super::graph::{Graph, GraphCfg, gen_graph, graph_json, load};
use super::read::Gen;
use super::reference::render;
use super::stmts::uid_view;
use crate::common::capi::{Bind, CDb, CErr, CStmt, Col};
use crate::common::child::{Exit, run_worker, signal_name};
use crate::common::cypher::{QErr, Rows};
use crate::common::model::diff_facts;
use crate::common::report::{Args, CaseOut, Report, Violation, par_cases, threads};
use crate::common::rng::Rng;
use crate::common::sut::ScratchDir;
use crate::storemon::normalise_msg;
use ndb_core::Db;
use ndb_core::query::{Params, Value, prepare};
use serde_json::{Value as J, json};
use std::collections::BTreeMap;
use std::io::Write;
use std::panic::{AssertUnwindSafe, catch_unwind};
use std::time::{Duration, Instant};

const CAT_SYNTAX: i32 = 1;
const CAT_EXECUTION: i32 = 2;
const CAT_STORAGE: i32 = 3;

#[derive(Clone, Debug)]
struct Stmt {
    family: String,
    text: String,
    params: BTreeMap<String, Value>,
    /// Does the statement contain an updating clause anywhere? Known from how it was generated,
    /// never from parsing. None: unknown (mutated text).
    updates: Option<bool>,
}

impl Stmt {
    fn read(family: &str, text: impl Into<String>) -> Stmt {
        Stmt { family: family.into(), text: text.into(), params: BTreeMap::new(), updates: Some(false) }
    }
    fn write(family: &str, text: impl Into<String>) -> Stmt {
        Stmt { family: family.into(), text: text.into(), params: BTreeMap::new(), updates: Some(true) }
    }
    fn with(mut self, k: &str, v: Value) -> Stmt {
        self.params.insert(k.into(), v);
        self
    }
    fn json(&self) -> J {
        json!({"family": self.family, "text": self.text, "params": params_json(&self.params)})
    }
}

fn to_params(m: &BTreeMap<String, Value>) -> Params {
    let mut p = Params::new();
    for (k, v) in m {
        p.insert(k.clone(), v.clone());
    }
    p
}

/// JSON text of a parameter value (only JSON-expressible kinds are generated).
fn value_json(v: &Value) -> J {
    match v {
        Value::Null => J::Null,
        Value::Bool(b) => json!(b),
        Value::Int(i) => json!(i),
        Value::Float(f) => json!(f),
        Value::String(s) => json!(s),
        Value::List(xs) => J::Array(xs.iter().map(value_json).collect()),
        Value::Map(m) => J::Object(m.iter().map(|(k, v)| (k.clone(), value_json(v))).collect()),
        _ => J::Null,
    }
}

fn params_json(m: &BTreeMap<String, Value>) -> Option<String> {
    if m.is_empty() {
        return None;
    }
    Some(J::Object(m.iter().map(|(k, v)| (k.clone(), value_json(v))).collect()).to_string())
}

// ---------------------------------------------------------------------------------------------
// the fixed value mapping: Rust `Value` vs the JSON the C API returned
// ---------------------------------------------------------------------------------------------

fn props_match(props: &BTreeMap<String, Value>, j: &J, path: &str) -> Result<(), String> {
    let Some(o) = j.as_object() else { return Err(format!("{path}: properties are not an object: {j}")) };
    if o.len() != props.len() {
        return Err(format!("{path}: {} properties, C API has {}", props.len(), o.len()));
    }
    for (k, v) in props {
        match o.get(k) {
            Some(x) => value_matches(v, x, &format!("{path}.{k}"))?,
            None => return Err(format!("{path}: property {k} missing")),
        }
    }
    Ok(())
}

fn node_matches(n: &ndb_core::query::executor::NodeValue, j: &J, path: &str) -> Result<(), String> {
    if j["type"] != "node" {
        return Err(format!("{path}: node expected, C API has {j}"));
    }
    if j["id"].as_u64() != Some(n.id as u64) {
        return Err(format!("{path}: node id {} vs {}", n.id, j["id"]));
    }
    let mut a: Vec<String> = n.labels.clone();
    a.sort();
    let mut b: Vec<String> = j["labels"].as_array().map(|x| x.iter().filter_map(|s| s.as_str().map(|s| s.to_string())).collect()).unwrap_or_default();
    b.sort();
    if a != b {
        return Err(format!("{path}: labels {a:?} vs {b:?}"));
    }
    props_match(&n.properties, &j["properties"], path)
}

fn rel_matches(r: &ndb_core::query::executor::RelationshipValue, j: &J, path: &str) -> Result<(), String> {
    if j["type"] != "relationship" {
        return Err(format!("{path}: relationship expected, C API has {j}"));
    }
    if j["src"].as_u64() != Some(r.key.src as u64) || j["dst"].as_u64() != Some(r.key.dst as u64) {
        return Err(format!("{path}: endpoints {}->{} vs {}->{}", r.key.src, r.key.dst, j["src"], j["dst"]));
    }
    if j["rel_type"].as_str() != Some(r.rel_type.as_str()) {
        return Err(format!("{path}: type {} vs {}", r.rel_type, j["rel_type"]));
    }
    props_match(&r.properties, &j["properties"], path)
}

thread_local! {
    /// collect() gathers in row order, which is not fixed between two executions: for statements
    /// using it, lists are compared as multisets.
    static UNORDERED_LISTS: std::cell::Cell<bool> = const { std::cell::Cell::new(false) };
    /// avg()/sum() add floats in row order, which is not fixed between two executions: the last
    /// bits of the result may differ; such statements compare floats to 1e-12 relative.
    static FLOAT_TOLERANCE: std::cell::Cell<bool> = const { std::cell::Cell::new(false) };
}

/// Ok(()) when the JSON value is the image of the Rust value under the fixed mapping.
/// JSON has no NaN/±Inf: for those only "did not become a number" is required.
fn value_matches(v: &Value, j: &J, path: &str) -> Result<(), String> {
    let bad = |what: &str| Err(format!("{path}: {what}: Rust {} vs C {j}", crate::common::cypher::canon_value(v, true)));
    match v {
        Value::Null => {
            if j.is_null() { Ok(()) } else { bad("null expected") }
        }
        Value::Bool(b) => {
            if j.as_bool() == Some(*b) { Ok(()) } else { bad("boolean differs") }
        }
        Value::Int(i) => match j {
            J::Number(n) if !n.is_f64() && n.as_i64() == Some(*i) => Ok(()),
            _ => bad("integer differs"),
        },
        Value::Float(f) if !f.is_finite() => {
            if j.is_number() { bad("non-finite float became a number") } else { Ok(()) }
        }
        Value::Float(f) => match j {
            J::Number(n) if n.is_f64() && n.as_f64().map(|x| x.to_bits()) == Some(f.to_bits()) => Ok(()),
            J::Number(n) if n.is_f64() && FLOAT_TOLERANCE.with(|c| c.get()) && n.as_f64().is_some_and(|x| (x - f).abs() <= 1e-12 * f.abs().max(x.abs())) => Ok(()),
            _ => bad("float differs"),
        },
        Value::String(s) => {
            if j.as_str() == Some(s.as_str()) { Ok(()) } else { bad("string differs") }
        }
        Value::List(xs) => {
            let Some(a) = j.as_array() else { return bad("list expected") };
            if a.len() != xs.len() {
                return bad("list length differs");
            }
            if UNORDERED_LISTS.with(|c| c.get()) {
                let mut used = vec![false; a.len()];
                for x in xs {
                    let hit = a.iter().enumerate().position(|(i, y)| !used[i] && value_matches(x, y, path).is_ok());
                    match hit {
                        Some(i) => used[i] = true,
                        None => return bad("list differs as a multiset"),
                    }
                }
                return Ok(());
            }
            for (i, (x, y)) in xs.iter().zip(a).enumerate() {
                value_matches(x, y, &format!("{path}[{i}]"))?;
            }
            Ok(())
        }
        Value::Map(m) => {
            if !j.is_object() {
                return bad("map expected");
            }
            props_match(m, j, path)
        }
        Value::Node(n) => node_matches(n, j, path),
        Value::Relationship(r) => rel_matches(r, j, path),
        Value::ReifiedPath(p) => {
            if j["type"] != "path" {
                return bad("path expected");
            }
            let (Some(ns), Some(rs)) = (j["nodes"].as_array(), j["relationships"].as_array()) else { return bad("path without nodes/relationships") };
            if ns.len() != p.nodes.len() || rs.len() != p.relationships.len() {
                return bad("path length differs");
            }
            for (i, (x, y)) in p.nodes.iter().zip(ns).enumerate() {
                node_matches(x, y, &format!("{path}.nodes[{i}]"))?;
            }
            for (i, (x, y)) in p.relationships.iter().zip(rs).enumerate() {
                rel_matches(x, y, &format!("{path}.relationships[{i}]"))?;
            }
            Ok(())
        }
        Value::DateTime(t) => {
            if j["type"] == "datetime" && j["value"].as_i64() == Some(*t) { Ok(()) } else { bad("datetime differs") }
        }
        Value::Blob(b) => {
            if j["type"] == "blob" && j["len"].as_u64() == Some(b.len() as u64) { Ok(()) } else { bad("blob differs") }
        }
        Value::NodeId(id) => {
            if j["type"] == "node_id" && j["value"].as_u64() == Some(*id as u64) { Ok(()) } else { bad("node id differs") }
        }
        Value::ExternalId(id) => {
            if j["type"] == "external_id" && j["value"].as_u64() == Some(*id) { Ok(()) } else { bad("external id differs") }
        }
        Value::EdgeKey(k) => {
            if j["type"] == "edge_key" && j["src"].as_u64() == Some(k.src as u64) && j["dst"].as_u64() == Some(k.dst as u64) && j["rel"].as_u64() == Some(k.rel as u64) { Ok(()) } else { bad("edge key differs") }
        }
        Value::Path(p) => {
            if j["type"] == "path_legacy" && j["nodes"].as_array().map(|a| a.len()) == Some(p.nodes.len()) { Ok(()) } else { bad("legacy path differs") }
        }
    }
}

fn row_matches(row: &[(String, Value)], j: &J) -> Result<(), String> {
    let Some(o) = j.as_object() else { return Err(format!("row is not an object: {j}")) };
    if o.len() != row.len() {
        return Err(format!("row has {} columns, C API row has {}", row.len(), o.len()));
    }
    for (k, v) in row {
        match o.get(k) {
            Some(x) => value_matches(v, x, k)?,
            None => return Err(format!("column {k} missing in the C API row")),
        }
    }
    Ok(())
}

/// Value of a statement-API column against the Rust value.
fn col_matches(v: &Value, c: &Col, path: &str) -> Result<(), String> {
    let bad = |what: &str| Err(format!("{path}: {what}: Rust {} vs column {c:?}", crate::common::cypher::canon_value(v, true)));
    match (v, c) {
        (Value::Null, Col::Null) => Ok(()),
        (Value::Bool(a), Col::Bool(b)) if a == b => Ok(()),
        (Value::Int(a), Col::Int(b)) if a == b => Ok(()),
        (Value::DateTime(a), Col::Int(b)) if a == b => Ok(()),
        (Value::Float(a), Col::Double(b)) if a.to_bits() == b.to_bits() || (a.is_nan() && b.is_nan()) => Ok(()),
        (Value::String(a), Col::Str(b)) if a == b => Ok(()),
        (Value::List(_), Col::Json(5, j)) => value_matches(v, j, path),
        (Value::Map(_), Col::Json(6, j)) => value_matches(v, j, path),
        (Value::Node(_), Col::Json(7, j)) => value_matches(v, j, path),
        (Value::Relationship(_), Col::Json(8, j)) => value_matches(v, j, path),
        (Value::ReifiedPath(_), Col::Json(9, j)) => value_matches(v, j, path),
        (Value::Blob(_), Col::Json(10, j)) => value_matches(v, j, path),
        _ => bad("column type or value differs"),
    }
}

/// Multiset comparison of rows with the mapping above. Some(description) on a difference.
fn rows_differ<T>(exp: &Rows, got: &[T], m: impl Fn(&[(String, Value)], &T) -> Result<(), String>) -> Option<(String, String)> {
    if exp.len() != got.len() {
        return Some(("row-count".into(), format!("Rust API returned {} rows, C API {}", exp.len(), got.len())));
    }
    // same order is the common case
    if exp.iter().zip(got).all(|(r, g)| m(r, g).is_ok()) {
        return None;
    }
    let mut used = vec![false; got.len()];
    for r in exp {
        let mut found = false;
        let mut first_err = String::new();
        for (i, g) in got.iter().enumerate() {
            if used[i] {
                continue;
            }
            match m(r, g) {
                Ok(()) => {
                    used[i] = true;
                    found = true;
                    break;
                }
                Err(e) => {
                    if first_err.is_empty() {
                        first_err = e;
                    }
                }
            }
        }
        if !found {
            let kind = first_err.split(": ").nth(1).unwrap_or("row").to_string();
            return Some((format!("value:{kind}"), format!("no C API row matches Rust row {:?}: {first_err}", crate::common::cypher::canon_rows(&vec![r.clone()], true))));
        }
    }
    None
}

// ---------------------------------------------------------------------------------------------
// Rust side
// ---------------------------------------------------------------------------------------------

#[derive(Debug, Clone)]
struct RErr {
    phase: &'static str,
    msg: String,
}

impl RErr {
    /// Category by the engine's own message convention; None when the message has no prefix.
    fn category(&self) -> Option<i32> {
        let m = self.msg.to_lowercase();
        if self.phase == "parse" || m.starts_with("syntax error") {
            Some(CAT_SYNTAX)
        } else if m.starts_with("runtime error") || m.starts_with("execution error") {
            Some(CAT_EXECUTION)
        } else if m.starts_with("i/o error") {
            Some(CAT_STORAGE)
        } else {
            None
        }
    }
}

/// `prepare` strips an EXPLAIN prefix before parsing; so does this.
fn strip_explain(text: &str) -> &str {
    let t = text.trim_start();
    match (t.get(..7), t.get(7..)) {
        (Some(h), Some(tail)) if h.eq_ignore_ascii_case("EXPLAIN") && tail.chars().next().is_none_or(|c| c.is_whitespace()) => tail.trim_start(),
        _ => text,
    }
}

fn rust_parse(text: &str) -> Result<(), RErr> {
    let text = strip_explain(text);
    if text.is_empty() {
        return Ok(()); // "EXPLAIN" alone: prepare reports it
    }
    match catch_unwind(AssertUnwindSafe(|| ndb_core::query::parse(text).map(|_| ()).map_err(|e| e.to_string()))) {
        Ok(Ok(())) => Ok(()),
        Ok(Err(m)) => Err(RErr { phase: "parse", msg: m }),
        Err(p) => Err(RErr { phase: "panic", msg: crate::common::dump::panic_msg(&p) }),
    }
}

fn rust_read(db: &Db, s: &Stmt) -> Result<Rows, RErr> {
    rust_parse(&s.text)?;
    match crate::common::cypher::run_read(db, &s.text, &to_params(&s.params), true) {
        Ok(r) => Ok(r),
        Err(QErr::Compile(m)) => Err(RErr { phase: "compile", msg: m }),
        Err(QErr::Runtime(m)) => Err(RErr { phase: "execute", msg: m }),
        Err(QErr::Commit(m)) => Err(RErr { phase: "commit", msg: m }),
        Err(QErr::Panic(m)) => Err(RErr { phase: "panic", msg: m }),
    }
}

fn rust_write(db: &Db, s: &Stmt) -> Result<u32, RErr> {
    rust_parse(&s.text)?;
    match crate::common::cypher::run_write(db, &s.text, &to_params(&s.params)) {
        Ok((_, n)) => Ok(n),
        Err(QErr::Compile(m)) => Err(RErr { phase: "compile", msg: m }),
        Err(QErr::Runtime(m)) => Err(RErr { phase: "execute", msg: m }),
        Err(QErr::Commit(m)) => Err(RErr { phase: "commit", msg: m }),
        Err(QErr::Panic(m)) => Err(RErr { phase: "panic", msg: m }),
    }
}

/// Several statements in one explicit Rust transaction, a failing statement leaving nothing.
fn rust_txn(db: &Db, stmts: &[Stmt]) -> (Vec<Result<u32, RErr>>, Result<(), String>) {
    let mut outs = Vec::new();
    let mut txn = db.begin_write();
    for s in stmts {
        let r = catch_unwind(AssertUnwindSafe(|| {
            rust_parse(&s.text)?;
            let prepared = prepare(&s.text).map_err(|e| RErr { phase: "compile", msg: e.to_string() })?;
            let snap = db.snapshot();
            let sp = txn.savepoint();
            match prepared.execute_mixed(&snap, &mut txn, &to_params(&s.params)) {
                Ok((_, n)) => Ok(n),
                Err(e) => {
                    txn.rollback_to(sp);
                    Err(RErr { phase: "execute", msg: e.to_string() })
                }
            }
        }));
        outs.push(match r {
            Ok(x) => x,
            Err(p) => Err(RErr { phase: "panic", msg: crate::common::dump::panic_msg(&p) }),
        });
    }
    let c = txn.commit().map_err(|e| e.to_string());
    (outs, c)
}

// ---------------------------------------------------------------------------------------------
// generators
// ---------------------------------------------------------------------------------------------

const UNI: [&str; 8] = ["é", "żółw", "日本語", "名前", "ß", "🙂", "Ünï", "д"];

fn gen_param_value(rng: &mut Rng, depth: u32) -> Value {
    let top = if depth >= 2 { 5 } else { 7 };
    match rng.below(top) {
        0 => Value::Null,
        1 => Value::Bool(rng.chance(1, 2)),
        2 => Value::Int(*rng.pick(&[0i64, 1, -1, 42, i64::MAX, i64::MIN, (1 << 53) + 1, -(1 << 53) - 1, 1 << 31])),
        3 => Value::Float(*rng.pick(&[0.5f64, -0.0, 1.0, -2.5, 1e300, 5e-324, 0.1, 9007199254740993.0, 1e21, -1e-7])),
        4 => Value::String(match rng.below(6) {
            0 => String::new(),
            1 => "plain".into(),
            2 => rng.pick(&UNI).to_string(),
            3 => "quote ' and \" and \\ back".into(),
            4 => "line\nbreak\ttab".into(),
            _ => format!("{}{}", rng.pick(&UNI), rng.pick(&UNI)),
        }),
        5 => Value::List((0..rng.below(4)).map(|_| gen_param_value(rng, depth + 1)).collect()),
        _ => Value::Map((0..rng.below(4)).map(|i| (format!("k{i}"), gen_param_value(rng, depth + 1))).collect()),
    }
}

fn strip_slices(q: &mut super::reference::Query) {
    use super::reference::Clause;
    let mut one = |sq: &mut super::reference::SingleQuery| {
        sq.ret.skip = None;
        sq.ret.limit = None;
        for c in sq.clauses.iter_mut() {
            if let Clause::With(p) = c {
                p.skip = None;
                p.limit = None;
            }
        }
    };
    one(&mut q.first);
    if let Some((_, b)) = q.union.as_mut() {
        one(b);
    }
}

fn gen_reads(rng: &mut Rng, g: &Graph, out: &mut Vec<Stmt>) {
    // typed reads of the C11 generator
    for _ in 0..6 {
        let mut gen_ = Gen { rng, cells: Default::default() };
        let mut q = gen_.query();
        // which rows SKIP/LIMIT keep is not fixed between two executions of the same query
        // (ties under ORDER BY, no ORDER BY at all): the comparison needs a deterministic multiset
        strip_slices(&mut q);
        out.push(Stmt::read("typed-read", render(&q)));
    }
    // every value kind
    let kinds: Vec<Stmt> = vec![
        Stmt::read("kind:node", "MATCH (n) RETURN n"),
        Stmt::read("kind:node+parts", "MATCH (n) RETURN n, labels(n) AS l, properties(n) AS p, id(n) AS i"),
        Stmt::read("kind:relationship", "MATCH (a)-[r]->(b) RETURN r, type(r) AS t, id(a) AS a, id(b) AS b"),
        Stmt::read("kind:path", "MATCH p = (a)-[*0..2]->(b) RETURN p, length(p) AS len"),
        Stmt::read("kind:path-parts", "MATCH p = (a)-[*1..2]->(b) RETURN nodes(p) AS ns, relationships(p) AS rs"),
        Stmt::read("kind:path-undirected", "MATCH p = (a)-[r]-(b) RETURN p"),
        Stmt::read("kind:collect-nodes", "MATCH (n) RETURN collect(n) AS ns, count(*) AS c"),
        Stmt::read("kind:map-of-entities", "MATCH (a)-[r]->(b) RETURN {from: a, rel: r, list: [b, 1, 'x']} AS m"),
        Stmt::read("kind:optional-null-entities", "MATCH (a) OPTIONAL MATCH (a)-[r:S]->(b) RETURN a.uid AS u, r, b"),
        Stmt::read("kind:float-specials", "RETURN 0.0/0.0 AS nan, 1.0/0.0 AS inf, -1.0/0.0 AS ninf, -0.0 AS nz, 1.0 AS one, 1e300 AS big, 5e-324 AS tiny, 0.1 + 0.2 AS s"),
        Stmt::read("kind:int-boundaries", "RETURN 9223372036854775807 AS max, -9223372036854775807 - 1 AS min, 9007199254740993 AS p53, 0 AS z"),
        Stmt::read("kind:nested-collections", "RETURN [1, [2.5, ['x', null]], {a: {b: [true]}}] AS l, {} AS em, [] AS el"),
        Stmt::read("kind:strings", "RETURN 'a\\'b' AS q, 'tab\\there' AS t, '' AS e, 'line\\nbreak' AS n"),
        Stmt::read("kind:aggregates", "MATCH (n) RETURN count(n) AS c, sum(n.k) AS s, avg(n.v) AS a, min(n.name) AS mn, max(n.n) AS mx, collect(n.flag) AS fl"),
        Stmt::read("kind:explain", "EXPLAIN MATCH (n) RETURN n"),
        Stmt::read("kind:keyword-in-string", "RETURN 'CREATE (n) SET n.x = 1 DELETE n' AS s"),
        Stmt::read("kind:union", "MATCH (n:A) RETURN n.uid AS u UNION MATCH (n:B) RETURN n.uid AS u"),
        Stmt::read("kind:subquery", "MATCH (n) CALL { WITH n MATCH (n)-->(m) RETURN count(m) AS c } RETURN n.uid AS u, c"),
        Stmt::read("kind:exists-subquery", "MATCH (n) WHERE exists { MATCH (n)-->() } RETURN n.uid AS u"),
        Stmt::read("kind:unwind-order", "UNWIND [3, 1, 2] AS x RETURN x ORDER BY x DESC"),
        Stmt::read("kind:datetime", "RETURN datetime('2020-01-02T03:04:05Z') AS d"),
    ];
    for s in kinds {
        if rng.chance(2, 3) {
            out.push(s);
        }
    }
    // parameters of every JSON-expressible kind, echoed and used
    for _ in 0..4 {
        let v = gen_param_value(rng, 0);
        out.push(Stmt::read("param:echo", "RETURN $v AS v, [$v, 1] AS l, {k: $v} AS m").with("v", v));
    }
    if !g.nodes.is_empty() {
        let u = g.nodes[rng.below(g.nodes.len())].uid;
        out.push(Stmt::read("param:filter", "MATCH (n {uid: $u}) RETURN n, $s AS s").with("u", Value::Int(u)).with("s", Value::String(rng.pick(&UNI).to_string())));
        out.push(Stmt::read("param:in-list", "MATCH (n) WHERE n.uid IN $us RETURN n.uid AS u ORDER BY u").with("us", Value::List(vec![Value::Int(u), Value::Int(1), Value::Float(2.0)])));
    }
    // non-ASCII text at every byte offset near the start of the statement
    for _ in 0..4 {
        let u = *rng.pick(&UNI);
        let pad = " ".repeat(rng.below(8));
        let t = match rng.below(6) {
            0 => format!("{pad}WITH '{u}' AS x RETURN x"),
            1 => format!("{pad}RETURN '{u}' AS s, size('{u}') AS n"),
            2 => format!("{pad}MATCH (n) WHERE n.name = '{u}' RETURN count(n) AS c"),
            3 => format!("{pad}UNWIND ['{u}', 'x'] AS s RETURN s"),
            4 => format!("{pad}RETURN 1 AS `{u}`"),
            _ => format!("{pad}MATCH (n) RETURN '{u}' + coalesce(n.name, '') AS s"),
        };
        out.push(Stmt::read("non-ascii", t));
    }
}

fn gen_failing_reads(rng: &mut Rng, out: &mut Vec<Stmt>) {
    let bad: Vec<(&str, &str)> = vec![
        ("err:syntax:garbage", "RETRN 1"),
        ("err:syntax:unclosed-paren", "MATCH (n RETURN n"),
        ("err:syntax:unclosed-string", "RETURN 'abc"),
        ("err:syntax:trailing", "RETURN 1 AS x x"),
        ("err:syntax:empty", ""),
        ("err:syntax:bad-number", "RETURN 1e999999 AS x, 12abc"),
        ("err:syntax:int-overflow", "RETURN 99999999999999999999 AS x"),
        ("err:syntax:clause-order", "RETURN 1 AS x MATCH (n) RETURN n"),
        ("err:compile:undefined-variable", "MATCH (n) RETURN m"),
        ("err:compile:unknown-function", "RETURN nosuchfunction(1) AS x"),
        ("err:compile:aggregate-in-where", "MATCH (n) WHERE count(n) > 1 RETURN n"),
        ("err:compile:rebinding", "MATCH (n) WITH n AS m, 1 AS m RETURN m"),
        ("err:compile:union-columns", "RETURN 1 AS a UNION RETURN 2 AS b"),
        ("err:runtime:toBoolean", "UNWIND [true, 1.5] AS x RETURN toBoolean(x) AS b"),
        ("err:runtime:list-index", "UNWIND [0, 'a'] AS x RETURN [1, 2, 3][x] AS v"),
        ("err:runtime:labels-of-int", "UNWIND [1] AS x RETURN labels(x) AS l"),
        ("err:runtime:division", "RETURN 1 / 0 AS x"),
        ("err:runtime:modulo", "RETURN 1 % 0 AS x"),
        ("err:runtime:range-step", "RETURN range(0, 3, 0) AS r"),
        ("err:runtime:missing-parameter", "RETURN $nope AS x"),
        ("err:runtime:negative-limit", "UNWIND [1, 2] AS x RETURN x LIMIT $k"),
        ("err:runtime:int-overflow", "RETURN 9223372036854775807 + 1 AS x"),
        ("err:runtime:property-of-int", "WITH 1 AS wal RETURN wal.parse AS x"),
        ("err:runtime:type-named-parse", "UNWIND ['parse'] AS syntax RETURN toBoolean([syntax]) AS x"),
        ("err:runtime:substring-negative", "RETURN substring('checkpoint', -1) AS x"),
    ];
    for (fam, t) in bad {
        if rng.chance(1, 2) {
            let mut s = Stmt::read(fam, t);
            if fam == "err:runtime:negative-limit" {
                s = s.with("k", Value::Int(-1));
            }
            // whether a broken text "contains an update" is not defined
            if fam.starts_with("err:syntax") {
                s.updates = None;
            }
            out.push(s);
        }
    }
}

/// Failing statements whose identifiers contain words that an error classifier working on the
/// message text might take for something else (the messages of compile errors embed identifiers).
fn gen_keyword_bearing_failures(rng: &mut Rng, out: &mut Vec<Stmt>) {
    const NAMES: [&str; 12] = ["wallet", "walker", "checkpoint", "checkpoint_id", "compatibility", "parser", "syntaxTree", "io_error_count", "disk_full", "permission_denied", "no_such_file", "expected_total"];
    for _ in 0..3 {
        let n = *rng.pick(&NAMES);
        let (fam, text, updates) = match rng.below(7) {
            0 => ("err:compile:undefined-variable-named", format!("MATCH (n) RETURN {n}.balance AS x"), Some(false)),
            1 => ("err:compile:unknown-function-named", format!("RETURN {n}(1) AS x"), Some(false)),
            2 => ("err:compile:rebinding-named", format!("MATCH ({n}) WITH {n} AS a, 1 AS {n}, 2 AS {n} RETURN a"), Some(false)),
            3 => ("err:compile:type-conflict-named", format!("MATCH ({n})-[{n}]->() RETURN 1 AS x"), Some(false)),
            4 => ("err:runtime:conversion-named", format!("WITH [1] AS {n} RETURN toBoolean({n}) AS x"), Some(false)),
            5 => ("err:compile:write-undefined-variable-named", format!("CREATE (n:T) SET {n}.k = 1"), None),
            _ => ("err:compile:delete-undefined-variable-named", format!("MATCH (n) DELETE {n}"), None),
        };
        out.push(Stmt { family: fam.into(), text, params: BTreeMap::new(), updates });
    }
}

/// Token-level damage to a valid statement: what it contains is no longer known.
fn mutate(rng: &mut Rng, s: &Stmt) -> Stmt {
    let toks: Vec<&str> = s.text.split(' ').collect();
    let mut t: Vec<String> = toks.iter().map(|x| x.to_string()).collect();
    if t.len() > 1 {
        match rng.below(4) {
            0 => {
                let i = rng.below(t.len());
                t.remove(i);
            }
            1 => {
                let i = rng.below(t.len());
                let x = t[i].clone();
                t.insert(i, x);
            }
            2 => {
                let i = rng.below(t.len());
                let j = rng.below(t.len());
                t.swap(i, j);
            }
            _ => {
                let i = rng.below(t.len());
                t[i] = rng.pick(&["RETURN", ")", "(", "'", "CREATE", "$", "é", "WHERE", ",", "}"]).to_string();
            }
        }
    }
    Stmt { family: format!("mutated:{}", s.family.split(':').next().unwrap_or("")), text: t.join(" "), params: s.params.clone(), updates: None }
}

fn gen_writes(rng: &mut Rng, g: &Graph, uid: &mut i64, out: &mut Vec<Stmt>) {
    let mut fresh = || {
        *uid += 1;
        *uid
    };
    let some_uid = |rng: &mut Rng| if g.nodes.is_empty() { 1 } else { g.nodes[rng.below(g.nodes.len())].uid };
    let n = 8 + rng.below(6);
    for _ in 0..n {
        let x = some_uid(rng);
        let y = some_uid(rng);
        let s = match rng.below(30) {
            0 => Stmt::write("create:node", format!("CREATE (:A {{uid: {}, k: 1}})", fresh())),
            1 => Stmt::write("create:path", format!("CREATE (a:B {{uid: {}}})-[:R {{k: 2}}]->(b:C {{uid: {}}})", fresh(), fresh())),
            2 => Stmt::write("create:return", format!("CREATE (n:A {{uid: {}}}) RETURN n", fresh())),
            3 => Stmt::write("create:unwind", format!("UNWIND [1, 2, 3] AS x CREATE (:D {{uid: {} + x, k: x}})", {
                let b = fresh();
                fresh();
                fresh();
                fresh();
                b
            })),
            4 => Stmt::write("create:rel", format!("MATCH (a {{uid: {x}}}), (b {{uid: {y}}}) CREATE (a)-[:T {{name: 'new'}}]->(b)")),
            5 => Stmt::write("set:property", format!("MATCH (n {{uid: {x}}}) SET n.k = 5")),
            6 => Stmt::write("set:merge-map", format!("MATCH (n {{uid: {x}}}) SET n += {{name: 'z', extra: 1.5}}")),
            7 => Stmt::write("set:replace-map", format!("MATCH (n {{uid: {x}}}) SET n = {{uid: {x}, v: 1.5}}")),
            8 => Stmt::write("set:label", format!("MATCH (n {{uid: {x}}}) SET n:D")),
            9 => Stmt::write("set:null-removes", format!("MATCH (n {{uid: {x}}}) SET n.k = null")),
            10 => Stmt::write("remove:property", format!("MATCH (n {{uid: {x}}}) REMOVE n.name")),
            11 => Stmt::write("remove:label", format!("MATCH (n {{uid: {x}}}) REMOVE n:A")),
            12 => Stmt::write("delete:detach", format!("MATCH (n {{uid: {x}}}) DETACH DELETE n")),
            13 => Stmt::write("delete:rel", "MATCH ()-[r:R]->() DELETE r"),
            14 => Stmt::write("delete:node-maybe-connected", format!("MATCH (n {{uid: {x}}}) DELETE n")),
            15 => Stmt::write("merge:node", format!("MERGE (n:A {{uid: {x}}})")),
            16 => Stmt::write("merge:on-create-on-match", format!("MERGE (n:A {{uid: {}}}) ON CREATE SET n.k = 1 ON MATCH SET n.k = 2", if rng.chance(1, 2) { x } else { fresh() })),
            17 => Stmt::write("merge:rel", format!("MATCH (a {{uid: {x}}}), (b {{uid: {y}}}) MERGE (a)-[:R]->(b)")),
            18 => Stmt::write("param:create", "CREATE (:A {uid: $u, name: $s, v: $f})").with("u", Value::Int(fresh())).with("s", Value::String(rng.pick(&UNI).to_string())).with("f", Value::Float(*rng.pick(&[0.5, -0.0, 1.0, 1e300]))),
            19 => Stmt::write("param:set", "MATCH (n {uid: $u}) SET n.p = $v").with("u", Value::Int(x)).with("v", {
                // property values: scalars and lists of scalars
                match rng.below(5) {
                    0 => Value::Null,
                    1 => Value::List(vec![Value::Int(1), Value::Int(2)]),
                    2 => Value::String(rng.pick(&UNI).to_string()),
                    3 => Value::Float(2.0),
                    _ => Value::Int(i64::MAX),
                }
            }),
            20 => Stmt::write("param:set-map", "MATCH (n {uid: $u}) SET n += $m").with("u", Value::Int(x)).with("m", Value::Map([("a".to_string(), Value::Int(1)), ("b".to_string(), Value::Null), ("name".to_string(), Value::String("ż".into()))].into_iter().collect())),
            21 => Stmt::write("nested:foreach-create", format!("FOREACH (x IN [1, 2] | CREATE (:D {{uid: {} + x}}))", {
                let b = fresh();
                fresh();
                fresh();
                b
            })),
            22 => Stmt::write("nested:foreach-set", format!("MATCH (n {{uid: {x}}}) FOREACH (i IN [1, 2] | SET n.k = i)")),
            23 => Stmt::write("nested:call-subquery", format!("CALL {{ CREATE (:D {{uid: {}}}) }}", fresh())),
            24 => Stmt::write("nested:call-subquery-with-return", format!("MATCH (n {{uid: {x}}}) CALL {{ WITH n SET n.sub = 1 RETURN 1 AS one }} RETURN one")),
            25 => Stmt::write("nested:union-first-arm", format!("CREATE (n:D {{uid: {}}}) RETURN n.uid AS u UNION MATCH (n:A) RETURN n.uid AS u", fresh())),
            26 => Stmt::write("nested:union-second-arm", format!("MATCH (n:A) RETURN n.uid AS u UNION CREATE (n:D {{uid: {}}}) RETURN n.uid AS u", fresh())),
            27 => Stmt::write("nested:subquery-in-subquery", format!("CALL {{ CALL {{ CREATE (:D {{uid: {}}}) }} }}", fresh())),
            28 => Stmt::write("non-ascii:create", format!("{}CREATE (:A {{uid: {}, name: '{}'}})", " ".repeat(rng.below(3)), fresh(), rng.pick(&UNI))),
            _ => Stmt::write("non-ascii:merge", format!("MERGE (n:A {{uid: {}}}) SET n.name = '{}'", fresh(), rng.pick(&UNI))),
        };
        out.push(s);
    }
    // update statements of the C12 generator (every clause form, prefixes, parameters, nulls)
    for _ in 0..6 {
        let (fam, text, params) = super::updates_gen::gen_update_statement(rng, g, uid);
        out.push(Stmt { family: format!("update:{fam}"), text, params, updates: Some(true) });
    }
    let mut fresh = || {
        *uid += 1;
        *uid
    };
    // statements that fail at run time after earlier rows succeeded
    let u = fresh();
    let failing = [
        format!("UNWIND [true, 1.5] AS x CREATE (:F {{uid: {u}, v: toBoolean(x)}})"),
        format!("UNWIND [[1], [{{a: 1}}]] AS x CREATE (:F {{uid: {u}, v: x}})"),
        format!("CREATE (:F {{uid: {u}}}) WITH 1 AS one RETURN $missing"),
        format!("CREATE (:F {{uid: {u}}}) SET m.k = 1"),
        format!("CREATE (:F {{uid: {u}}}) RETURN )"),
    ];
    for (i, f) in failing.iter().enumerate() {
        if rng.chance(1, 2) {
            let mut s = Stmt::write("failing-write", f.clone());
            if i >= 3 {
                s.updates = None;
            }
            out.push(s);
        }
    }
}

// ---------------------------------------------------------------------------------------------
// one case (runs in the worker process)
// ---------------------------------------------------------------------------------------------

struct Ctx<'a> {
    out: &'a mut CaseOut,
    seed: u64,
    k: usize,
    g: &'a Graph,
    skip: &'a [usize],
    next_call: usize,
}

impl Ctx<'_> {
    /// Announce a C API call on stdout before making it (the parent needs to know what was running
    /// if the process dies). Returns false when the parent asked to skip this call.
    fn announce(&mut self, entry: &str, s: &Stmt) -> bool {
        let idx = self.next_call;
        self.next_call += 1;
        if self.skip.contains(&idx) {
            return false;
        }
        let line = json!({"call": idx, "entry": entry, "stmt": s.json()}).to_string();
        let mut o = std::io::stdout().lock();
        let _ = writeln!(o, "S {line}");
        let _ = o.flush();
        true
    }

    fn violation(&mut self, sig: String, summary: String, s: &Stmt, extra: J) {
        self.out.violations.push(Violation {
            signature: sig,
            summary,
            detail: json!({"statement": s.json(), "more": extra, "graph": graph_json(self.g)}),
            replay: json!({"engine": "cyphermon", "property": "C34", "seed": self.seed, "case": self.k, "statement": s.text}),
        });
    }

    /// Error category parity. `c` is the C API error, `r` the Rust one.
    fn judge_errors(&mut self, entry: &str, s: &Stmt, r: &RErr, c: &CErr) {
        self.out.count("statements_failing_on_both_sides", 1);
        if refused_as_wrong_kind(c) {
            // the entry point turned the statement away before looking further (a statement of
            // unknown content, or a write that also fails to compile): nothing to compare
            self.out.count("error_category_not_compared_entry_point_refusal", 1);
            return;
        }
        match r.category() {
            Some(cat) => {
                self.out.count("error_categories_compared", 1);
                self.out.cell(format!("err:{}:{}", r.phase, cat));
                if cat != c.category {
                    let name = |x: i32| ["none", "syntax", "execution", "storage", "compatibility"].get(x as usize).copied().unwrap_or("?");
                    self.violation(
                        format!("C34|error-category|rust={}|c={}|{}", name(cat), name(c.category), normalise_msg(&r.msg).chars().take(60).collect::<String>()),
                        format!("{entry}: Rust API error \"{}\" ({} phase) is a {} error by the engine's convention, the C API reports category {} for \"{}\"", r.msg, r.phase, name(cat), name(c.category), c.message),
                        s,
                        json!({"rust_error": r.msg, "rust_phase": r.phase, "c_error": c.message, "c_code": c.code, "c_category": c.category}),
                    );
                }
            }
            None => {
                self.out.count("error_category_not_compared_unprefixed_message", 1);
            }
        }
    }
}

fn bind_all(st: &mut CStmt, params: &BTreeMap<String, Value>) -> Result<(), CErr> {
    for (k, v) in params {
        let b = match v {
            Value::Null => Bind::Null,
            Value::Bool(b) => Bind::Bool(*b),
            Value::Int(i) => Bind::Int(*i),
            Value::Float(f) => Bind::Double(*f),
            Value::String(s) => Bind::Str(s),
            Value::List(_) => Bind::List(value_json(v).to_string()),
            _ => Bind::Map(value_json(v).to_string()),
        };
        st.bind(k, b)?;
    }
    Ok(())
}

fn refused_as_wrong_kind(e: &CErr) -> bool {
    e.message.contains("does not accept write statements") || e.message.contains("expects a write statement")
}

fn value_kinds(rows: &Rows, out: &mut CaseOut) {
    fn walk(v: &Value, out: &mut CaseOut) {
        out.count(&format!("value_kind.{}", super::kind(v)), 1);
        match v {
            Value::List(xs) => xs.iter().for_each(|x| walk(x, out)),
            Value::Map(m) => m.values().for_each(|x| walk(x, out)),
            _ => {}
        }
    }
    for r in rows {
        for (_, v) in r {
            walk(v, out);
        }
    }
}

fn read_phase(cx: &mut Ctx<'_>, rust: &Db, cdb: &CDb, stmts: &[Stmt]) {
    for s in stmts {
        cx.out.evaluations += 1;
        cx.out.count(&format!("family.{}", s.family.split(':').next().unwrap_or("")), 1);
        UNORDERED_LISTS.with(|c| c.set(s.text.to_lowercase().contains("collect(")));
        FLOAT_TOLERANCE.with(|c| c.set(s.text.to_lowercase().contains("avg(") || s.text.to_lowercase().contains("sum(")));
        let r = rust_read(rust, s);
        if let Err(e) = &r
            && e.phase == "panic"
        {
            cx.out.inconclusive("rust-side-panicked");
            continue;
        }
        let pj = params_json(&s.params);
        if let Err(e) = &r
            && e.msg.contains("kind=Timeout")
        {
            // the default soft timeout tripped on an overloaded machine: says nothing about parity
            cx.out.inconclusive("rust-side-hit-the-default-timeout");
            continue;
        }
        // ---- ndb_query
        if cx.announce("ndb_query", s) {
            let c = cdb.query(&s.text, pj.as_deref());
            match (&r, &c) {
                (Ok(rows), Ok(j)) => {
                    cx.out.count("reads_returning_rows_on_both_sides", 1);
                    cx.out.count("rows_compared", rows.len() as u64);
                    value_kinds(rows, cx.out);
                    cx.out.cell(format!("read:{}", s.family));
                    let dup = rows.first().map(|r| {
                        let mut n: Vec<&String> = r.iter().map(|(k, _)| k).collect();
                        n.sort();
                        n.windows(2).any(|w| w[0] == w[1])
                    });
                    if dup == Some(true) {
                        cx.out.inconclusive("duplicate-column-names");
                    } else if let Some(a) = j.as_array() {
                        if let Some((kind, why)) = rows_differ(rows, a, |r, g| row_matches(r, g)) {
                            cx.violation(format!("C34|rows-differ|ndb_query|{kind}|{}", s.family), format!("ndb_query and the Rust API disagree on `{}`: {why}", s.text), s, json!({"c_rows": a.iter().take(5).collect::<Vec<_>>(), "rust_rows": crate::common::cypher::canon_rows(&rows.iter().take(5).cloned().collect(), true)}));
                        }
                    } else {
                        cx.violation("C34|rows-differ|ndb_query|result-not-an-array".into(), format!("ndb_query result for `{}` is not a JSON array", s.text), s, json!({"c": j}));
                    }
                }
                (Err(re), Err(ce)) => {
                    if s.updates == Some(false) && refused_as_wrong_kind(ce) {
                        cx.violation(format!("C34|entry-point|ndb_query-refuses-read|{}", s.family), format!("ndb_query refused the read statement `{}` as a write", s.text), s, json!({"c_error": ce.message}));
                    } else {
                        cx.judge_errors("ndb_query", s, re, ce);
                    }
                }
                (Ok(_), Err(ce)) if ce.message.contains("kind=Timeout") => {
                    cx.out.inconclusive("c-side-hit-the-default-timeout");
                }
                (Ok(rows), Err(ce)) => {
                    cx.violation(
                        format!("C34|outcome-differs|ndb_query-fails|{}|{}", s.family, normalise_msg(&ce.message).chars().take(50).collect::<String>()),
                        format!("the Rust API returns {} rows for `{}`, ndb_query fails: {}", rows.len(), s.text, ce.message),
                        s,
                        json!({"c_error": ce.message, "c_category": ce.category}),
                    );
                }
                (Err(re), Ok(j)) => {
                    cx.violation(
                        format!("C34|outcome-differs|ndb_query-succeeds|{}|{}", s.family, normalise_msg(&re.msg).chars().take(50).collect::<String>()),
                        format!("the Rust API fails for `{}` ({}), ndb_query returns {} rows", s.text, re.msg, j.as_array().map(|a| a.len()).unwrap_or(0)),
                        s,
                        json!({"rust_error": re.msg}),
                    );
                }
            }
        }
        // ---- statement API (C strings cannot carry NUL; such values are out of its domain)
        if s.params.values().all(|v| !matches!(v, Value::String(x) if x.contains('\0'))) && cx.announce("ndb_prepare_read+step", s) {
            let got: Result<Vec<Vec<Col>>, CErr> = (|| {
                let mut st = cdb.prepare(&s.text, false)?;
                bind_all(&mut st, &s.params)?;
                let mut rows = Vec::new();
                while let Some(r) = st.step()? {
                    rows.push(r);
                    if rows.len() > 100_000 {
                        break;
                    }
                }
                Ok(rows)
            })();
            match (&r, &got) {
                (Ok(rows), Ok(crow)) => {
                    cx.out.count("statement_api_reads_compared", 1);
                    let m = |r: &[(String, Value)], g: &Vec<Col>| -> Result<(), String> {
                        if r.len() != g.len() {
                            return Err(format!("row: column count {} vs {}", r.len(), g.len()));
                        }
                        for ((k, v), c) in r.iter().zip(g) {
                            col_matches(v, c, k)?;
                        }
                        Ok(())
                    };
                    if let Some((kind, why)) = rows_differ(rows, crow, m) {
                        cx.violation(format!("C34|rows-differ|statement-api|{kind}|{}", s.family), format!("the statement API and the Rust API disagree on `{}`: {why}", s.text), s, json!({}));
                    }
                }
                (Err(re), Err(ce)) => {
                    if !(s.updates == Some(false) && refused_as_wrong_kind(ce)) {
                        cx.judge_errors("ndb_prepare_read/ndb_stmt_step", s, re, ce);
                    } else {
                        cx.violation(format!("C34|entry-point|ndb_prepare_read-refuses-read|{}", s.family), format!("ndb_prepare_read refused the read statement `{}`", s.text), s, json!({"c_error": ce.message}));
                    }
                }
                (Ok(_), Err(ce)) if ce.message.contains("kind=Timeout") => {
                    cx.out.inconclusive("c-side-hit-the-default-timeout");
                }
                (Ok(rows), Err(ce)) => {
                    cx.violation(format!("C34|outcome-differs|statement-api-fails|{}|{}", s.family, normalise_msg(&ce.message).chars().take(50).collect::<String>()), format!("the Rust API returns {} rows for `{}`, the statement API fails: {}", rows.len(), s.text, ce.message), s, json!({"c_error": ce.message}));
                }
                (Err(re), Ok(c)) => {
                    cx.violation(format!("C34|outcome-differs|statement-api-succeeds|{}|{}", s.family, normalise_msg(&re.msg).chars().take(50).collect::<String>()), format!("the Rust API fails for `{}` ({}), the statement API returns {} rows", s.text, re.msg, c.len()), s, json!({"rust_error": re.msg}));
                }
            }
        }
        // ---- the write entry point must refuse a statement without updates, with no effect
        if s.updates == Some(false) && r.is_ok() && cx.announce("ndb_execute_write(read)", s) {
            cx.out.count("reads_offered_to_write_entry_point", 1);
            match cdb.execute_write(&s.text, pj.as_deref()) {
                Err(e) if refused_as_wrong_kind(&e) => {
                    if e.category != CAT_EXECUTION {
                        cx.violation("C34|entry-point|refusal-category".into(), format!("ndb_execute_write refused a read statement with category {}", e.category), s, json!({"c_error": e.message}));
                    }
                }
                Err(e) => {
                    cx.violation(format!("C34|entry-point|ndb_execute_write-read-other-error|{}", s.family), format!("ndb_execute_write on the read statement `{}` failed with \"{}\" instead of refusing it as a read", s.text, e.message), s, json!({"c_error": e.message}));
                }
                Ok(n) => {
                    cx.violation(format!("C34|entry-point|ndb_execute_write-accepts-read|{}", s.family), format!("ndb_execute_write accepted the read statement `{}` (count {n})", s.text), s, json!({}));
                }
            }
        }
    }
}

/// The graph as seen through `ndb_query` on B against the Rust API on A.
fn content_differs(rust: &Db, cdb: &CDb) -> Option<String> {
    for q in ["MATCH (n) RETURN n.uid AS u, labels(n) AS l, properties(n) AS p", "MATCH (a)-[r]->(b) RETURN a.uid AS a, type(r) AS t, b.uid AS b, properties(r) AS p"] {
        let s = Stmt::read("content", q);
        let r = rust_read(rust, &s);
        let c = cdb.query(q, None);
        match (r, c) {
            (Ok(rows), Ok(j)) => {
                let a = j.as_array().cloned().unwrap_or_default();
                // label order is not fixed
                let m = |r: &[(String, Value)], g: &J| -> Result<(), String> {
                    for (k, v) in r {
                        if k == "l" {
                            let mut x: Vec<String> = match v {
                                Value::List(xs) => xs.iter().map(|v| crate::common::cypher::canon_value(v, false)).collect(),
                                _ => vec![],
                            };
                            x.sort();
                            let mut y: Vec<String> = g[k].as_array().map(|a| a.iter().map(|s| format!("s:{:?}", s.as_str().unwrap_or("?"))).collect()).unwrap_or_default();
                            y.sort();
                            if x != y {
                                return Err(format!("l: labels: {x:?} vs {y:?}"));
                            }
                        } else {
                            value_matches(v, &g[k], k)?;
                        }
                    }
                    Ok(())
                };
                if let Some((_, why)) = rows_differ(&rows, &a, m) {
                    return Some(format!("{q}: {why}"));
                }
            }
            (r, c) => return Some(format!("{q}: content query failed: rust ok={} c ok={}", r.is_ok(), c.is_ok())),
        }
    }
    None
}

fn write_phase(cx: &mut Ctx<'_>, rust: &Db, cdb: &CDb, stmts: &[Stmt], mode: &str) -> bool {
    // mode: "auto" (ndb_execute_write), "stmt" (ndb_prepare_write + step), "txn" (explicit transaction)
    if mode == "txn" {
        cx.out.count("explicit_transactions", 1);
        let (routs, rcommit) = rust_txn(rust, stmts);
        if stmts.is_empty() {
            return true;
        }
        if !cx.announce("ndb_begin_write..ndb_txn_commit", &stmts[0]) {
            return false;
        }
        let mut couts: Vec<Result<(), CErr>> = Vec::new();
        let ccommit = match cdb.begin_write() {
            Ok(mut t) => {
                for s in stmts {
                    let line = json!({"call": cx.next_call, "entry": "ndb_txn_query", "stmt": s.json()}).to_string();
                    println!("S {line}");
                    couts.push(t.query(&s.text, params_json(&s.params).as_deref()));
                }
                t.commit().map_err(|e| e.message)
            }
            Err(e) => Err(e.message),
        };
        for ((s, r), c) in stmts.iter().zip(&routs).zip(&couts) {
            cx.out.evaluations += 1;
            cx.out.count("writes_in_explicit_transactions", 1);
            judge_write(cx, "ndb_txn_query", s, r, &c.clone().map(|_| None));
        }
        if rcommit.is_ok() != ccommit.is_ok() {
            cx.violation("C34|outcome-differs|transaction-commit".into(), format!("commit of the same transaction: Rust {rcommit:?}, C API {ccommit:?}"), &stmts[0], json!({}));
        }
        return true;
    }
    for s in stmts {
        cx.out.evaluations += 1;
        cx.out.count(&format!("family.{}", s.family.split(':').next().unwrap_or("")), 1);
        let pj = params_json(&s.params);
        // the read entry point must refuse an updating statement and leave no trace
        if s.updates == Some(true) && rust_parse(&s.text).is_ok() && cx.announce("ndb_query(write)", s) {
            cx.out.count("writes_offered_to_read_entry_point", 1);
            if s.family.starts_with("nested") {
                cx.out.count("nested_writes_offered_to_read_entry_point", 1);
            }
            match cdb.query(&s.text, pj.as_deref()) {
                Err(e) if refused_as_wrong_kind(&e) => {
                    cx.out.cell(format!("refused:{}", s.family));
                }
                Err(e) => {
                    // refused for another reason (e.g. the statement is not supported at all)
                    cx.out.count("writes_failing_in_read_entry_point_for_other_reasons", 1);
                    let _ = e;
                }
                Ok(_) => {
                    cx.violation(format!("C34|entry-point|ndb_query-accepts-write|{}", s.family), format!("ndb_query accepted the updating statement `{}`", s.text), s, json!({}));
                }
            }
            if let Some(d) = content_differs(rust, cdb) {
                cx.violation(format!("C34|entry-point|ndb_query-write-had-effect|{}", s.family), format!("after offering `{}` to ndb_query the database differs: {d}", s.text), s, json!({}));
                return true;
            }
        }
        let r = rust_write(rust, s);
        if let Err(e) = &r
            && e.phase == "panic"
        {
            cx.out.inconclusive("rust-side-panicked");
            return true;
        }
        let entry = if mode == "stmt" { "ndb_prepare_write+step" } else { "ndb_execute_write" };
        if !cx.announce(entry, s) {
            return false;
        }
        let c: Result<Option<u32>, CErr> = if mode == "stmt" {
            (|| {
                let mut st = cdb.prepare(&s.text, true)?;
                bind_all(&mut st, &s.params)?;
                while st.step()?.is_some() {}
                Ok(Some(st.write_count()?))
            })()
        } else {
            cdb.execute_write(&s.text, pj.as_deref()).map(Some)
        };
        cx.out.count(if mode == "stmt" { "writes_through_statement_api" } else { "writes_through_ndb_execute_write" }, 1);
        judge_write(cx, entry, s, &r, &c);
        if let Some(d) = content_differs(rust, cdb) {
            cx.violation(format!("C34|content-differs|{entry}|{}", s.family), format!("after `{}` through {entry} and through the Rust API the databases differ: {d}", s.text), s, json!({}));
            return true;
        }
    }
    true
}

fn judge_write(cx: &mut Ctx<'_>, entry: &str, s: &Stmt, r: &Result<u32, RErr>, c: &Result<Option<u32>, CErr>) {
    let timed_out = |m: &str| m.contains("kind=Timeout");
    if r.as_ref().err().is_some_and(|e| timed_out(&e.msg)) || c.as_ref().err().is_some_and(|e| timed_out(&e.message)) {
        cx.out.inconclusive("a-side-hit-the-default-timeout");
        return;
    }
    match (r, c) {
        (Ok(n), Ok(m)) => {
            cx.out.count("writes_succeeding_on_both_sides", 1);
            cx.out.cell(format!("write:{}", s.family));
            if s.family.starts_with("nested") {
                cx.out.count("nested_writes_executed", 1);
            }
            if let Some(m) = m
                && m != n
            {
                cx.violation(format!("C34|count-differs|{entry}|{}", s.family), format!("`{}`: execute_mixed reports {n} changes, {entry} reports {m}", s.text), s, json!({}));
            }
        }
        (Err(re), Err(ce)) => {
            if s.updates == Some(true) && refused_as_wrong_kind(ce) {
                cx.violation(format!("C34|entry-point|{entry}-refuses-write|{}", s.family), format!("{entry} refused the updating statement `{}` as a read (the Rust API fails differently: {})", s.text, re.msg), s, json!({"c_error": ce.message}));
            } else {
                cx.judge_errors(entry, s, re, ce);
            }
        }
        (Ok(_), Err(ce)) if s.updates.is_none() && refused_as_wrong_kind(ce) => {
            // damaged text that no longer contains an update: the write entry point may refuse it
            cx.out.count("mutated_writes_refused_by_write_entry_point", 1);
        }
        (Ok(n), Err(ce)) => {
            let kind = if s.updates == Some(true) && refused_as_wrong_kind(ce) { "entry-point" } else { "outcome-differs" };
            cx.violation(format!("C34|{kind}|{entry}-fails|{}|{}", s.family, normalise_msg(&ce.message).chars().take(50).collect::<String>()), format!("execute_mixed + commit succeeds for `{}` ({n} changes), {entry} fails: {}", s.text, ce.message), s, json!({"c_error": ce.message, "c_category": ce.category}));
        }
        (Err(re), Ok(m)) => {
            cx.violation(format!("C34|outcome-differs|{entry}-succeeds|{}|{}", s.family, normalise_msg(&re.msg).chars().take(50).collect::<String>()), format!("the Rust API fails for `{}` ({}), {entry} succeeds ({m:?})", s.text, re.msg), s, json!({"rust_error": re.msg}));
        }
    }
}

fn copy_dir(a: &std::path::Path, b: &std::path::Path) -> std::io::Result<()> {
    for e in std::fs::read_dir(a)? {
        let e = e?;
        std::fs::copy(e.path(), b.join(e.file_name()))?;
    }
    Ok(())
}

/// `vmon C34-worker <seed> <case> <out file> <skip,comma,separated>`
pub fn worker(argv: &[String]) {
    let seed: u64 = argv[0].parse().expect("seed");
    let k: usize = argv[1].parse().expect("case");
    let out_path = &argv[2];
    let skip: Vec<usize> = argv.get(3).map(|s| s.split(',').filter_map(|x| x.parse().ok()).collect()).unwrap_or_default();
    std::panic::set_hook(Box::new(|_| {}));
    let mut out = CaseOut::default();
    one_case(seed, k, &skip, &mut out);
    std::fs::write(out_path, out.to_json().to_string()).expect("write case result");
    crate::common::sut::cleanup_scratch_root();
}

fn one_case(seed: u64, k: usize, skip: &[usize], out: &mut CaseOut) {
    let mut rng = Rng::derive(seed, k as u64);
    let cfg = GraphCfg { max_nodes: 6, max_edges: 10, parallel_edges: false, self_loops: k % 3 == 0 };
    let g = gen_graph(&mut rng, &cfg);
    let da = ScratchDir::new("c34a");
    let db_ = ScratchDir::new("c34b");
    {
        let Ok(db) = Db::open(da.db_base()) else {
            out.inconclusive("open");
            return;
        };
        if load(&db, &g).is_err() {
            out.inconclusive("load");
            return;
        }
        if k % 3 == 1 {
            let _ = db.compact();
        }
        if db.close().is_err() {
            out.inconclusive("close");
            return;
        }
    }
    if copy_dir(&da.path, &db_.path).is_err() {
        out.inconclusive("copy");
        return;
    }
    let Ok(rust) = Db::open(da.db_base()) else {
        out.inconclusive("reopen");
        return;
    };
    let cdb = match CDb::open(&db_.db_base()) {
        Ok(d) => d,
        Err(e) => {
            out.violations.push(Violation { signature: "C34|outcome-differs|ndb_open".into(), summary: format!("ndb_open fails on a copy of a database the Rust API opens: {}", e.message), detail: json!({}), replay: json!({"seed": seed, "case": k}) });
            return;
        }
    };
    let mut reads = Vec::new();
    gen_reads(&mut rng, &g, &mut reads);
    gen_failing_reads(&mut rng, &mut reads);
    gen_keyword_bearing_failures(&mut rng, &mut reads);
    let n_mut = 4;
    for _ in 0..n_mut {
        let i = rng.below(reads.len());
        let m = mutate(&mut rng, &reads[i].clone());
        reads.push(m);
    }
    let mut uid = 1000 + (k as i64 % 7) * 100;
    let mut writes = Vec::new();
    gen_writes(&mut rng, &g, &mut uid, &mut writes);
    for _ in 0..2 {
        let i = rng.below(writes.len());
        let m = mutate(&mut rng, &writes[i].clone());
        writes.push(m);
    }
    let mode = ["auto", "stmt", "txn", "auto"][k % 4];
    let mut cx = Ctx { out, seed, k, g: &g, skip, next_call: 0 };
    cx.out.count("cases", 1);
    cx.out.count(&format!("mode.{mode}"), 1);
    read_phase(&mut cx, &rust, &cdb, &reads);
    let before = uid_view(&rust);
    if let Some(d) = content_differs(&rust, &cdb) {
        cx.violation("C34|content-differs|after-reads".into(), format!("after the read statements the two databases differ: {d}"), &reads[0], json!({}));
        return;
    }
    write_phase(&mut cx, &rust, &cdb, &writes, mode);
    // reads again on the updated graphs (ids of created entities, new value kinds)
    let mut again = Vec::new();
    for s in reads.iter().filter(|s| s.family.starts_with("kind:") || s.family == "typed-read").take(8) {
        again.push(s.clone());
    }
    read_phase(&mut cx, &rust, &cdb, &again);
    // final comparison through the Rust API on both copies
    let fa = uid_view(&rust);
    drop(rust);
    if cdb.close().is_err() {
        cx.out.inconclusive("ndb_close-failed");
        return;
    }
    match Db::open(db_.db_base()) {
        Ok(b) => {
            let fb = uid_view(&b);
            cx.out.count("final_dumps_compared", 1);
            if fa != before {
                cx.out.count("cases_whose_writes_changed_the_graph", 1);
            }
            let d = diff_facts(&fa, &fb, 6);
            if !d.is_empty() {
                cx.violation(format!("C34|content-differs|final-dump|{mode}"), format!("after the same statements the database written through the C API differs from the one written through the Rust API: {d:?}"), &writes[0], json!({"statements": writes.iter().map(|s| s.json()).collect::<Vec<_>>()}));
            }
        }
        Err(e) => {
            cx.violation("C34|content-differs|reopen-after-c-api".into(), format!("the database written through the C API does not open: {e}"), &writes[0], json!({}));
        }
    }
}

// ---------------------------------------------------------------------------------------------
// parent
// ---------------------------------------------------------------------------------------------

fn run_case(seed: u64, k: usize, dir: &ScratchDir) -> CaseOut {
    let mut total = CaseOut::default();
    let mut skip: Vec<usize> = Vec::new();
    let outp = dir.path.join(format!("case-{k}.json"));
    for _attempt in 0..6 {
        let _ = std::fs::remove_file(&outp);
        let skips = skip.iter().map(|x| x.to_string()).collect::<Vec<_>>().join(",");
        let res = run_worker(&["C34-worker".into(), seed.to_string(), k.to_string(), outp.to_string_lossy().to_string(), skips], Duration::from_secs(120), None, &[]);
        match res.exit {
            Exit::Ok => {
                if let Ok(s) = std::fs::read_to_string(&outp)
                    && let Ok(j) = serde_json::from_str::<J>(&s)
                {
                    total.merge(CaseOut::from_json(&j));
                } else {
                    total.inconclusive("worker-result-unreadable");
                }
                return total;
            }
            Exit::Signal(sig) => {
                let last = res.lines.iter().rev().find(|l| l.starts_with("S ")).and_then(|l| serde_json::from_str::<J>(&l[2..]).ok());
                let Some(last) = last else {
                    total.inconclusive(&format!("worker-died-before-any-call-{}", signal_name(sig)));
                    return total;
                };
                let entry = last["entry"].as_str().unwrap_or("?").to_string();
                let panic_line = res.stderr_tail.lines().rev().find(|l| l.contains("is not a char boundary") || l.contains("panicked at")).unwrap_or("").to_string();
                let msg_line = res
                    .stderr_tail
                    .lines()
                    .skip_while(|l| !l.contains("panicked at"))
                    .nth(1)
                    .unwrap_or("")
                    .to_string();
                let why = if msg_line.is_empty() { panic_line } else { msg_line };
                let why_sig: String = normalise_msg(&why).split(';').next().unwrap_or("").chars().take(60).collect();
                total.count("c_api_calls_that_killed_the_process", 1);
                total.violations.push(Violation {
                    signature: format!("C34|c-api-call-kills-host|{}|{}|{why_sig}", signal_name(sig), entry.split('(').next().unwrap_or("")),
                    summary: format!("{entry} on `{}` terminated the process with {} ({why}); the Rust API returns a result or an error for the same statement", last["stmt"]["text"].as_str().unwrap_or("?"), signal_name(sig)),
                    detail: json!({"call": last, "stderr_tail": res.stderr_tail.chars().take(600).collect::<String>()}),
                    replay: json!({"engine": "cyphermon", "property": "C34", "seed": seed, "case": k, "statement": last["stmt"]["text"]}),
                });
                match last["call"].as_u64() {
                    Some(c) => skip.push(c as usize),
                    None => return total,
                }
            }
            Exit::Timeout => {
                total.inconclusive("worker-watchdog");
                return total;
            }
            Exit::Code(c) => {
                total.inconclusive(&format!("worker-exit-code-{c}"));
                return total;
            }
        }
    }
    total.inconclusive("worker-killed-repeatedly");
    total
}

pub fn main(args: &Args) -> Report {
    let mut rep = Report::new(
        "C34",
        &args.tier,
        args.seed,
        "exploration",
        "per case one random graph, its database files copied; copy A driven through the Rust API (parse, prepare, execute_streaming + reify, execute_mixed + commit, explicit transaction with statement savepoints), copy B through the C ABI (ndb_query, ndb_prepare_read/bind/step/column getters, ndb_execute_write, ndb_prepare_write, ndb_begin_write/ndb_txn_query/ndb_txn_commit) in a child process. Statements: typed reads of the C11 generator, one template per value kind (nodes, relationships, paths, maps and lists of entities, float and integer boundaries, strings, aggregates, EXPLAIN), JSON-expressible parameters of every kind, non-ASCII text at every byte offset near the start, failing statements (syntax, compile, run time), updates of every clause incl. nested positions (FOREACH, CALL {}, UNION arms), token-mutated statements. Oracles: rows equal as multisets under a fixed Value->JSON mapping (non-finite floats only must not become numbers); change counts and database content (through both APIs, and a final dump of both files through the Rust API) equal; error category equals the category of the Rust error by the engine's message-prefix convention (parse failure or 'syntax error:' => syntax; 'runtime error:'/'execution error:' => execution; unprefixed: not compared); read entry points refuse statements generated with an update and leave no effect, write entry points refuse statements generated without one; no call terminates the process. A cell is (outcome kind, statement family)",
    );
    rep.assume("what a statement contains (update or not) is known from its generation, not from parsing; mutated statements are judged only for equal outcome");
    rep.assume("row order is not compared (C20 owns ordering; the C API adds no ordering of its own beyond the JSON array)");
    let n = if args.thorough() { 16_000 } else { 500 };
    let deadline = Instant::now() + Duration::from_secs(args.budget_s(150, 1500));
    let dir = ScratchDir::new("c34");
    let (out, done) = par_cases(n, threads(), Some(deadline), |k| run_case(args.seed, k, &dir));
    rep.out = out;
    rep.out.count("cases_planned", n as u64);
    rep.out.count("cases_done", done as u64);
    // Floors are per completed case (the run is bounded by a wall-clock budget, and how many
    // cases fit depends on the machine): a fifth of the planned cases must have run, and the
    // completed ones must have produced what a case produces on average.
    let done_cases = rep.counter("cases_done").max(1);
    rep.floor("cases completed", done_cases, (n as u64) / 5);
    let per = |x: u64| x * done_cases / 100;
    rep.floor("statements", rep.out.evaluations, per(5_000));
    rep.floor("reads returning rows on both sides", rep.counter("reads_returning_rows_on_both_sides"), per(2_000));
    rep.floor("statement-API reads compared", rep.counter("statement_api_reads_compared"), per(2_000));
    rep.floor("writes succeeding on both sides", rep.counter("writes_succeeding_on_both_sides"), per(800));
    rep.floor("writes offered to the read entry point", rep.counter("writes_offered_to_read_entry_point"), per(700));
    rep.floor("nested writes offered to the read entry point", rep.counter("nested_writes_offered_to_read_entry_point"), per(80));
    rep.floor("reads offered to the write entry point", rep.counter("reads_offered_to_write_entry_point"), per(2_000));
    rep.floor("error categories compared", rep.counter("error_categories_compared"), per(1_500));
    rep.floor("writes in explicit transactions", rep.counter("writes_in_explicit_transactions"), per(250));
    for kind in ["node", "relationship", "path", "map", "list", "float", "int", "string", "bool", "null", "nan", "inf"] {
        rep.floor(&format!("values of kind {kind} compared"), rep.counter(&format!("value_kind.{kind}")), per(30));
    }
    rep
}

// ---------------------------------------------------------------------------------------------
// the C ABI under the undefined-behaviour interpreter
// ---------------------------------------------------------------------------------------------

/// `vmon C34-miri`: one pass over every kind of C API call, small enough for Miri. The C ABI is
/// the only `unsafe` code of the project; what Miri watches here is its pointer handling
/// (handles from `Box::into_raw`, strings from `CString::into_raw`, out-parameters, the error
/// buffer copy, the `'static` transaction borrowing the boxed database).
pub fn miri_script() {
    use ndb_capi as c;
    use std::ffi::CString;
    let dir = ScratchDir::new("c34miri");
    let db = CDb::open(&dir.db_base()).expect("ndb_open");
    let mut calls = 0usize;
    let mut step = |what: &str| {
        calls += 1;
        println!("call {calls}: {what}");
    };
    step("ndb_execute_write create");
    assert!(db.execute_write("CREATE (:A {uid: 1, name: 'ż', v: 1.5, l: [1, 2]})-[:R {k: 1}]->(:B {uid: 2})", None).is_ok());
    step("ndb_execute_write with parameters");
    assert!(db.execute_write("MATCH (n {uid: $u}) SET n += $m", Some("{\"u\": 1, \"m\": {\"w\": 3, \"s\": \"é\"}}")).is_ok());
    step("ndb_query every value kind");
    let j = db.query("MATCH p = (a)-[r]->(b) RETURN a, r, p, {m: [a.uid, null, 1.5]} AS m, 0.0/0.0 AS nan", None).expect("ndb_query");
    assert_eq!(j.as_array().map(|a| a.len()), Some(1));
    step("ndb_query refusing a write");
    assert!(db.query("CREATE (:X)", None).is_err());
    step("ndb_query syntax error + error buffer sizes");
    assert!(db.query("RETURN 'abc", None).is_err());
    for len in [0usize, 1, 2, 8, 4096] {
        let mut buf = vec![0x7fu8; len.max(1)];
        let n = c::ndb_last_error_message(if len == 0 { std::ptr::null_mut() } else { buf.as_mut_ptr() as *mut c_char_ }, len);
        assert!(n > 0);
        if len > 0 {
            assert!(buf[..len].contains(&0), "error message is NUL-terminated inside the buffer");
        }
    }
    let _ = (c::ndb_last_error_code(), c::ndb_last_error_category());
    step("non-ASCII statement");
    assert!(db.query("WITH 'é' AS x RETURN x", None).is_ok());
    step("statement API: bind every kind, step, columns, reset, finalize");
    {
        let mut st = db.prepare("RETURN $a AS a, $b AS b, $c AS c, $d AS d, $e AS e, $f AS f, $g AS g", false).expect("prepare_read");
        st.bind("a", Bind::Null).unwrap();
        st.bind("b", Bind::Bool(true)).unwrap();
        st.bind("c", Bind::Int(i64::MIN)).unwrap();
        st.bind("d", Bind::Double(-0.0)).unwrap();
        st.bind("e", Bind::Str("日本")).unwrap();
        st.bind("f", Bind::List("[1, [2, null], \"x\"]".into())).unwrap();
        st.bind("g", Bind::Map("{\"k\": {\"n\": 1.5}}".into())).unwrap();
        let row = st.step().expect("step").expect("one row");
        assert_eq!(row.len(), 7);
        assert!(st.step().expect("step").is_none());
        st.reset().unwrap();
        assert!(st.step().expect("step after reset").is_some());
        assert!(st.bind("", Bind::Null).is_err());
        assert!(st.bind("f", Bind::List("{}".into())).is_err());
    }
    step("statement API: entity columns");
    {
        let mut st = db.prepare("MATCH p = (a)-[r]->(b) RETURN a, r, p", false).expect("prepare_read");
        while let Some(r) = st.step().expect("step") {
            assert_eq!(r.len(), 3);
        }
    }
    step("statement API: write statement");
    {
        let mut st = db.prepare("CREATE (:C {uid: $u})", true).expect("prepare_write");
        st.bind("u", Bind::Int(3)).unwrap();
        assert!(st.step().expect("step").is_none());
        assert_eq!(st.write_count().unwrap(), 1);
        assert!(db.prepare("RETURN 1", true).is_err());
        assert!(db.prepare("CREATE (:X)", false).is_err());
    }
    step("explicit transaction: statements, failing statement, commit");
    {
        let mut t = db.begin_write().expect("begin_write");
        t.query("CREATE (:D {uid: 4})", None).unwrap();
        assert!(t.query("UNWIND [true, 1.5] AS x CREATE (:F {uid: 9, v: toBoolean(x)})", None).is_err());
        assert!(t.query("RETURN 1", None).is_err());
        t.commit().unwrap();
    }
    step("explicit transaction: rollback, and drop without commit");
    {
        let mut t = db.begin_write().expect("begin_write");
        t.query("CREATE (:D {uid: 5})", None).unwrap();
        t.rollback().unwrap();
        let mut t2 = db.begin_write().expect("begin_write");
        t2.query("CREATE (:D {uid: 6})", None).unwrap();
        drop(t2);
    }
    step("null pointers at every entry point");
    {
        let q = CString::new("RETURN 1").unwrap();
        let mut res: *mut c::ndb_result_t = std::ptr::null_mut();
        assert_ne!(c::ndb_query(std::ptr::null_mut(), q.as_ptr(), std::ptr::null(), &mut res), c::NDB_OK);
        assert_ne!(c::ndb_execute_write(std::ptr::null_mut(), q.as_ptr(), std::ptr::null(), std::ptr::null_mut()), c::NDB_OK);
        assert_ne!(c::ndb_close(std::ptr::null_mut()), c::NDB_OK);
        c::ndb_result_free(std::ptr::null_mut());
        c::ndb_string_free(std::ptr::null_mut());
        assert_eq!(c::ndb_stmt_finalize(std::ptr::null_mut()), c::NDB_OK);
        let mut st: *mut c::ndb_stmt_t = std::ptr::null_mut();
        assert_ne!(c::ndb_prepare_read(std::ptr::null_mut(), q.as_ptr(), &mut st), c::NDB_OK);
        let mut state = 0;
        assert_ne!(c::ndb_stmt_step(std::ptr::null_mut(), &mut state), c::NDB_OK);
        assert_ne!(c::ndb_txn_commit(std::ptr::null_mut()), c::NDB_OK);
        assert_ne!(c::ndb_open(std::ptr::null(), std::ptr::null_mut()), c::NDB_OK);
    }
    step("maintenance entry points");
    assert!(db.compact().is_ok());
    let after = db.query("MATCH (n) RETURN count(n) AS c", None).expect("count");
    assert_eq!(after[0]["c"], serde_json::json!(4));
    step("ndb_close with an open transaction is refused, then close");
    {
        let t = db.begin_write().expect("begin_write");
        // closing now must be refused (BUSY) and must leave the handle usable
        let raw_close_refused = db.try_close_while_busy();
        assert!(raw_close_refused);
        t.rollback().unwrap();
    }
    assert!(db.query("RETURN 1 AS x", None).is_ok());
    db.close().expect("ndb_close");
    println!("MIRI-SCRIPT-OK {calls}");
}

#[allow(non_camel_case_types)]
type c_char_ = std::os::raw::c_char;
