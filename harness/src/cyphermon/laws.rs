//! C23: expressions follow three-valued logic, propagate null, `=` is an equivalence on non-null
//! non-NaN values, the ordering operators agree with it and with each other (also between
//! integers and floats), and integer overflow follows one rule (finite Float, never a wrapped Int).
//!
//! Value tuples from boundary pools are substituted as parameters into expression templates; the
//! oracle is a table (logic), an exact comparison (numbers) or a rewrite evaluated by the engine
//! itself.

use super::{Prep, Scratch, boundary_numbers, cmp_num, is_nan, kind, params};
use crate::common::cypher::{QErr, canon_value};
use crate::common::report::{Args, CaseOut, Report, Violation};
use crate::common::rng::Rng;
use ndb_core::query::Value;
use serde_json::json;
use std::cmp::Ordering;

fn tv(v: &Value) -> Option<Option<bool>> {
    match v {
        Value::Bool(b) => Some(Some(*b)),
        Value::Null => Some(None),
        _ => None,
    }
}

fn show(v: &Value) -> String {
    canon_value(v, false)
}

struct Ctx<'a> {
    s: &'a Scratch,
    prep: Prep,
    out: CaseOut,
}

impl Ctx<'_> {
    fn eval(&mut self, expr: &str, ps: &[(&str, Value)]) -> Result<Value, QErr> {
        self.out.evaluations += 1;
        self.prep.eval(&self.s.db, &format!("RETURN {expr} AS r"), &params(ps))
    }

    fn violation(&mut self, law: &str, class: &str, summary: String, detail: serde_json::Value) {
        self.out.violations.push(Violation {
            signature: format!("C23|{law}|{class}"),
            summary,
            detail: detail.clone(),
            replay: json!({"engine":"cyphermon","property":"C23","law":law,"case":detail}),
        });
    }
}

fn and3(a: Option<bool>, b: Option<bool>) -> Option<bool> {
    match (a, b) {
        (Some(false), _) | (_, Some(false)) => Some(false),
        (Some(true), Some(true)) => Some(true),
        _ => None,
    }
}
fn or3(a: Option<bool>, b: Option<bool>) -> Option<bool> {
    match (a, b) {
        (Some(true), _) | (_, Some(true)) => Some(true),
        (Some(false), Some(false)) => Some(false),
        _ => None,
    }
}
fn xor3(a: Option<bool>, b: Option<bool>) -> Option<bool> {
    match (a, b) {
        (Some(x), Some(y)) => Some(x ^ y),
        _ => None,
    }
}
fn b3(v: Option<bool>) -> Value {
    match v {
        Some(b) => Value::Bool(b),
        None => Value::Null,
    }
}

/// Different syntactic sources of the same truth value (parameter, literal, comparison result).
fn truth_exprs(name: &str, v: Option<bool>) -> Vec<String> {
    let mut e = vec![format!("${name}")];
    match v {
        Some(true) => e.extend(["true".to_string(), "(1 = 1)".to_string(), "(1 < 2)".to_string()]),
        Some(false) => e.extend(["false".to_string(), "(1 = 2)".to_string(), "('a' > 'b')".to_string()]),
        None => e.extend(["null".to_string(), "(1 = null)".to_string(), "(null < 3)".to_string()]),
    }
    e
}

fn logic_tables(c: &mut Ctx<'_>) {
    let vals = [Some(true), Some(false), None];
    for a in vals {
        for ea in truth_exprs("a", a) {
            let r = c.eval(&format!("NOT {ea}"), &[("a", b3(a))]);
            let want = a.map(|x| !x);
            c.out.count("law.truth-table", 1);
            if r.as_ref().ok().and_then(tv) != Some(want) {
                c.violation("truth-table-NOT", "3vl", format!("NOT {ea} (a={a:?}) gave {:?}, expected {want:?}", r.map(|v| show(&v))), json!({"expr": format!("NOT {ea}"), "a": format!("{a:?}")}));
            }
        }
        for b in vals {
            for (op, f) in [("AND", and3 as fn(_, _) -> _), ("OR", or3), ("XOR", xor3)] {
                for ea in truth_exprs("a", a) {
                    for eb in truth_exprs("b", b) {
                        let expr = format!("{ea} {op} {eb}");
                        let r = c.eval(&expr, &[("a", b3(a)), ("b", b3(b))]);
                        let want = f(a, b);
                        c.out.count("law.truth-table", 1);
                        c.out.cell(format!("truth:{op}:{a:?}:{b:?}"));
                        if r.as_ref().ok().and_then(tv) != Some(want) {
                            c.violation(&format!("truth-table-{op}"), "3vl", format!("{expr} with a={a:?} b={b:?} gave {:?}, expected {want:?}", r.map(|v| show(&v))), json!({"expr": expr, "a": format!("{a:?}"), "b": format!("{b:?}")}));
                        }
                    }
                }
            }
            // De Morgan, evaluated by the engine on both sides
            for (l, r) in [("NOT ($a AND $b)", "(NOT $a) OR (NOT $b)"), ("NOT ($a OR $b)", "(NOT $a) AND (NOT $b)"), ("$a XOR $b", "($a OR $b) AND NOT ($a AND $b)")] {
                let ps = [("a", b3(a)), ("b", b3(b))];
                let (x, y) = (c.eval(l, &ps), c.eval(r, &ps));
                c.out.count("law.de-morgan", 1);
                if let (Ok(x), Ok(y)) = (&x, &y)
                    && show(x) != show(y)
                {
                    c.violation("de-morgan", "3vl", format!("{l} = {} but {r} = {} for a={a:?} b={b:?}", show(x), show(y)), json!({"left": l, "right": r, "a": format!("{a:?}"), "b": format!("{b:?}")}));
                }
            }
        }
    }
}

fn scalar_pool() -> Vec<Value> {
    let mut v = boundary_numbers();
    v.push(Value::Float(f64::NAN));
    for s in ["", "a", "A", "ab", "b", "é", "2020-01-02", "10", "9"] {
        v.push(Value::String(s.into()));
    }
    v.push(Value::Bool(true));
    v.push(Value::Bool(false));
    v
}

fn null_propagation(c: &mut Ctx<'_>) {
    for a in scalar_pool() {
        let numeric = matches!(a, Value::Int(_) | Value::Float(_));
        let mut ops: Vec<&str> = vec!["=", "<>", "<", "<=", ">", ">="];
        if numeric {
            ops.extend(["+", "-", "*", "/", "%"]);
        }
        for op in ops {
            for expr in [format!("$a {op} null"), format!("null {op} $a"), format!("$a {op} $n"), format!("$n {op} $a")] {
                let r = c.eval(&expr, &[("a", a.clone()), ("n", Value::Null)]);
                c.out.count("law.null-propagation", 1);
                c.out.cell(format!("null-prop:{op}:{}", kind(&a)));
                match r {
                    Ok(Value::Null) => {}
                    other => c.violation("null-propagation", &format!("{op}:{}", kind(&a)), format!("{expr} with a={} gave {:?}, expected null", show(&a), other.map(|v| show(&v))), json!({"expr": expr, "a": show(&a)})),
                }
            }
        }
    }
}

fn eq3(c: &mut Ctx<'_>, a: &Value, b: &Value) -> Option<Option<bool>> {
    c.eval("$a = $b", &[("a", a.clone()), ("b", b.clone())]).ok().as_ref().and_then(tv)
}

fn number_class(a: &Value, b: &Value) -> String {
    let big = |v: &Value| match v {
        Value::Int(i) => i.unsigned_abs() > (1u64 << 53),
        Value::Float(f) => f.abs() > 9007199254740992.0,
        _ => false,
    };
    format!("{}~{}{}", kind(a), kind(b), if big(a) || big(b) { ":beyond-2^53" } else { "" })
}

fn equality_laws(c: &mut Ctx<'_>, rng: &mut Rng, n_triples: usize) {
    let pool = scalar_pool();
    // reflexive, symmetric
    for a in &pool {
        if is_nan(a) {
            continue;
        }
        c.out.count("law.eq-reflexive", 1);
        if eq3(c, a, a) != Some(Some(true)) {
            c.violation("equality-not-reflexive", kind(a), format!("{} = itself is not true", show(a)), json!({"a": show(a)}));
        }
        for b in &pool {
            c.out.count("law.eq-symmetric", 1);
            let (x, y) = (eq3(c, a, b), eq3(c, b, a));
            if x != y {
                c.violation("equality-not-symmetric", &number_class(a, b), format!("({} = {}) is {x:?} but reversed is {y:?}", show(a), show(b)), json!({"a": show(a), "b": show(b)}));
            }
        }
    }
    // transitive over numeric triples (this is where i64/f64 coercion shows)
    let nums: Vec<Value> = boundary_numbers().into_iter().filter(|v| !is_nan(v)).collect();
    let mut done = 0;
    // clusters: every triple drawn from values that are numerically close is tried exhaustively
    for a in &nums {
        for b in &nums {
            if eq3(c, a, b) != Some(Some(true)) {
                continue;
            }
            for cc in &nums {
                c.out.count("law.eq-transitive", 1);
                done += 1;
                if eq3(c, b, cc) == Some(Some(true)) && eq3(c, a, cc) != Some(Some(true)) {
                    c.violation("equality-not-transitive", &format!("{}={}={}", kind(a), kind(b), kind(cc)), format!("{} = {} and {} = {} but not {} = {}", show(a), show(b), show(b), show(cc), show(a), show(cc)), json!({"a": show(a), "b": show(b), "c": show(cc)}));
                }
            }
        }
    }
    let _ = (rng, n_triples, done);
}

fn comparison_laws(c: &mut Ctx<'_>, rng: &mut Rng, extra_random: usize) {
    let mut nums: Vec<Value> = boundary_numbers();
    // random neighbours of 2^53 .. 2^63 on both sides
    for _ in 0..extra_random {
        let sh = 50 + rng.below(13) as u32;
        let base = (1i64 << sh).wrapping_add(rng.range(-3, 3));
        nums.push(Value::Int(if rng.chance(1, 2) { base } else { -base }));
        nums.push(Value::Float((1u64 << sh) as f64 + rng.range(-2, 2) as f64 * 2f64.powi(sh as i32 - 52)));
    }
    let ops = ["<", "<=", ">", ">=", "=", "<>"];
    for a in &nums {
        for b in &nums {
            let Some(exact) = cmp_num(a, b) else { continue };
            let mut got = Vec::new();
            for op in ops {
                let r = c.eval(&format!("$a {op} $b"), &[("a", a.clone()), ("b", b.clone())]);
                got.push(r.as_ref().ok().and_then(tv));
            }
            c.out.count("law.number-comparison", 1);
            c.out.cell(format!("cmp:{}", number_class(a, b)));
            let want = [exact == Ordering::Less, exact != Ordering::Greater, exact == Ordering::Greater, exact != Ordering::Less, exact == Ordering::Equal, exact != Ordering::Equal];
            for (i, op) in ops.iter().enumerate() {
                if got[i] != Some(Some(want[i])) {
                    c.violation(
                        &format!("number-comparison-{}", if matches!(*op, "=" | "<>") { "equality" } else { "ordering" }),
                        &number_class(a, b),
                        format!("{} {op} {} gave {:?}; exact arithmetic says {}", show(a), show(b), got[i], want[i]),
                        json!({"a": show(a), "b": show(b), "op": op}),
                    );
                    break;
                }
            }
        }
    }
    // mutual consistency on every scalar pair, judged by the engine's own answers
    let pool = scalar_pool();
    for a in &pool {
        for b in &pool {
            let mut ev = |c: &mut Ctx<'_>, e: &str| c.eval(e, &[("a", a.clone()), ("b", b.clone())]).ok().as_ref().and_then(tv);
            let (lt, le, gt, ge, eq) = (ev(c, "$a < $b"), ev(c, "$a <= $b"), ev(c, "$a > $b"), ev(c, "$a >= $b"), ev(c, "$a = $b"));
            let (gt_rev, le_rev) = (ev(c, "$b > $a"), ev(c, "$b <= $a"));
            c.out.count("law.comparison-consistency", 1);
            let cls = format!("{}~{}", kind(a), kind(b));
            let mut bad: Option<String> = None;
            if let (Some(lt), Some(le), Some(eq)) = (lt, le, eq)
                && le != or3(lt, eq)
                && !(is_nan(a) || is_nan(b))
            {
                bad = Some(format!("a <= b is {le:?} but (a < b) OR (a = b) is {:?}", or3(lt, eq)));
            }
            if lt != gt_rev {
                bad = Some(format!("a < b is {lt:?} but b > a is {gt_rev:?}"));
            }
            if ge != le_rev {
                bad = Some(format!("a >= b is {ge:?} but b <= a is {le_rev:?}"));
            }
            if kind(a) == kind(b) && !matches!(kind(a), "nan") {
                // same kind, comparable: exactly one of <, =, > is true
                let n_true = [lt, eq, gt].iter().filter(|x| **x == Some(Some(true))).count();
                if n_true != 1 {
                    bad = Some(format!("trichotomy: <:{lt:?} =:{eq:?} >:{gt:?}"));
                }
            }
            if let Some(b_) = bad {
                c.violation("comparison-operators-inconsistent", &cls, format!("a={} b={}: {b_}", show(a), show(b)), json!({"a": show(a), "b": show(b)}));
            }
        }
    }
}

fn overflow_rule(c: &mut Ctx<'_>, rng: &mut Rng, n_random: usize) {
    let mut ints: Vec<i64> = vec![0, 1, -1, 2, -2, 3, i64::MAX, i64::MAX - 1, i64::MIN, i64::MIN + 1, 1 << 62, -(1 << 62), 3037000500, -3037000500, 1 << 32, (1 << 31) - 1, 4611686018427387904, 9007199254740993];
    for _ in 0..n_random {
        let sh = rng.below(63) as u32;
        let v = (1i64 << sh).wrapping_add(rng.range(-2, 2));
        ints.push(if rng.chance(1, 2) { v } else { v.wrapping_neg() });
    }
    let check = |c: &mut Ctx<'_>, expr: &str, ps: &[(&str, Value)], exact: Option<i128>, what: String| {
        let r = c.eval(expr, ps);
        c.out.count("law.overflow", 1);
        let Some(exact) = exact else { return };
        let fits = exact >= i64::MIN as i128 && exact <= i64::MAX as i128;
        if !fits {
            c.out.count("law.overflow.out-of-range-results", 1);
        }
        let ok = match &r {
            Ok(Value::Int(i)) => fits && *i as i128 == exact,
            Ok(Value::Float(f)) => !fits && f.is_finite() && ((*f - exact as f64) / (exact as f64)).abs() < 1e-9,
            Ok(_) => false,
            // an error is "not silently wrong"; the rule the code documents is Float, so report it apart
            Err(QErr::Panic(_)) => false,
            Err(_) => !fits,
        };
        if !ok {
            let cls = if fits { "in-range-result-wrong" } else { "overflow-not-finite-float" };
            c.violation(&format!("integer-arithmetic:{}", expr.replace("$a", "a").replace("$b", "b")), cls, format!("{what}: exact result {exact}, engine gave {:?}", r.map(|v| show(&v))), json!({"expr": expr, "operands": what}));
        }
    };
    for &a in &ints {
        check(c, "-$a", &[("a", Value::Int(a))], Some(-(a as i128)), format!("a={a}"));
        check(c, "abs($a)", &[("a", Value::Int(a))], Some((a as i128).abs()), format!("a={a}"));
        for &b in &ints {
            let ps = [("a", Value::Int(a)), ("b", Value::Int(b))];
            let w = format!("a={a} b={b}");
            c.out.cell(format!("overflow:{}:{}", (a.unsigned_abs().max(1)).ilog2() / 8, (b.unsigned_abs().max(1)).ilog2() / 8));
            check(c, "$a + $b", &ps, Some(a as i128 + b as i128), w.clone());
            check(c, "$a - $b", &ps, Some(a as i128 - b as i128), w.clone());
            check(c, "$a * $b", &ps, Some(a as i128 * b as i128), w.clone());
            if b != 0 {
                // truncated division / remainder as in Cypher (and Rust)
                check(c, "$a / $b", &ps, Some((a as i128) / (b as i128)), w.clone());
                check(c, "$a % $b", &ps, Some((a as i128) % (b as i128)), w.clone());
            }
        }
    }
}

pub fn main(args: &Args) -> Report {
    let mut rep = Report::new(
        "C23",
        &args.tier,
        args.seed,
        "exploration",
        "value tuples from boundary pools (i64 limits, 2^53 neighbourhood, floats incl. +-0, +-inf, NaN, strings, booleans, null) substituted as parameters into expression templates evaluated with RETURN: AND/OR/XOR/NOT truth tables over {true,false,null} from parameter, literal and comparison-produced operands; De Morgan; null propagation through arithmetic and comparison; = reflexive/symmetric/transitive; <,<=,>,>=,=,<> against exact integer/float arithmetic and against each other; + - * / % unary - abs() against exact i128 results (in range: that Int; out of range: a finite Float, never a wrapped Int). A cell is (law, operand kinds)",
    );
    rep.assume("division and remainder are truncated (Cypher = Rust semantics); an error instead of a Float on overflow is accepted (not silently wrong)");
    let s = Scratch::new("c23");
    let mut c = Ctx { s: &s, prep: Prep::default(), out: CaseOut::default() };
    let mut rng = Rng::new(args.seed);
    let t = args.thorough();
    logic_tables(&mut c);
    null_propagation(&mut c);
    equality_laws(&mut c, &mut rng, 0);
    comparison_laws(&mut c, &mut rng, if t { 1000 } else { 20 });
    overflow_rule(&mut c, &mut rng, if t { 1500 } else { 30 });
    let mut out = c.out;
    out.samples.push(json!({"law": "number-comparison", "case": "$a < $b with a = 9007199254740993 (Int), b = 9007199254740992.0 (Float): exact arithmetic says false / a > b true"}));
    out.samples.push(json!({"law": "overflow", "case": "$a + $b with a = 9223372036854775807, b = 1: must be a finite Float near 9.223372036854775808e18"}));
    out.samples.push(json!({"law": "truth-table", "case": "(1 = null) XOR $b with b = true: must be null"}));
    // keep a few witnesses per signature
    let mut seen = std::collections::BTreeMap::<String, usize>::new();
    out.violations.retain(|v| {
        let n = seen.entry(v.signature.clone()).or_default();
        *n += 1;
        *n <= 3
    });
    rep.out = out;
    rep.floor("evaluations", rep.out.evaluations, if t { 200_000 } else { 40_000 });
    for law in ["law.truth-table", "law.de-morgan", "law.null-propagation", "law.eq-symmetric", "law.eq-transitive", "law.number-comparison", "law.comparison-consistency", "law.overflow"] {
        rep.floor(law, rep.counter(law), 27);
    }
    rep
}
