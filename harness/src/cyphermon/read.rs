//! C11: for read queries in the supported fragment the engine's rows equal those of the
//! independent reference evaluator (reference.rs) on the same graph — as a multiset, or as a key
//! sequence where ORDER BY fixes the order.

use super::graph::{Graph, GraphCfg, LABELS, TYPES, gen_graph, graph_json, load};
use super::reference::{AggKind, Clause, Deviations, Dir, Expected, Expr, evaluate_with, NodePat, PathPat, Projection, Query, RelPat, SingleQuery, V, canon, canon_engine, evaluate, render, sort_cmp};
use crate::common::cypher::{QErr, run_read};
use crate::common::report::{Args, CaseOut, Report, Violation, par_cases, threads};
use crate::common::rng::Rng;
use crate::common::sut::ScratchDir;
use ndb_core::Db;
use ndb_core::query::{Params, Value};
use serde_json::json;
use std::cmp::Ordering;
use std::collections::BTreeMap;
use std::time::{Duration, Instant};

#[derive(Clone, Copy, Debug, PartialEq)]
pub enum T {
    Int,
    Float,
    Str,
    Bool,
    Node,
    Rel,
    IntList,
}

#[derive(Clone, Default)]
pub struct Scope {
    pub vars: Vec<(String, T)>,
    next: usize,
}

impl Scope {
    fn fresh(&mut self, prefix: &str) -> String {
        self.next += 1;
        format!("{prefix}{}", self.next)
    }
    fn of(&self, t: T) -> Vec<String> {
        self.vars.iter().filter(|(_, x)| *x == t).map(|(n, _)| n.clone()).collect()
    }
}

pub struct Gen<'a> {
    pub rng: &'a mut Rng,
    pub cells: std::collections::BTreeSet<String>,
}

impl Gen<'_> {
    fn lit_int(&mut self) -> Expr {
        Expr::Lit(V::Int(self.rng.range(-1, 4)))
    }

    pub fn int(&mut self, sc: &Scope, depth: u32) -> Expr {
        let nodes = sc.of(T::Node);
        let rels = sc.of(T::Rel);
        let ints = sc.of(T::Int);
        let lists = sc.of(T::IntList);
        let c = self.rng.below(if depth > 1 { 5 } else { 11 });
        match c {
            0 => self.lit_int(),
            1 | 2 if !nodes.is_empty() => Expr::Prop(self.rng.pick(&nodes).clone(), self.rng.pick(&["k", "n"]).to_string()),
            3 if !rels.is_empty() => Expr::Prop(self.rng.pick(&rels).clone(), "k".into()),
            4 if !ints.is_empty() => Expr::Var(self.rng.pick(&ints).clone()),
            5 => {
                self.cells.insert("expr:arithmetic".into());
                let op = *self.rng.pick(&["+", "-", "*"]);
                Expr::Bin(op, Box::new(self.int(sc, depth + 1)), Box::new(self.int(sc, depth + 1)))
            }
            6 => {
                self.cells.insert("expr:arithmetic".into());
                let op = *self.rng.pick(&["/", "%"]);
                Expr::Bin(op, Box::new(self.int(sc, depth + 1)), Box::new(Expr::Lit(V::Int(*self.rng.pick(&[1, 2, 3, -2])))))
            }
            7 if !nodes.is_empty() => {
                self.cells.insert("expr:function".into());
                Expr::Func("id", vec![Expr::Var(self.rng.pick(&nodes).clone())])
            }
            8 => {
                self.cells.insert("expr:function".into());
                Expr::Func("coalesce", vec![self.int(sc, depth + 1), self.lit_int()])
            }
            9 if !nodes.is_empty() => {
                self.cells.insert("expr:function".into());
                Expr::Func("size", vec![Expr::Prop(self.rng.pick(&nodes).clone(), "name".into())])
            }
            10 if !lists.is_empty() => {
                self.cells.insert("expr:function".into());
                Expr::Func("size", vec![Expr::Var(self.rng.pick(&lists).clone())])
            }
            _ => {
                self.cells.insert("expr:function".into());
                Expr::Func("abs", vec![self.int(sc, depth + 1)])
            }
        }
    }

    pub fn float(&mut self, sc: &Scope, depth: u32) -> Expr {
        let nodes = sc.of(T::Node);
        let floats = sc.of(T::Float);
        match self.rng.below(if depth > 1 { 3 } else { 6 }) {
            0 => Expr::Lit(V::Float(*self.rng.pick(&[0.5, 1.5, -2.5, 0.0]))),
            1 if !nodes.is_empty() => Expr::Prop(self.rng.pick(&nodes).clone(), "v".into()),
            2 if !floats.is_empty() => Expr::Var(self.rng.pick(&floats).clone()),
            3 => Expr::Func("toFloat", vec![self.int(sc, depth + 1)]),
            4 => Expr::Bin(*self.rng.pick(&["+", "-", "*"]), Box::new(self.float(sc, depth + 1)), Box::new(self.float(sc, depth + 1))),
            _ => Expr::Lit(V::Float(1.5)),
        }
    }

    pub fn string(&mut self, sc: &Scope, depth: u32) -> Expr {
        let nodes = sc.of(T::Node);
        let rels = sc.of(T::Rel);
        let strs = sc.of(T::Str);
        match self.rng.below(if depth > 1 { 3 } else { 7 }) {
            0 => Expr::Lit(V::Str(self.rng.pick(&["a", "ab", "b", "", "Bo"]).to_string())),
            1 if !nodes.is_empty() => Expr::Prop(self.rng.pick(&nodes).clone(), "name".into()),
            2 if !strs.is_empty() => Expr::Var(self.rng.pick(&strs).clone()),
            3 if !rels.is_empty() => {
                self.cells.insert("expr:function".into());
                Expr::Func("type", vec![Expr::Var(self.rng.pick(&rels).clone())])
            }
            4 => {
                self.cells.insert("expr:function".into());
                Expr::Func("toString", vec![self.int(sc, depth + 1)])
            }
            5 => Expr::Bin("+", Box::new(self.string(sc, depth + 1)), Box::new(self.string(sc, depth + 1))),
            _ => Expr::Func("coalesce", vec![self.string(sc, depth + 1), Expr::Lit(V::Str("x".into()))]),
        }
    }

    pub fn boolean(&mut self, sc: &Scope, depth: u32) -> Expr {
        let nodes = sc.of(T::Node);
        let bools = sc.of(T::Bool);
        let c = self.rng.below(if depth > 1 { 6 } else { 12 });
        match c {
            0 | 1 => {
                self.cells.insert("pred:comparison".into());
                let op = *self.rng.pick(&["=", "<>", "<", "<=", ">", ">="]);
                if self.rng.chance(1, 4) {
                    Expr::Bin(op, Box::new(self.int(sc, depth + 1)), Box::new(self.float(sc, depth + 1)))
                } else {
                    Expr::Bin(op, Box::new(self.int(sc, depth + 1)), Box::new(self.int(sc, depth + 1)))
                }
            }
            2 => {
                self.cells.insert("pred:comparison".into());
                let op = *self.rng.pick(&["=", "<>", "<", ">="]);
                Expr::Bin(op, Box::new(self.string(sc, depth + 1)), Box::new(self.string(sc, depth + 1)))
            }
            3 => {
                self.cells.insert("pred:string-operator".into());
                let op = *self.rng.pick(&["STARTS WITH", "ENDS WITH", "CONTAINS"]);
                Expr::Bin(op, Box::new(self.string(sc, depth + 1)), Box::new(self.string(sc, depth + 1)))
            }
            4 => {
                self.cells.insert("pred:null-test".into());
                let x = if self.rng.chance(1, 2) { self.int(sc, depth + 1) } else { self.string(sc, depth + 1) };
                Expr::IsNull(Box::new(x), self.rng.chance(1, 2))
            }
            5 if !nodes.is_empty() => Expr::Prop(self.rng.pick(&nodes).clone(), "flag".into()),
            6 => {
                self.cells.insert("pred:in".into());
                let n = self.rng.below(4);
                let items = (0..n).map(|_| if self.rng.chance(1, 6) { Expr::Lit(V::Null) } else { self.lit_int() }).collect();
                Expr::In(Box::new(self.int(sc, depth + 1)), Box::new(Expr::ListLit(items)))
            }
            7 => {
                self.cells.insert("pred:connective".into());
                Expr::Not(Box::new(self.boolean(sc, depth + 1)))
            }
            8 | 9 => {
                self.cells.insert("pred:connective".into());
                let op = *self.rng.pick(&["AND", "OR", "XOR"]);
                Expr::Bin(op, Box::new(self.boolean(sc, depth + 1)), Box::new(self.boolean(sc, depth + 1)))
            }
            10 if !bools.is_empty() => Expr::Var(self.rng.pick(&bools).clone()),
            _ => {
                self.cells.insert("pred:comparison".into());
                Expr::Bin("=", Box::new(self.float(sc, depth + 1)), Box::new(self.float(sc, depth + 1)))
            }
        }
    }

    fn node_pat(&mut self, sc: &mut Scope, allow_reuse: bool) -> NodePat {
        let existing = sc.of(T::Node);
        let var = if allow_reuse && !existing.is_empty() && self.rng.chance(1, 4) {
            Some(self.rng.pick(&existing).clone())
        } else if self.rng.chance(3, 4) {
            let v = sc.fresh("n");
            sc.vars.push((v.clone(), T::Node));
            Some(v)
        } else {
            None
        };
        let mut labels = Vec::new();
        if self.rng.chance(1, 3) {
            labels.push(self.rng.pick(&LABELS).to_string());
            if self.rng.chance(1, 5) {
                let l = self.rng.pick(&LABELS).to_string();
                if !labels.contains(&l) {
                    labels.push(l);
                }
            }
            self.cells.insert("pattern:labels".into());
        }
        let mut props = Vec::new();
        if self.rng.chance(1, 7) {
            self.cells.insert("pattern:inline-properties".into());
            if self.rng.chance(1, 2) {
                props.push(("k".to_string(), V::Int(self.rng.range(0, 3))));
            } else {
                props.push(("name".to_string(), V::Str(self.rng.pick(&["a", "ab", "b"]).to_string())));
            }
        }
        NodePat { var, labels, props }
    }

    /// Patterns of the main generator: a bound variable may only start a pattern, every other
    /// node is fresh or anonymous, and a variable-length hop is the only hop of its pattern.
    /// (Shapes in which the engine enforces relationship uniqueness only partly — comma patterns,
    /// a variable-length hop next to other hops, a bound variable in the middle — have their own
    /// family with a sandwich oracle, see `uniqueness_family`.)
    fn path(&mut self, sc: &mut Scope) -> PathPat {
        let n = 1 + self.rng.weighted(&[30, 45, 25]);
        let mut nodes = vec![self.node_pat(sc, true)];
        let mut rels = Vec::new();
        for _ in 1..n {
            let varlen = if n == 2 && self.rng.chance(1, 3) { Some(*self.rng.pick(&[(1usize, 2usize), (0, 1), (2, 2), (1, 3), (0, 2)])) } else { None };
            let var = if varlen.is_none() && self.rng.chance(1, 2) {
                let v = sc.fresh("r");
                sc.vars.push((v.clone(), T::Rel));
                Some(v)
            } else {
                None
            };
            let mut types = Vec::new();
            if self.rng.chance(2, 5) {
                types.push(self.rng.pick(&TYPES).to_string());
                if self.rng.chance(1, 4) {
                    let t = self.rng.pick(&TYPES).to_string();
                    if !types.contains(&t) {
                        types.push(t);
                    }
                }
            }
            let dir = *self.rng.pick(&[Dir::Out, Dir::In, Dir::Both]);
            self.cells.insert(format!("pattern:hop:{dir:?}:varlen={}:types={}", varlen.is_some(), types.len()));
            rels.push(RelPat { var, types, dir, varlen });
            nodes.push(self.node_pat(sc, false));
        }
        self.cells.insert(format!("pattern:nodes={n}"));
        PathPat { nodes, rels }
    }

    fn typed_expr(&mut self, sc: &Scope, t: T) -> Expr {
        match t {
            T::Int => self.int(sc, 0),
            T::Float => self.float(sc, 0),
            T::Str => self.string(sc, 0),
            T::Bool => self.boolean(sc, 0),
            T::Node | T::Rel | T::IntList => {
                let vs = sc.of(t);
                if vs.is_empty() { self.int(sc, 0) } else { Expr::Var(self.rng.pick(&vs).clone()) }
            }
        }
    }

    fn projection(&mut self, sc: &Scope, is_return: bool) -> (Projection, Scope) {
        let mut items: Vec<(Expr, String)> = Vec::new();
        let mut out = Scope { vars: vec![], next: sc.next };
        let aggregate = self.rng.chance(3, 10);
        let n_keys = if aggregate { self.rng.below(3) } else { 1 + self.rng.below(3) };
        for i in 0..n_keys {
            let mut choices = vec![T::Int, T::Int, T::Str, T::Float, T::Bool];
            if !sc.of(T::Node).is_empty() {
                choices.push(T::Node);
                choices.push(T::Node);
            }
            if !sc.of(T::Rel).is_empty() {
                choices.push(T::Rel);
            }
            let t = *self.rng.pick(&choices);
            let e = self.typed_expr(sc, t);
            let t = if matches!(t, T::Node | T::Rel) && !matches!(e, Expr::Var(_)) { T::Int } else { t };
            out.next += 1;
            let alias = format!("c{}_{i}", out.next);
            out.vars.push((alias.clone(), t));
            items.push((e, alias));
        }
        if aggregate {
            self.cells.insert(format!("projection:aggregate:keys={n_keys}"));
            for j in 0..1 + self.rng.below(2) {
                let distinct = self.rng.chance(1, 5);
                let (e, t) = match self.rng.below(8) {
                    0 | 1 => (Expr::Agg(AggKind::CountStar, false, None), T::Int),
                    2 => (Expr::Agg(AggKind::Count, distinct, Some(Box::new(self.int(sc, 1)))), T::Int),
                    3 => (Expr::Agg(AggKind::Sum, distinct, Some(Box::new(self.int(sc, 1)))), T::Int),
                    4 => (Expr::Agg(AggKind::Avg, false, Some(Box::new(self.int(sc, 1)))), T::Float),
                    5 => {
                        let k = *self.rng.pick(&[AggKind::Min, AggKind::Max]);
                        if self.rng.chance(1, 2) { (Expr::Agg(k, false, Some(Box::new(self.int(sc, 1)))), T::Int) } else { (Expr::Agg(k, false, Some(Box::new(self.string(sc, 1)))), T::Str) }
                    }
                    6 => (Expr::Agg(AggKind::Collect, distinct, Some(Box::new(self.int(sc, 1)))), T::IntList),
                    _ => (Expr::Agg(AggKind::Sum, false, Some(Box::new(self.float(sc, 1)))), T::Float),
                };
                self.cells.insert(format!("aggregate:{}", super::reference::render_expr(&e).split('(').next().unwrap_or("?")));
                out.next += 1;
                let alias = format!("a{}_{j}", out.next);
                out.vars.push((alias.clone(), t));
                items.push((e, alias));
            }
        } else {
            self.cells.insert("projection:plain".into());
        }
        let distinct = !aggregate && self.rng.chance(1, 6);
        if distinct {
            self.cells.insert("projection:distinct".into());
        }
        let mut order = Vec::new();
        let mut skip = None;
        let mut limit = None;
        if is_return {
            if self.rng.chance(3, 10) {
                let sortable: Vec<String> = out.vars.iter().filter(|(_, t)| matches!(t, T::Int | T::Float | T::Str | T::Bool)).map(|(n, _)| n.clone()).collect();
                if !sortable.is_empty() {
                    for _ in 0..1 + self.rng.below(2) {
                        let a = self.rng.pick(&sortable).clone();
                        if !order.iter().any(|(x, _): &(String, bool)| *x == a) {
                            order.push((a, self.rng.chance(1, 2)));
                        }
                    }
                    self.cells.insert(format!("tail:order-by:{}", order.len()));
                }
            }
            if self.rng.chance(1, 4) {
                if self.rng.chance(1, 2) {
                    skip = Some(self.rng.below(4));
                }
                if self.rng.chance(2, 3) || skip.is_none() {
                    limit = Some(self.rng.below(6));
                }
                self.cells.insert(format!("tail:skip={}:limit={}:ordered={}", skip.is_some(), limit.is_some(), !order.is_empty()));
            }
        }
        let where_ = if !is_return && self.rng.chance(1, 3) {
            self.cells.insert("with:where".into());
            Some(self.boolean(&out, 1))
        } else {
            None
        };
        (Projection { distinct, items, order, skip, limit, where_ }, out)
    }

    fn single(&mut self, allow_tail: bool) -> SingleQuery {
        let mut sc = Scope::default();
        let mut clauses = Vec::new();
        let n = 1 + self.rng.weighted(&[45, 40, 15]);
        let mut have_match = false;
        for i in 0..n {
            let w = self.rng.weighted(&[60, if have_match { 18 } else { 0 }, 14, if i > 0 { 10 } else { 0 }]);
            match w {
                0 | 1 => {
                    let optional = w == 1;
                    let np = 1;
                    let mut patterns = Vec::new();
                    for _ in 0..np {
                        patterns.push(self.path(&mut sc));
                    }
                    if np > 1 {
                        self.cells.insert("match:comma-patterns".into());
                    }
                    let where_ = if self.rng.chance(1, 2) { Some(self.boolean(&sc, 0)) } else { None };
                    self.cells.insert(format!("clause:{}match:where={}", if optional { "optional-" } else { "" }, where_.is_some()));
                    clauses.push(Clause::Match { optional, patterns, where_ });
                    have_match = true;
                }
                2 => {
                    let var = sc.fresh("x");
                    let n_items = self.rng.below(4);
                    let items: Vec<Expr> = (0..n_items).map(|_| if self.rng.chance(1, 6) { Expr::Lit(V::Null) } else { self.lit_int() }).collect();
                    let expr = if self.rng.chance(1, 8) { Expr::Lit(V::Null) } else { Expr::ListLit(items) };
                    sc.vars.push((var.clone(), T::Int));
                    self.cells.insert("clause:unwind".into());
                    clauses.push(Clause::Unwind { expr, var });
                }
                _ => {
                    let (p, out) = self.projection(&sc, false);
                    sc = out;
                    self.cells.insert("clause:with".into());
                    clauses.push(Clause::With(p));
                }
            }
        }
        let (mut ret, _) = self.projection(&sc, true);
        if !allow_tail {
            ret.order.clear();
            ret.skip = None;
            ret.limit = None;
        }
        SingleQuery { clauses, ret }
    }

    pub fn query(&mut self) -> Query {
        if self.rng.chance(1, 12) {
            // UNION of two queries returning one integer column each
            let mk = |this: &mut Self| {
                let mut q = this.single(false);
                q.ret.items.truncate(1);
                q.ret.items[0].1 = "c0".into();
                q.ret.distinct = false;
                q
            };
            let (a, b) = (mk(self), mk(self));
            let all = self.rng.chance(1, 2);
            self.cells.insert(format!("union:all={all}"));
            return Query { first: a, union: Some((all, b)) };
        }
        Query { first: self.single(true), union: None }
    }
}

// ---------------------------------------------------------------------------------------------
// comparison
// ---------------------------------------------------------------------------------------------

fn canon_sorted_lists_v(v: &V, g: &Graph) -> String {
    match v {
        V::List(xs) => {
            let mut s: Vec<String> = xs.iter().map(|x| canon_sorted_lists_v(x, g)).collect();
            s.sort();
            format!("[{}]", s.join(","))
        }
        other => canon(other, g),
    }
}

fn canon_sorted_lists_e(v: &Value) -> String {
    match v {
        Value::List(xs) => {
            let mut s: Vec<String> = xs.iter().map(canon_sorted_lists_e).collect();
            s.sort();
            format!("[{}]", s.join(","))
        }
        other => canon_engine(other),
    }
}

fn is_submultiset(small: &[String], big: &[String]) -> bool {
    let mut counts: BTreeMap<&String, i64> = BTreeMap::new();
    for b in big {
        *counts.entry(b).or_default() += 1;
    }
    for s in small {
        let c = counts.entry(s).or_default();
        *c -= 1;
        if *c < 0 {
            return false;
        }
    }
    true
}

/// None = agreement; Some(kind) = mismatch.
pub fn compare(g: &Graph, exp: &Expected, got: &[Vec<(String, Value)>]) -> Option<String> {
    let exp_rows: Vec<String> = exp.full.rows.iter().map(|r| r.iter().map(|v| canon_sorted_lists_v(v, g)).collect::<Vec<_>>().join(" | ")).collect();
    let got_rows: Vec<String> = got.iter().map(|r| r.iter().map(|(_, v)| canon_sorted_lists_e(v)).collect::<Vec<_>>().join(" | ")).collect();
    let total = exp_rows.len();
    let want_n = {
        let after_skip = total.saturating_sub(exp.skip);
        exp.limit.map(|l| l.min(after_skip)).unwrap_or(after_skip)
    };
    if got_rows.len() != want_n {
        return Some(if got_rows.len() < want_n { "rows-missing".into() } else { "extra-rows".into() });
    }
    let sliced = exp.skip > 0 || exp.limit.is_some();
    if !sliced {
        let (mut a, mut b) = (exp_rows.clone(), got_rows.clone());
        a.sort();
        b.sort();
        if a != b {
            return Some("rows-differ".into());
        }
    } else if !is_submultiset(&got_rows, &exp_rows) {
        return Some("sliced-rows-not-from-the-full-result".into());
    }
    if exp.ordered {
        // the key sequence of the engine's rows must equal the reference's key slice under the
        // sort order itself (0 and 0.0 are a tie, ties may permute)
        let to_v = |v: &Value| match v {
            Value::Node(n) => V::Node(n.id as usize),
            Value::NodeId(i) => V::Node(*i as usize),
            other => super::reference::from_value(other),
        };
        for (pos, row) in got.iter().enumerate() {
            let want = &exp.full.rows[exp.skip + pos];
            for (i, _) in &exp.order_cols {
                if sort_cmp(&want[*i], &to_v(&row[*i].1)) != Ordering::Equal {
                    return Some("order-differs".into());
                }
            }
        }
    }
    let _ = (sort_cmp, Ordering::Equal);
    None
}

// ---------------------------------------------------------------------------------------------
// shrinking
// ---------------------------------------------------------------------------------------------

fn simplifications(q: &Query) -> Vec<Query> {
    let mut out = Vec::new();
    if q.union.is_some() {
        out.push(Query { first: q.first.clone(), union: None });
        out.push(Query { first: q.union.as_ref().unwrap().1.clone(), union: None });
        return out;
    }
    let s = &q.first;
    let mk = |s: SingleQuery| Query { first: s, union: None };
    // drop tail operators
    if !s.ret.order.is_empty() || s.ret.skip.is_some() || s.ret.limit.is_some() || s.ret.distinct {
        let mut x = s.clone();
        x.ret.skip = None;
        x.ret.limit = None;
        out.push(mk(x.clone()));
        x.ret.order.clear();
        out.push(mk(x.clone()));
        x.ret.distinct = false;
        out.push(mk(x));
    }
    // drop return items (keep order aliases valid)
    if s.ret.items.len() > 1 {
        for i in 0..s.ret.items.len() {
            let alias = &s.ret.items[i].1;
            if s.ret.order.iter().any(|(a, _)| a == alias) {
                continue;
            }
            let mut x = s.clone();
            x.ret.items.remove(i);
            out.push(mk(x));
        }
    }
    // drop WHERE predicates
    for (i, c) in s.clauses.iter().enumerate() {
        if let Clause::Match { where_: Some(_), .. } = c {
            let mut x = s.clone();
            if let Clause::Match { where_, .. } = &mut x.clauses[i] {
                *where_ = None;
            }
            out.push(mk(x));
        }
        if let Clause::Match { where_: Some(Expr::Bin(op, l, r)), .. } = c
            && matches!(*op, "AND" | "OR" | "XOR")
        {
            for side in [l, r] {
                let mut x = s.clone();
                if let Clause::Match { where_, .. } = &mut x.clauses[i] {
                    *where_ = Some((**side).clone());
                }
                out.push(mk(x));
            }
        }
    }
    out
}

fn shrink(db: &Db, g: &Graph, q: &Query, kind: &str) -> Query {
    let mut cur = q.clone();
    for _ in 0..40 {
        let mut improved = false;
        for cand in simplifications(&cur) {
            let text = render(&cand);
            let Ok(rows) = run_read(db, &text, &Params::new(), true) else { continue };
            let exp = evaluate(g, &cand);
            if compare(g, &exp, &rows).as_deref() == Some(kind) {
                cur = cand;
                improved = true;
                break;
            }
        }
        if !improved {
            break;
        }
    }
    cur
}

// ---------------------------------------------------------------------------------------------
// the monitor
// ---------------------------------------------------------------------------------------------

fn query_class(q: &Query) -> String {
    let s = &q.first;
    let mut parts: Vec<&str> = Vec::new();
    for c in &s.clauses {
        match c {
            Clause::Match { optional: true, .. } => parts.push("optional-match"),
            Clause::Match { patterns, .. } => {
                if patterns.iter().any(|p| p.rels.iter().any(|r| r.varlen.is_some())) {
                    parts.push("varlen-match")
                } else if patterns.iter().any(|p| p.rels.iter().any(|r| r.dir == Dir::Both)) {
                    parts.push("undirected-match")
                } else {
                    parts.push("match")
                }
            }
            Clause::Unwind { .. } => parts.push("unwind"),
            Clause::With(_) => parts.push("with"),
        }
    }
    if s.ret.items.iter().any(|(e, _)| matches!(e, Expr::Agg(..))) {
        parts.push("aggregate");
    }
    if s.ret.distinct {
        parts.push("distinct");
    }
    if !s.ret.order.is_empty() {
        parts.push("order-by");
    }
    if s.ret.skip.is_some() || s.ret.limit.is_some() {
        parts.push("skip-limit");
    }
    if q.union.is_some() {
        parts.push("union");
    }
    parts.dedup();
    parts.join("+")
}

fn one_case(seed: u64, k: usize, out: &mut CaseOut) {
    let mut rng = Rng::derive(seed, k as u64);
    // parallel relationships of the same type between the same nodes are one relationship in the
    // storage model; graphs of this check keep (src, type, dst) unique (C12/C06 own that topic)
    let cfg = GraphCfg { max_nodes: 6, max_edges: 10, parallel_edges: false, self_loops: k % 3 == 0 };
    let g = gen_graph(&mut rng, &cfg);
    let dir = ScratchDir::new("c11");
    let Ok(mut db) = Db::open(dir.db_base()) else {
        out.inconclusive("open");
        return;
    };
    if let Err(e) = load(&db, &g) {
        out.inconclusive(&format!("load:{}", crate::storemon::normalise_msg(&e.to_string())));
        return;
    }
    let storage = ["runs", "compacted", "compacted+reopened", "runs"][k % 4];
    match k % 4 {
        1 => {
            let _ = db.compact();
        }
        2 => {
            let _ = db.compact();
            drop(db);
            db = match Db::open(dir.db_base()) {
                Ok(d) => d,
                Err(_) => {
                    out.inconclusive("reopen");
                    return;
                }
            };
        }
        _ => {}
    }
    // the loaded graph must be the model graph, otherwise the case says nothing about queries
    let check = Query {
        first: SingleQuery {
            clauses: vec![Clause::Match { optional: false, patterns: vec![PathPat { nodes: vec![NodePat { var: Some("n".into()), labels: vec![], props: vec![] }], rels: vec![] }], where_: None }],
            ret: Projection { distinct: false, items: vec![(Expr::Func("id", vec![Expr::Var("n".into())]), "i".into()), (Expr::Prop("n".into(), "uid".into()), "u".into()), (Expr::Func("labels", vec![Expr::Var("n".into())]), "l".into())], order: vec![], skip: None, limit: None, where_: None },
        },
        union: None,
    };
    match run_read(&db, &render(&check), &Params::new(), true) {
        Ok(rows) if compare(&g, &evaluate(&g, &check), &rows).is_none() => {}
        _ => {
            out.inconclusive("loaded-graph-differs-from-model");
            return;
        }
    }
    uniqueness_family(&db, &g, &mut rng, storage, seed, k, out);
    let params = Params::new();
    for qi in 0..25 {
        let mut gen_ = Gen { rng: &mut rng, cells: Default::default() };
        let q = gen_.query();
        let cells = gen_.cells;
        let text = render(&q);
        let rows = match run_read(&db, &text, &params, true) {
            Ok(r) => r,
            Err(QErr::Panic(m)) => {
                out.violations.push(Violation { signature: format!("C11|query-panicked|{}", query_class(&q)), summary: format!("{text} panicked: {m}"), detail: json!({"query": text, "graph": graph_json(&g)}), replay: json!({"engine":"cyphermon","property":"C11","seed":seed,"case":k,"query":qi}) });
                continue;
            }
            Err(e) => {
                let m = e.to_string();
                out.inconclusive(&format!("engine-error:{}", crate::storemon::normalise_msg(&m).chars().take(70).collect::<String>()));
                out.count("queries_rejected_or_failed", 1);
                continue;
            }
        };
        let exp = evaluate(&g, &q);
        out.evaluations += 1;
        out.count("queries_compared", 1);
        if !exp.full.rows.is_empty() {
            out.count("queries_with_rows", 1);
        }
        if storage != "runs" {
            out.count("queries_against_compacted_storage", 1);
        }
        for c in &cells {
            out.cell(c.clone());
        }
        if let Some(kind) = compare(&g, &exp, &rows) {
            // deterministic? re-run, then shrink
            let again = run_read(&db, &text, &params, true).ok().and_then(|r| compare(&g, &exp, &r));
            if again.as_deref() != Some(kind.as_str()) {
                out.inconclusive("mismatch-not-reproducible");
                continue;
            }
            let small = shrink(&db, &g, &q, &kind);
            let stext = render(&small);
            let sexp = evaluate(&g, &small);
            let srows = run_read(&db, &stext, &params, true).unwrap_or_default();
            // classify: does imitating one known deviation make the reference agree?
            let mut cause = "-".to_string();
            let names = ["relationship-uniqueness-not-enforced-across-comma-patterns", "skip-limit-applied-before-distinct", "optional-match-multiplies-identical-outer-rows", "variable-length-hop-not-unique-against-other-hops", "bound-node-after-variable-length-hop-not-joined", "bound-node-in-the-middle-of-a-pattern-not-joined", "match-on-null-bound-variable-keeps-the-row"];
            let mut masks: Vec<u32> = (1..128).collect();
            masks.sort_by_key(|m| m.count_ones());
            for m in masks {
                if m.count_ones() > 3 {
                    break;
                }
                let dev = Deviations { uniqueness_per_path_only: m & 1 != 0, slice_before_distinct: m & 2 != 0, optional_match_multiplies_identical_rows: m & 4 != 0, varlen_not_unique_against_other_hops: m & 8 != 0, bound_node_after_varlen_not_joined: m & 16 != 0, bound_middle_node_not_joined: m & 32 != 0, match_on_null_variable_keeps_row: m & 64 != 0, no_uniqueness_between_hops: false };
                if compare(&g, &evaluate_with(&g, &small, dev), &srows).is_none() {
                    cause = if m.count_ones() == 1 { names[m.trailing_zeros() as usize].to_string() } else { "several-recorded-deviations".to_string() };
                    break;
                }
            }
            // DISTINCT + SKIP/LIMIT in an unknown row order: without the slice the engine agrees, and
            // what it returns with the slice are rows of the full distinct result, not more than asked
            if cause == "-" && small.union.is_none() && small.first.ret.distinct && (small.first.ret.skip.is_some() || small.first.ret.limit.is_some()) {
                let mut unsliced = small.clone();
                unsliced.first.ret.skip = None;
                unsliced.first.ret.limit = None;
                let full = evaluate(&g, &unsliced);
                let agrees_unsliced = run_read(&db, &render(&unsliced), &params, true).ok().map(|r| compare(&g, &full, &r).is_none()).unwrap_or(false);
                let got = row_strings_engine(&srows);
                let want_n = full.full.rows.len().saturating_sub(small.first.ret.skip.unwrap_or(0)).min(small.first.ret.limit.unwrap_or(usize::MAX));
                if agrees_unsliced && is_submultiset(&got, &row_strings_ref(&g, &full)) && got.len() <= want_n.max(small.first.ret.limit.unwrap_or(usize::MAX).min(full.full.rows.len())) {
                    cause = "skip-limit-applied-before-distinct".to_string();
                }
            }
            let class = if cause == "-" { query_class(&small) } else { cause.clone() };
            out.violations.push(Violation {
                signature: format!("C11|{kind}|{class}"),
                summary: format!("{stext}: engine returned {} row(s), reference {} (of {} before SKIP/LIMIT)", srows.len(), sexp.full.rows.len().saturating_sub(sexp.skip).min(sexp.limit.unwrap_or(usize::MAX)), sexp.full.rows.len()),
                detail: json!({
                    "query": stext,
                    "original_query": text,
                    "graph": graph_json(&g),
                    "storage": storage,
                    "engine_rows": srows.iter().take(12).map(|r| r.iter().map(|(_, v)| canon_engine(v)).collect::<Vec<_>>().join(" | ")).collect::<Vec<_>>(),
                    "reference_rows": sexp.full.rows.iter().take(12).map(|r| r.iter().map(|v| canon(v, &g)).collect::<Vec<_>>().join(" | ")).collect::<Vec<_>>(),
                }),
                replay: json!({"engine":"cyphermon","property":"C11","seed":seed,"case":k,"query":qi}),
            });
        }
    }
}

// ---------------------------------------------------------------------------------------------
// uniqueness family: shapes where the engine enforces relationship uniqueness only partly
// ---------------------------------------------------------------------------------------------

fn named(i: usize, labels: Vec<String>) -> NodePat {
    NodePat { var: Some(format!("u{i}")), labels, props: vec![] }
}

fn ids_return(vars: &[String]) -> Projection {
    Projection { distinct: false, items: vars.iter().enumerate().map(|(i, v)| (Expr::Func("id", vec![Expr::Var(v.clone())]), format!("i{i}"))).collect(), order: vec![], skip: None, limit: None, where_: None }
}

fn fixed_rel(rng: &mut Rng) -> RelPat {
    let mut types = Vec::new();
    if rng.chance(1, 3) {
        types.push(rng.pick(&TYPES).to_string());
    }
    RelPat { var: None, types, dir: *rng.pick(&[Dir::Out, Dir::In, Dir::Both]), varlen: None }
}

/// (family, query)
fn uniqueness_query(rng: &mut Rng) -> (&'static str, Query) {
    let lbl = |rng: &mut Rng| if rng.chance(1, 4) { vec![rng.pick(&LABELS).to_string()] } else { vec![] };
    let fam = rng.below(4);
    let (name, clauses, vars): (&'static str, Vec<Clause>, Vec<String>) = match fam {
        0 => {
            // comma-separated patterns with fresh variables
            let p1 = PathPat { nodes: vec![named(1, lbl(rng)), named(2, lbl(rng))], rels: vec![fixed_rel(rng)] };
            let p2 = if rng.chance(1, 2) {
                PathPat { nodes: vec![named(3, lbl(rng)), named(4, lbl(rng))], rels: vec![fixed_rel(rng)] }
            } else {
                PathPat { nodes: vec![named(3, lbl(rng)), named(4, vec![]), named(5, lbl(rng))], rels: vec![fixed_rel(rng), fixed_rel(rng)] }
            };
            let n = 1 + p2.nodes.len() + 1;
            ("comma-separated-patterns", vec![Clause::Match { optional: false, patterns: vec![p1, p2], where_: None }], (1..=n).map(|i| format!("u{i}")).collect())
        }
        1 => {
            // a variable-length hop next to a fixed hop in one pattern
            let mut vl = fixed_rel(rng);
            vl.varlen = Some(*rng.pick(&[(1usize, 2usize), (0, 1), (2, 2), (1, 3)]));
            let fx = fixed_rel(rng);
            let rels = if rng.chance(1, 2) { vec![vl, fx] } else { vec![fx, vl] };
            ("variable-length-hop-next-to-another-hop", vec![Clause::Match { optional: false, patterns: vec![PathPat { nodes: vec![named(1, lbl(rng)), named(2, vec![]), named(3, lbl(rng))], rels }], where_: None }], vec!["u1".into(), "u2".into(), "u3".into()])
        }
        2 => {
            // a variable bound by an earlier clause in the middle of a later pattern
            let first = Clause::Match { optional: false, patterns: vec![PathPat { nodes: vec![named(2, lbl(rng))], rels: vec![] }], where_: None };
            let second = Clause::Match { optional: false, patterns: vec![PathPat { nodes: vec![named(1, lbl(rng)), named(2, vec![]), named(3, lbl(rng))], rels: vec![fixed_rel(rng), fixed_rel(rng)] }], where_: None };
            ("bound-variable-in-the-middle", vec![first, second], vec!["u1".into(), "u2".into(), "u3".into()])
        }
        _ => {
            // a bound variable ending a variable-length hop, followed by another hop
            let first = Clause::Match { optional: false, patterns: vec![PathPat { nodes: vec![named(2, lbl(rng))], rels: vec![] }], where_: None };
            let mut vl = fixed_rel(rng);
            vl.varlen = Some(*rng.pick(&[(1usize, 2usize), (0, 1), (1, 1)]));
            let second = Clause::Match { optional: false, patterns: vec![PathPat { nodes: vec![named(1, vec![]), named(2, lbl(rng)), named(3, vec![])], rels: vec![vl, fixed_rel(rng)] }], where_: None };
            ("bound-variable-after-variable-length-hop", vec![first, second], vec!["u1".into(), "u2".into(), "u3".into()])
        }
    };
    (name, Query { first: SingleQuery { clauses, ret: ids_return(&vars) }, union: None })
}

fn row_strings_engine(rows: &[Vec<(String, Value)>]) -> Vec<String> {
    rows.iter().map(|r| r.iter().map(|(_, v)| canon_sorted_lists_e(v)).collect::<Vec<_>>().join(" | ")).collect()
}

fn row_strings_ref(g: &Graph, e: &Expected) -> Vec<String> {
    e.full.rows.iter().map(|r| r.iter().map(|v| canon_sorted_lists_v(v, g)).collect::<Vec<_>>().join(" | ")).collect()
}

fn uniqueness_family(db: &Db, g: &Graph, rng: &mut Rng, storage: &str, seed: u64, k: usize, out: &mut CaseOut) {
    let params = Params::new();
    for qi in 0..6 {
        let (fam, q) = uniqueness_query(rng);
        let text = render(&q);
        let rows = match run_read(db, &text, &params, true) {
            Ok(r) => r,
            Err(QErr::Panic(m)) => {
                out.violations.push(Violation { signature: format!("C11|query-panicked|{fam}"), summary: format!("{text} panicked: {m}"), detail: json!({"query": text, "graph": graph_json(g)}), replay: json!({"engine":"cyphermon","property":"C11","seed":seed,"case":k,"family":fam,"query":qi}) });
                continue;
            }
            Err(e) => {
                out.inconclusive(&format!("engine-error:{}", crate::storemon::normalise_msg(&e.to_string()).chars().take(70).collect::<String>()));
                continue;
            }
        };
        out.evaluations += 1;
        out.count("uniqueness_family_queries", 1);
        out.cell(format!("uniqueness-family:{fam}"));
        let en = row_strings_engine(&rows);
        let cy = row_strings_ref(g, &evaluate(g, &q));
        let (mut a, mut b) = (en.clone(), cy.clone());
        a.sort();
        b.sort();
        if a == b {
            continue;
        }
        let detail = |extra: serde_json::Value| json!({"query": text, "graph": graph_json(g), "storage": storage, "engine_rows": en.iter().take(16).collect::<Vec<_>>(), "cypher_rows": cy.iter().take(16).collect::<Vec<_>>(), "extra": extra});
        let replay = json!({"engine":"cyphermon","property":"C11","seed":seed,"case":k,"family":fam,"query":qi});
        if fam == "bound-variable-after-variable-length-hop" {
            let im = row_strings_ref(g, &evaluate_with(g, &q, Deviations { bound_node_after_varlen_not_joined: true, ..Default::default() }));
            let im2 = row_strings_ref(g, &evaluate_with(g, &q, Deviations { bound_node_after_varlen_not_joined: true, varlen_not_unique_against_other_hops: true, ..Default::default() }));
            let same = |x: &Vec<String>| {
                let mut x = x.clone();
                x.sort();
                x == a
            };
            let sig = if same(&im) || same(&im2) { "C11|rows-differ|bound-node-after-variable-length-hop-not-joined".to_string() } else { format!("C11|uniqueness-family-mismatch|{fam}") };
            out.violations.push(Violation { signature: sig, summary: format!("{text}: engine {} row(s), Cypher {} row(s)", en.len(), cy.len()), detail: detail(json!({})), replay });
            continue;
        }
        if fam == "bound-variable-in-the-middle" {
            // The engine's behaviour for this shape depends on the plan it picks (the bound node is
            // sometimes not joined at all, sometimes joined without relationship uniqueness): every
            // disagreement of this syntactic family carries one signature.
            out.violations.push(Violation { signature: "C11|wrong-rows|bound-variable-in-the-middle-of-a-later-pattern".into(), summary: format!("{text}: engine {} row(s), Cypher {} row(s)", en.len(), cy.len()), detail: detail(json!({})), replay });
            continue;
        }
        // sandwich: Cypher rows ⊆ engine rows ⊆ rows without any uniqueness between hops
        let ho = row_strings_ref(g, &evaluate_with(g, &q, Deviations { no_uniqueness_between_hops: true, ..Default::default() }));
        if is_submultiset(&cy, &en) && is_submultiset(&en, &ho) {
            out.violations.push(Violation {
                signature: format!("C11|relationship-uniqueness-not-enforced|{fam}"),
                summary: format!("{text}: engine returned {} row(s); Cypher's relationship uniqueness leaves {} (without any uniqueness there are {})", en.len(), cy.len(), ho.len()),
                detail: detail(json!({"rows_without_uniqueness": ho.len()})),
                replay,
            });
        } else {
            out.violations.push(Violation {
                signature: format!("C11|uniqueness-family-mismatch|{fam}"),
                summary: format!("{text}: engine rows are neither Cypher's nor between Cypher's and the uniqueness-free result ({} / {} / {})", en.len(), cy.len(), ho.len()),
                detail: detail(json!({"rows_without_uniqueness": ho.len()})),
                replay,
            });
        }
    }
}

pub fn main(args: &Args) -> Report {
    let mut rep = Report::new(
        "C11",
        &args.tier,
        args.seed,
        "exploration",
        "random graphs (1-6 nodes, 0-3 labels, typed properties with missing values, up to 10 relationships over 3 types, self loops in a third; runs / compacted / compacted+reopened) x grammar-generated well-typed read queries (1-3 clauses of MATCH with 1-3 node chains, labels, inline properties, type alternation, three directions, variable length, comma patterns, variable reuse; OPTIONAL MATCH; UNWIND; WITH with projection/aggregation/WHERE; RETURN with expressions, aggregates count/sum/avg/min/max/collect [DISTINCT], DISTINCT, ORDER BY, SKIP, LIMIT; UNION [ALL]) evaluated by the engine and by an independent reference evaluator; rows compared as multisets (lists compared unordered), ORDER BY as key sequences, SKIP/LIMIT without a total order as a sub-multiset of the right size. Mismatches are re-run and shrunk. A cell is a grammar feature observed",
    );
    rep.assume("(src, type, dst) is unique in the generated graphs; queries the engine rejects or fails are counted as inconclusive; the loaded graph is verified against the model first");
    let n = if args.thorough() { 300_000 } else { 1500 };
    let deadline = Instant::now() + Duration::from_secs(args.budget_s(120, 1500));
    let seed = args.seed;
    let (mut out, _) = par_cases(n, threads(), Some(deadline), |k| {
        let mut out = CaseOut::default();
        one_case(seed, k, &mut out);
        if k < 3 {
            let mut rng = Rng::derive(seed ^ 77, k as u64);
            let mut gen_ = Gen { rng: &mut rng, cells: Default::default() };
            out.samples.push(json!({"query": render(&gen_.query())}));
        }
        out
    });
    let mut seen = std::collections::BTreeMap::<String, usize>::new();
    out.violations.retain(|v| {
        let c = seen.entry(v.signature.clone()).or_default();
        *c += 1;
        *c <= 2
    });
    rep.out = out;
    let t = args.thorough();
    rep.floor("queries compared", rep.counter("queries_compared"), if t { 200_000 } else { 8000 });
    rep.floor("queries with rows", rep.counter("queries_with_rows"), if t { 80_000 } else { 3000 });
    rep.floor("queries against compacted storage", rep.counter("queries_against_compacted_storage"), if t { 50_000 } else { 2000 });
    rep.floor("grammar cells", rep.out.cells.len() as u64, 40);
    rep
}
