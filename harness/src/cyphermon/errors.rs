//! C22: if evaluating a row the query consumes raises a runtime error, the query reports the
//! error instead of returning a result with the failing rows dropped — for every operator
//! (DISTINCT, UNION, ORDER BY, aggregation, WITH, filters, expression-level wrappers).
//!
//! Oracle: implication. `UNWIND $xs AS x RETURN f(x)` fails because f raises at some row ⇒ the
//! same rows wrapped in an operator that must consume all of them fail too (error kind is not
//! compared). Candidates whose plain form does not fail are not judged.

use super::{Prep, Scratch, params};
use crate::common::cypher::{QErr, canon_value};
use crate::common::report::{Args, CaseOut, Report, Violation};
use crate::common::rng::Rng;
use ndb_core::query::Value;
use serde_json::json;

/// (name, expression over `x`, value that is fine, value that raises)
fn candidates() -> Vec<(&'static str, &'static str, Value, Value)> {
    let l = |v: Vec<Value>| Value::List(v);
    vec![
        ("toBoolean(float)", "toBoolean(x)", Value::Bool(true), Value::Float(1.5)),
        ("toBoolean(list)", "toBoolean(x)", Value::String("true".into()), l(vec![Value::Int(1)])),
        ("list[string]", "[1, 2, 3][x]", Value::Int(0), Value::String("a".into())),
        ("list[float]", "[1, 2, 3][x]", Value::Int(1), Value::Float(0.5)),
        ("toInteger(list)", "toInteger(x)", Value::String("1".into()), l(vec![Value::Int(1)])),
        ("toInteger(map)", "toInteger(x)", Value::Int(3), Value::Map([("a".to_string(), Value::Int(1))].into_iter().collect())),
        ("toFloat(list)", "toFloat(x)", Value::Int(1), l(vec![])),
        ("toString(list)", "toString(x)", Value::Int(1), l(vec![Value::Int(1)])),
        ("percentile-arg", "[1, 2][toInteger(percentileDiscHelper)]", Value::Int(0), Value::Int(0)), // placeholder, filtered out below
        ("map[int]", "{a: 1}[x]", Value::String("a".into()), Value::Int(0)),
        ("labels(non-node)", "labels(x)", Value::Null, Value::Int(1)),
        ("type(non-rel)", "type(x)", Value::Null, Value::Int(1)),
        ("properties(int)", "properties(x)", Value::Map([("a".to_string(), Value::Int(1))].into_iter().collect()), Value::Int(1)),
        ("size(int)", "size(x)", Value::String("ab".into()), Value::Int(7)),
        ("range-step-0", "range(0, 3, x)", Value::Int(1), Value::Int(0)),
        ("substring-negative", "substring('hello', x)", Value::Int(1), Value::Int(-1)),
        ("toBoolean-concat", "toString(x) + toBoolean(x)", Value::Bool(true), Value::Int(3)),
        ("nested-index", "[[1], [2]][x][0]", Value::Int(1), Value::Bool(true)),
        ("left-negative", "left('abc', x)", Value::Int(1), Value::Int(-2)),
        ("keys(int)", "keys(x)", Value::Map(Default::default()), Value::Int(2)),
    ]
    .into_iter()
    .filter(|c| c.0 != "percentile-arg")
    .collect()
}

/// Wrappers: `{F}` is f(x), the rows come from `UNWIND $xs AS x`.
fn wrappers() -> Vec<(&'static str, &'static str)> {
    vec![
        ("DISTINCT", "UNWIND $xs AS x RETURN DISTINCT {F} AS r"),
        ("UNION", "UNWIND $xs AS x RETURN {F} AS r UNION RETURN null AS r"),
        ("UNION-second-arm", "RETURN null AS r UNION UNWIND $xs AS x RETURN {F} AS r"),
        ("UNION ALL", "UNWIND $xs AS x RETURN {F} AS r UNION ALL RETURN null AS r"),
        ("ORDER BY", "UNWIND $xs AS x RETURN {F} AS r ORDER BY r"),
        ("ORDER BY expr", "UNWIND $xs AS x RETURN x ORDER BY {F}"),
        ("count()", "UNWIND $xs AS x RETURN count({F}) AS r"),
        ("collect()", "UNWIND $xs AS x RETURN collect({F}) AS r"),
        ("min()", "UNWIND $xs AS x RETURN min({F}) AS r"),
        ("count(DISTINCT)", "UNWIND $xs AS x RETURN count(DISTINCT {F}) AS r"),
        ("grouping key", "UNWIND $xs AS x RETURN {F} AS g, count(*) AS n"),
        ("WITH DISTINCT", "UNWIND $xs AS x WITH DISTINCT {F} AS y RETURN y"),
        ("WITH ORDER BY", "UNWIND $xs AS x WITH {F} AS y ORDER BY y RETURN y"),
        ("WITH WHERE", "UNWIND $xs AS x WITH x WHERE {F} IS NOT NULL RETURN x"),
        ("WITH then count", "UNWIND $xs AS x WITH {F} AS y RETURN count(*) AS n"),
        ("SKIP 0 LIMIT big", "UNWIND $xs AS x RETURN {F} AS r SKIP 0 LIMIT 1000"),
        ("count(*) then collect()", "UNWIND $xs AS x RETURN count(*) AS c, collect({F}) AS r"),
        ("collect() then count(*)", "UNWIND $xs AS x RETURN collect({F}) AS r, count(*) AS c"),
        ("count(*) then sum()", "UNWIND $xs AS x RETURN count(*) AS c, sum(size(toString({F}))) AS s"),
        ("grouped count(*) then min()", "UNWIND $xs AS x RETURN 1 AS g, count(*) AS c, min({F}) AS m"),
        ("three aggregates", "UNWIND $xs AS x RETURN count(x) AS a, count(*) AS b, max({F}) AS m"),
        ("SKIP 1", "UNWIND $xs AS x RETURN {F} AS r SKIP 1"),
        ("SKIP all", "UNWIND $xs AS x RETURN {F} AS r SKIP 1000"),
        ("WITH SKIP", "UNWIND $xs AS x WITH {F} AS y SKIP 2 RETURN y"),
        ("ORDER BY + SKIP", "UNWIND $xs AS x RETURN {F} AS r ORDER BY r SKIP 1"),
        ("coalesce", "UNWIND $xs AS x RETURN coalesce({F}, 0) AS r"),
        ("CASE", "UNWIND $xs AS x RETURN CASE WHEN true THEN {F} ELSE 0 END AS r"),
        ("list comprehension", "RETURN [x IN $xs | {F}] AS r"),
        ("any()", "RETURN any(x IN $xs WHERE {F} IS NULL) AS r"),
        ("reduce", "RETURN reduce(a = 0, x IN $xs | a + size(toString({F}) )) AS r"),
        ("DISTINCT + ORDER BY", "UNWIND $xs AS x RETURN DISTINCT {F} AS r ORDER BY r"),
        ("subquery-exists", "UNWIND $xs AS x WITH x WHERE {F} = {F} OR true RETURN count(*) AS n"),
    ]
}

pub fn main(args: &Args) -> Report {
    let mut rep = Report::new(
        "C22",
        &args.tier,
        args.seed,
        "exploration",
        "for error-raising functions f (invalid conversions, index/type errors, out-of-range arguments; kept only if the plain query really fails) and a parameter list with the raising value at a generated position: UNWIND $xs AS x RETURN f(x) fails => the same rows under DISTINCT, UNION (both arms), UNION ALL, ORDER BY, aggregates, grouping, WITH DISTINCT/ORDER BY/WHERE, SKIP/LIMIT covering all rows, coalesce, CASE, list comprehension, any(), reduce must fail too. A cell is (f, wrapper, position class)",
    );
    rep.assume("error kinds are not compared; LIMIT is only used with a bound that covers every row, so laziness cannot legitimately skip the failing row");
    let s = Scratch::new("c22");
    let mut prep = Prep::default();
    let mut out = CaseOut::default();
    let mut rng = Rng::new(args.seed);
    let rounds = if args.thorough() { 600 } else { 15 };
    let cands = candidates();
    let mut usable = 0u64;
    for round in 0..rounds {
        for (name, fexpr, good, bad) in &cands {
            let len = 1 + rng.below(6);
            let pos = match round % 3 {
                0 => 0,
                1 => len - 1,
                _ => rng.below(len),
            };
            let xs: Vec<Value> = (0..len).map(|i| if i == pos { bad.clone() } else { good.clone() }).collect();
            let ps = params(&[("xs", Value::List(xs.clone()))]);
            let plain = format!("UNWIND $xs AS x RETURN {fexpr} AS r");
            out.evaluations += 1;
            match prep.rows(&s.db, &plain, &ps) {
                Err(QErr::Runtime(_)) => {}
                Err(QErr::Panic(m)) => {
                    out.violations.push(Violation { signature: format!("C22|plain-query-panicked|{name}"), summary: format!("{plain} panicked: {m}"), detail: json!({"query": plain}), replay: json!({"engine":"cyphermon","property":"C22"}) });
                    continue;
                }
                _ => {
                    // does not raise (or is refused at compile time): not an error-raising f here
                    out.count("candidates_not_raising", 1);
                    continue;
                }
            }
            usable += 1;
            let posclass = if pos == 0 { "first" } else if pos == len - 1 { "last" } else { "middle" };
            for (wname, tmpl) in wrappers() {
                let q = tmpl.replace("{F}", fexpr);
                out.evaluations += 1;
                out.count("combinations", 1);
                out.count(&format!("wrapper.{wname}"), 1);
                out.cell(format!("{name}:{wname}:{posclass}"));
                match prep.rows(&s.db, &q, &ps) {
                    Err(QErr::Runtime(_)) => {}
                    Err(QErr::Compile(e)) => {
                        out.inconclusive(&format!("wrapper-refused-at-compile-time:{wname}:{}", crate::storemon::normalise_msg(&e)));
                    }
                    Err(QErr::Panic(m)) => out.violations.push(Violation {
                        signature: format!("C22|wrapped-query-panicked|{wname}"),
                        summary: format!("{q} panicked: {m}"),
                        detail: json!({"query": q, "xs": xs.iter().map(|v| canon_value(v, false)).collect::<Vec<_>>()}),
                        replay: json!({"engine":"cyphermon","property":"C22"}),
                    }),
                    Err(QErr::Commit(_)) => {}
                    Ok(rows) => out.violations.push(Violation {
                        signature: format!("C22|error-swallowed|{wname}"),
                        summary: format!("{plain} fails at row {pos}, but {q} returned {} row(s) without an error", rows.len()),
                        detail: json!({"plain": plain, "wrapped": q, "xs": xs.iter().map(|v| canon_value(v, false)).collect::<Vec<_>>(), "failing_position": pos, "function": name, "returned": rows.iter().take(4).map(|r| r.iter().map(|(_, v)| canon_value(v, false)).collect::<Vec<_>>()).collect::<Vec<_>>()}),
                        replay: json!({"engine":"cyphermon","property":"C22","f":name,"wrapper":wname}),
                    }),
                }
            }
        }
    }
    out.count("error_raising_inputs", usable);
    out.samples.push(json!({"plain": "UNWIND $xs AS x RETURN toBoolean(x) AS r", "xs": "[true, 1.5, true]", "wrapped": "UNWIND $xs AS x RETURN DISTINCT toBoolean(x) AS r", "oracle": "plain fails => wrapped must fail"}));
    let mut seen = std::collections::BTreeMap::<String, usize>::new();
    out.violations.retain(|v| {
        let c = seen.entry(v.signature.clone()).or_default();
        *c += 1;
        *c <= 3
    });
    rep.out = out;
    rep.floor("combinations", rep.counter("combinations"), if args.thorough() { 8000 } else { 1000 });
    rep.floor("error-raising inputs", rep.counter("error_raising_inputs"), if args.thorough() { 300 } else { 40 });
    rep
}
