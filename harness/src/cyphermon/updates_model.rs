//! Reference semantics of Cypher update statements over the small in-memory `Graph`.
//!
//! Written from the openCypher description of the clauses: every clause is applied to all rows of
//! the binding table in order; CREATE creates per row; MERGE matches the whole pattern against the
//! graph *including what this statement has created so far* and otherwise creates it; SET with a
//! null value removes the property, `=` on a map replaces all properties, `+=` merges; REMOVE and
//! DELETE ignore nulls; a node that still has relationships when the statement ends cannot have
//! been deleted without DETACH (the statement fails and changes nothing).

use super::graph::{GEdge, GNode, Graph};
use super::reference::{Ctx, Deviations, Row, V, eq3};
use super::updates::{CNode, CPath, RemoveItem, SetItem, UClause, UStmt, v_to_value};
use crate::common::model::Facts;
use ndb_core::query::Value;
use std::collections::{BTreeMap, BTreeSet};

#[derive(Debug, Clone, PartialEq)]
pub enum ModelErr {
    /// Cypher semantics say this statement fails (and so changes nothing)
    ExpectError(&'static str),
    /// the outcome depends on something this check does not decide (parallel relationships of
    /// one type between the same nodes are one relationship in the storage model: C06's topic)
    Ambiguous(&'static str),
}

#[derive(Debug, Clone, Default, PartialEq)]
pub struct Effects {
    pub rows: usize,
    pub nodes_created: usize,
    pub rels_created: usize,
    pub nodes_deleted: usize,
    pub rels_deleted: usize,
    pub props_written: usize,
    pub labels_changed: usize,
    pub merge_matched: usize,
    pub merge_created: usize,
}

struct Work<'a> {
    base: &'a Graph,
    nodes: Vec<Option<GNode>>,
    edges: Vec<Option<GEdge>>,
    pending_node_deletes: BTreeSet<usize>,
    fx: Effects,
}

fn storable(v: &V) -> Result<Option<Value>, ModelErr> {
    match v {
        V::Null => Ok(None),
        V::Map(_) => Err(ModelErr::ExpectError("map as property value")),
        V::Node(_) | V::Rel(_) => Err(ModelErr::ExpectError("entity as property value")),
        V::List(xs) => {
            if xs.iter().any(|x| matches!(x, V::Map(_) | V::Node(_) | V::Rel(_) | V::List(_) | V::Null)) {
                return Err(ModelErr::Ambiguous("list property with nested or null elements"));
            }
            Ok(Some(v_to_value(v)))
        }
        _ => Ok(Some(v_to_value(v))),
    }
}

impl Work<'_> {
    fn eval(&self, e: &super::reference::Expr, row: &Row) -> V {
        Ctx { g: self.base, dev: Deviations::default() }.eval(e, row)
    }

    fn node_props(&self, n: &CNode, row: &Row) -> Result<(Option<i64>, BTreeMap<String, Value>), ModelErr> {
        let mut uid = None;
        let mut props = BTreeMap::new();
        for (k, e) in &n.props {
            let v = self.eval(e, row);
            if k == "uid" {
                match v {
                    V::Int(i) => uid = Some(i),
                    _ => return Err(ModelErr::Ambiguous("uid is not an integer")),
                }
                continue;
            }
            if let Some(x) = storable(&v)? {
                props.insert(k.clone(), x);
            }
        }
        Ok((uid, props))
    }

    fn new_node(&mut self, n: &CNode, row: &Row) -> Result<usize, ModelErr> {
        let (uid, props) = self.node_props(n, row)?;
        let Some(uid) = uid else { return Err(ModelErr::Ambiguous("created node without uid")) };
        self.nodes.push(Some(GNode { uid, labels: n.labels.clone(), props }));
        self.fx.nodes_created += 1;
        Ok(self.nodes.len() - 1)
    }

    fn new_edge(&mut self, src: usize, dst: usize, typ: &str, props: &[(String, super::reference::Expr)], row: &Row) -> Result<usize, ModelErr> {
        if self.edges.iter().flatten().any(|e| e.src == src && e.dst == dst && e.typ == typ) {
            return Err(ModelErr::Ambiguous("parallel relationship of the same type"));
        }
        let mut p = BTreeMap::new();
        for (k, e) in props {
            if let Some(x) = storable(&self.eval(e, row))? {
                p.insert(k.clone(), x);
            }
        }
        self.edges.push(Some(GEdge { src, dst, typ: typ.to_string(), props: p }));
        self.fx.rels_created += 1;
        Ok(self.edges.len() - 1)
    }

    /// CREATE of one path for one row.
    fn create_path(&mut self, p: &CPath, row: &mut Row) -> Result<(), ModelErr> {
        let mut idx: Vec<usize> = Vec::new();
        for n in &p.nodes {
            let bound = n.var.as_ref().and_then(|v| row.get(v).cloned());
            let i = match bound {
                Some(V::Node(i)) => i,
                Some(V::Null) => return Err(ModelErr::ExpectError("CREATE with a null endpoint")),
                Some(_) => return Err(ModelErr::ExpectError("CREATE endpoint is not a node")),
                None => {
                    let i = self.new_node(n, row)?;
                    if let Some(v) = &n.var {
                        row.insert(v.clone(), V::Node(i));
                    }
                    i
                }
            };
            if self.nodes[i].is_none() {
                return Err(ModelErr::Ambiguous("CREATE from a deleted node"));
            }
            idx.push(i);
        }
        for (k, r) in p.rels.iter().enumerate() {
            let (s, d) = if r.dir == 1 { (idx[k + 1], idx[k]) } else { (idx[k], idx[k + 1]) };
            let e = self.new_edge(s, d, &r.typ, &r.props, row)?;
            if let Some(v) = &r.var {
                row.insert(v.clone(), V::Rel(e));
            }
        }
        Ok(())
    }

    fn prop_eq(stored: Option<&Value>, want: &V) -> bool {
        match stored {
            Some(s) => eq3(&super::reference::from_value(s), want) == Some(true),
            None => false,
        }
    }

    /// MERGE for one row: the rows it yields (one per match, or one for the created pattern).
    fn merge(&mut self, path: &CPath, on_create: &[SetItem], on_match: &[SetItem], row: &Row) -> Result<Vec<Row>, ModelErr> {
        let mut out = Vec::new();
        if path.rels.is_empty() {
            let n = &path.nodes[0];
            if let Some(v) = &n.var
                && row.contains_key(v)
            {
                return Err(ModelErr::Ambiguous("MERGE on a bound variable"));
            }
            let mut want: Vec<(String, V)> = Vec::new();
            for (k, e) in &n.props {
                let v = self.eval(e, row);
                if matches!(v, V::Null) {
                    return Err(ModelErr::ExpectError("MERGE with a null property value"));
                }
                want.push((k.clone(), v));
            }
            let matches: Vec<usize> = (0..self.nodes.len())
                .filter(|&i| {
                    let Some(g) = &self.nodes[i] else { return false };
                    n.labels.iter().all(|l| g.labels.contains(l))
                        && want.iter().all(|(k, v)| if k == "uid" { eq3(&V::Int(g.uid), v) == Some(true) } else { Self::prop_eq(g.props.get(k), v) })
                })
                .collect();
            if matches.is_empty() {
                let i = self.new_node(n, row)?;
                self.fx.merge_created += 1;
                let mut r = row.clone();
                if let Some(v) = &n.var {
                    r.insert(v.clone(), V::Node(i));
                }
                self.set_items(on_create, &r)?;
                out.push(r);
            } else {
                for i in matches {
                    self.fx.merge_matched += 1;
                    let mut r = row.clone();
                    if let Some(v) = &n.var {
                        r.insert(v.clone(), V::Node(i));
                    }
                    self.set_items(on_match, &r)?;
                    out.push(r);
                }
            }
            return Ok(out);
        }
        // (a)-[r:T {..}]->(b) with both endpoints bound
        if path.rels.len() != 1 {
            return Err(ModelErr::Ambiguous("MERGE of a longer path"));
        }
        let end = |n: &CNode| -> Result<usize, ModelErr> {
            match n.var.as_ref().and_then(|v| row.get(v)) {
                Some(V::Node(i)) => Ok(*i),
                Some(V::Null) => Err(ModelErr::ExpectError("MERGE with a null endpoint")),
                _ => Err(ModelErr::Ambiguous("MERGE endpoint is not bound")),
            }
        };
        let (a, b) = (end(&path.nodes[0])?, end(&path.nodes[1])?);
        let r = &path.rels[0];
        if r.dir == 2 && a == b {
            return Err(ModelErr::Ambiguous("undirected MERGE of a self loop"));
        }
        let mut want: Vec<(String, V)> = Vec::new();
        for (k, e) in &r.props {
            let v = self.eval(e, row);
            if matches!(v, V::Null) {
                return Err(ModelErr::ExpectError("MERGE with a null property value"));
            }
            want.push((k.clone(), v));
        }
        let fits = |e: &GEdge, s: usize, d: usize| e.src == s && e.dst == d && e.typ == r.typ && want.iter().all(|(k, v)| Self::prop_eq(e.props.get(k), v));
        let matches: Vec<usize> = (0..self.edges.len())
            .filter(|&i| {
                let Some(e) = &self.edges[i] else { return false };
                match r.dir {
                    0 => fits(e, a, b),
                    1 => fits(e, b, a),
                    _ => fits(e, a, b) || fits(e, b, a),
                }
            })
            .collect();
        if matches.is_empty() {
            let (s, d) = if r.dir == 1 { (b, a) } else { (a, b) };
            let e = self.new_edge(s, d, &r.typ, &r.props, row)?;
            self.fx.merge_created += 1;
            let mut x = row.clone();
            if let Some(v) = &r.var {
                x.insert(v.clone(), V::Rel(e));
            }
            self.set_items(on_create, &x)?;
            out.push(x);
        } else {
            for e in matches {
                self.fx.merge_matched += 1;
                let mut x = row.clone();
                if let Some(v) = &r.var {
                    x.insert(v.clone(), V::Rel(e));
                }
                self.set_items(on_match, &x)?;
                out.push(x);
            }
        }
        Ok(out)
    }

    fn write_prop(&mut self, target: &V, key: &str, v: &V) -> Result<(), ModelErr> {
        let val = storable(v)?;
        let props: &mut BTreeMap<String, Value> = match target {
            V::Null => return Ok(()),
            V::Node(i) => {
                if key == "uid" {
                    return Err(ModelErr::Ambiguous("uid rewritten"));
                }
                match self.nodes[*i].as_mut() {
                    Some(n) => &mut n.props,
                    None => return Err(ModelErr::Ambiguous("SET on a deleted node")),
                }
            }
            V::Rel(i) => match self.edges[*i].as_mut() {
                Some(e) => &mut e.props,
                None => return Err(ModelErr::Ambiguous("SET on a deleted relationship")),
            },
            _ => return Err(ModelErr::ExpectError("SET on a value that is not an entity")),
        };
        match val {
            Some(x) => {
                props.insert(key.to_string(), x);
            }
            None => {
                props.remove(key);
            }
        }
        self.fx.props_written += 1;
        Ok(())
    }

    fn replace_props(&mut self, target: &V, map: &[(String, V)]) -> Result<(), ModelErr> {
        match target {
            V::Null => return Ok(()),
            V::Node(i) => {
                // the generator always carries the node's own uid in the replacing map
                let keeps_uid = map.iter().any(|(k, v)| k == "uid" && self.nodes[*i].as_ref().map(|n| V::Int(n.uid)) == Some(v.clone()));
                if !keeps_uid {
                    return Err(ModelErr::Ambiguous("map replace without uid"));
                }
                if let Some(n) = self.nodes[*i].as_mut() {
                    n.props.clear();
                }
            }
            V::Rel(i) => {
                if let Some(e) = self.edges[*i].as_mut() {
                    e.props.clear();
                }
            }
            _ => return Err(ModelErr::ExpectError("SET on a value that is not an entity")),
        }
        for (k, v) in map {
            if k != "uid" {
                self.write_prop(target, k, v)?;
            }
        }
        Ok(())
    }

    fn set_items(&mut self, items: &[SetItem], row: &Row) -> Result<(), ModelErr> {
        for it in items {
            match it {
                SetItem::Prop(v, k, e) => {
                    let t = row.get(v).cloned().unwrap_or(V::Null);
                    let x = self.eval(e, row);
                    self.write_prop(&t, k, &x)?;
                }
                SetItem::MapMerge(v, m) => {
                    let t = row.get(v).cloned().unwrap_or(V::Null);
                    for (k, e) in m {
                        let x = self.eval(e, row);
                        self.write_prop(&t, k, &x)?;
                    }
                }
                SetItem::MapReplace(v, m) => {
                    let t = row.get(v).cloned().unwrap_or(V::Null);
                    let vals: Vec<(String, V)> = m.iter().map(|(k, e)| (k.clone(), self.eval(e, row))).collect();
                    self.replace_props(&t, &vals)?;
                }
                SetItem::MapParam(v, merge, _, m) => {
                    let t = row.get(v).cloned().unwrap_or(V::Null);
                    let vals: Vec<(String, V)> = m.iter().map(|(k, x)| (k.clone(), x.clone())).collect();
                    if *merge {
                        for (k, x) in &vals {
                            self.write_prop(&t, k, x)?;
                        }
                    } else {
                        self.replace_props(&t, &vals)?;
                    }
                }
                SetItem::Labels(v, ls) => match row.get(v) {
                    Some(V::Node(i)) => {
                        if let Some(n) = self.nodes[*i].as_mut() {
                            for l in ls {
                                if !n.labels.contains(l) {
                                    n.labels.push(l.clone());
                                    self.fx.labels_changed += 1;
                                }
                            }
                        }
                    }
                    Some(V::Null) | None => {}
                    _ => return Err(ModelErr::ExpectError("label on a value that is not a node")),
                },
            }
        }
        Ok(())
    }

    fn delete_value(&mut self, v: &V, detach: bool) -> Result<(), ModelErr> {
        match v {
            V::Null => {}
            V::Rel(i) => {
                if self.edges[*i].take().is_some() {
                    self.fx.rels_deleted += 1;
                }
            }
            V::Node(i) => {
                if self.nodes[*i].is_none() {
                    return Ok(());
                }
                if detach {
                    for e in self.edges.iter_mut() {
                        if let Some(x) = e
                            && (x.src == *i || x.dst == *i)
                        {
                            *e = None;
                            self.fx.rels_deleted += 1;
                        }
                    }
                    self.nodes[*i] = None;
                    self.pending_node_deletes.remove(i);
                    self.fx.nodes_deleted += 1;
                } else {
                    self.pending_node_deletes.insert(*i);
                }
            }
            _ => return Err(ModelErr::ExpectError("DELETE of a value that is not an entity")),
        }
        Ok(())
    }

    fn clause(&mut self, c: &UClause, rows: Vec<Row>) -> Result<Vec<Row>, ModelErr> {
        let mut out = Vec::with_capacity(rows.len());
        match c {
            UClause::Create(paths) => {
                for mut r in rows {
                    for p in paths {
                        self.create_path(p, &mut r)?;
                    }
                    out.push(r);
                }
            }
            UClause::Merge { path, on_create, on_match } => {
                for r in rows {
                    out.extend(self.merge(path, on_create, on_match, &r)?);
                }
            }
            UClause::Set(items) => {
                for r in rows {
                    self.set_items(items, &r)?;
                    out.push(r);
                }
            }
            UClause::Remove(items) => {
                for r in rows {
                    for it in items {
                        match it {
                            RemoveItem::Prop(v, k) => {
                                let t = r.get(v).cloned().unwrap_or(V::Null);
                                self.write_prop(&t, k, &V::Null)?;
                            }
                            RemoveItem::Labels(v, ls) => {
                                if let Some(V::Node(i)) = r.get(v)
                                    && let Some(n) = self.nodes[*i].as_mut()
                                {
                                    let before = n.labels.len();
                                    n.labels.retain(|l| !ls.contains(l));
                                    self.fx.labels_changed += before - n.labels.len();
                                }
                            }
                        }
                    }
                    out.push(r);
                }
            }
            UClause::Delete { detach, vars } => {
                for r in rows {
                    for v in vars {
                        let x = r.get(v).cloned().unwrap_or(V::Null);
                        self.delete_value(&x, *detach)?;
                    }
                    out.push(r);
                }
            }
            UClause::Foreach { var, list, body } => {
                for r in rows {
                    match self.eval(list, &r) {
                        V::List(items) => {
                            for it in items {
                                let mut inner = r.clone();
                                inner.insert(var.clone(), it);
                                let mut one = vec![inner];
                                for b in body {
                                    one = self.clause(b, one)?;
                                }
                            }
                        }
                        V::Null => {}
                        _ => return Err(ModelErr::ExpectError("FOREACH over a value that is not a list")),
                    }
                    out.push(r);
                }
            }
            UClause::With(vars) => {
                for r in rows {
                    out.push(r.into_iter().filter(|(k, _)| vars.contains(k)).collect());
                }
            }
        }
        Ok(out)
    }
}

/// Apply a statement to the graph: the graph afterwards and what happened.
pub fn apply(g: &Graph, s: &UStmt) -> Result<(Graph, Effects), ModelErr> {
    let rows = Ctx { g, dev: Deviations::default() }.rows_after(&s.prefix);
    let mut w = Work { base: g, nodes: g.nodes.iter().cloned().map(Some).collect(), edges: g.edges.iter().cloned().map(Some).collect(), pending_node_deletes: BTreeSet::new(), fx: Effects::default() };
    let mut rows = rows;
    for c in &s.updates {
        rows = w.clause(c, rows)?;
    }
    w.fx.rows = rows.len();
    // plain DELETE of nodes: allowed only if nothing is attached to them any more
    let pending: Vec<usize> = w.pending_node_deletes.iter().copied().collect();
    for i in &pending {
        if w.edges.iter().flatten().any(|e| e.src == *i || e.dst == *i) {
            return Err(ModelErr::ExpectError("DELETE of a node that still has relationships"));
        }
    }
    for i in pending {
        if w.nodes[i].take().is_some() {
            w.fx.nodes_deleted += 1;
        }
    }
    // compact
    let mut remap: Vec<Option<usize>> = vec![None; w.nodes.len()];
    let mut out = Graph::default();
    for (i, n) in w.nodes.into_iter().enumerate() {
        if let Some(n) = n {
            remap[i] = Some(out.nodes.len());
            out.nodes.push(n);
        }
    }
    for e in w.edges.into_iter().flatten() {
        match (remap[e.src], remap[e.dst]) {
            (Some(s), Some(d)) => out.edges.push(GEdge { src: s, dst: d, typ: e.typ, props: e.props }),
            _ => return Err(ModelErr::Ambiguous("relationship left without an endpoint")),
        }
    }
    Ok((out, w.fx))
}

/// The model graph in the fact format of `stmts::uid_view` (uid-keyed content of a database).
pub fn model_view(g: &Graph) -> Facts {
    use crate::common::cypher::canon_value;
    let mut counts: BTreeMap<String, u32> = BTreeMap::new();
    let full_props = |uid: Option<i64>, p: &BTreeMap<String, Value>| {
        let mut m = p.clone();
        if let Some(u) = uid {
            m.insert("uid".into(), Value::Int(u));
        }
        canon_value(&Value::Map(m), false)
    };
    for n in &g.nodes {
        let mut ls: Vec<String> = n.labels.iter().map(|l| canon_value(&Value::String(l.clone()), false)).collect();
        ls.sort();
        let row = format!("{} | [{}] | {}", canon_value(&Value::Int(n.uid), false), ls.join(","), full_props(Some(n.uid), &n.props));
        *counts.entry(format!("q/node/{row}")).or_default() += 1;
    }
    for e in &g.edges {
        let row = format!(
            "{} | {} | {} | {}",
            canon_value(&Value::Int(g.nodes[e.src].uid), false),
            canon_value(&Value::String(e.typ.clone()), false),
            canon_value(&Value::Int(g.nodes[e.dst].uid), false),
            // properties(r) of a relationship without properties is null in this engine, not {}
            // (an observation about the function, outside the update semantics judged here)
            if e.props.is_empty() { "null".to_string() } else { full_props(None, &e.props) }
        );
        *counts.entry(format!("q/rel/{row}")).or_default() += 1;
        *counts.entry(format!("q/rel-in/{row}")).or_default() += 1;
    }
    counts.into_iter().map(|(k, c)| (k, c.to_string())).collect()
}
