//! An independent reference evaluator for a fragment of Cypher over the harness's own graph
//! model (no code shared with `nervusdb-query`). The generator builds queries as values of the
//! AST below, renders them to text for the engine, and evaluates them here.
//!
//! Fragment: MATCH / OPTIONAL MATCH with comma-separated chain patterns (labels, inline
//! properties, relationship types, three directions, variable length with relationship-trail
//! semantics, relationship uniqueness per MATCH clause), WHERE, UNWIND, WITH (projection,
//! aggregation, DISTINCT, WHERE), RETURN [DISTINCT] with aggregation, ORDER BY, SKIP, LIMIT,
//! UNION [ALL]; expressions with three-valued logic, comparisons, arithmetic, IN, string
//! operators, IS NULL, a fixed set of functions.

use super::graph::{Graph, lit};
use ndb_core::query::Value;
use std::cmp::Ordering;
use std::collections::BTreeMap;

// ---------------------------------------------------------------------------------------------
// values
// ---------------------------------------------------------------------------------------------

#[derive(Clone, Debug, PartialEq)]
pub enum V {
    Null,
    Bool(bool),
    Int(i64),
    Float(f64),
    Str(String),
    List(Vec<V>),
    Map(BTreeMap<String, V>),
    /// index into Graph.nodes (== internal id: nodes are created in this order on a fresh db)
    Node(usize),
    /// index into Graph.edges
    Rel(usize),
}

pub fn from_value(v: &Value) -> V {
    match v {
        Value::Null => V::Null,
        Value::Bool(b) => V::Bool(*b),
        Value::Int(i) => V::Int(*i),
        Value::Float(f) => V::Float(*f),
        Value::String(s) => V::Str(s.clone()),
        Value::List(xs) => V::List(xs.iter().map(from_value).collect()),
        Value::Map(m) => V::Map(m.iter().map(|(k, x)| (k.clone(), from_value(x))).collect()),
        _ => V::Null,
    }
}

/// Canonical cell text shared by both sides. Floats keep 10 significant digits (aggregates over
/// floats may legitimately differ in the last bits); label lists are compared sorted by the caller.
pub fn canon(v: &V, g: &Graph) -> String {
    match v {
        V::Null => "null".into(),
        V::Bool(b) => format!("b:{b}"),
        V::Int(i) => format!("i:{i}"),
        V::Float(f) => {
            if f.is_nan() {
                "f:NaN".into()
            } else if *f == 0.0 {
                "f:0".into()
            } else {
                format!("f:{:.9e}", f)
            }
        }
        V::Str(s) => format!("s:{s:?}"),
        V::List(xs) => format!("[{}]", xs.iter().map(|x| canon(x, g)).collect::<Vec<_>>().join(",")),
        V::Map(m) => format!("{{{}}}", m.iter().map(|(k, x)| format!("{k:?}:{}", canon(x, g))).collect::<Vec<_>>().join(",")),
        V::Node(i) => format!("n#{i}"),
        V::Rel(i) => {
            let e = &g.edges[*i];
            format!("r#{}-[{}]-{}", e.src, e.typ, e.dst)
        }
    }
}

/// Key text for grouping and DISTINCT inside the reference: like `canon`, but the two float
/// zeros stay apart (the engine groups by bit pattern; whether 0.0 and -0.0 share a group is not
/// judged by this check, so the reference follows the engine there).
pub fn canon_key(v: &V, g: &Graph) -> String {
    match v {
        V::Float(f) if *f == 0.0 && f.is_sign_negative() => "f:-0".into(),
        V::List(xs) => format!("[{}]", xs.iter().map(|x| canon_key(x, g)).collect::<Vec<_>>().join(",")),
        other => canon(other, g),
    }
}

/// The same canonical text for a value returned by the engine (reified).
pub fn canon_engine(v: &Value) -> String {
    match v {
        Value::Null => "null".into(),
        Value::Bool(b) => format!("b:{b}"),
        Value::Int(i) => format!("i:{i}"),
        Value::Float(f) => {
            if f.is_nan() {
                "f:NaN".into()
            } else if *f == 0.0 {
                "f:0".into()
            } else {
                format!("f:{:.9e}", f)
            }
        }
        Value::String(s) => format!("s:{s:?}"),
        Value::List(xs) => format!("[{}]", xs.iter().map(canon_engine).collect::<Vec<_>>().join(",")),
        Value::Map(m) => format!("{{{}}}", m.iter().map(|(k, x)| format!("{k:?}:{}", canon_engine(x))).collect::<Vec<_>>().join(",")),
        Value::NodeId(i) => format!("n#{i}"),
        Value::Node(n) => format!("n#{}", n.id),
        Value::EdgeKey(e) => format!("r#{}-[#{}]-{}", e.src, e.rel, e.dst),
        Value::Relationship(r) => format!("r#{}-[{}]-{}", r.key.src, r.rel_type, r.key.dst),
        other => format!("?{other:?}"),
    }
}

// ---------------------------------------------------------------------------------------------
// AST
// ---------------------------------------------------------------------------------------------

#[derive(Clone, Copy, Debug, PartialEq)]
pub enum Dir {
    Out,
    In,
    Both,
}

#[derive(Clone, Debug)]
pub struct NodePat {
    pub var: Option<String>,
    pub labels: Vec<String>,
    pub props: Vec<(String, V)>,
}

#[derive(Clone, Debug)]
pub struct RelPat {
    pub var: Option<String>,
    pub types: Vec<String>,
    pub dir: Dir,
    pub varlen: Option<(usize, usize)>,
}

#[derive(Clone, Debug)]
pub struct PathPat {
    pub nodes: Vec<NodePat>,
    pub rels: Vec<RelPat>,
}

#[derive(Clone, Copy, Debug, PartialEq)]
pub enum AggKind {
    CountStar,
    Count,
    Sum,
    Avg,
    Min,
    Max,
    Collect,
}

#[derive(Clone, Debug)]
pub enum Expr {
    Lit(V),
    Var(String),
    Prop(String, String),
    Bin(&'static str, Box<Expr>, Box<Expr>),
    Not(Box<Expr>),
    IsNull(Box<Expr>, bool),
    In(Box<Expr>, Box<Expr>),
    Func(&'static str, Vec<Expr>),
    ListLit(Vec<Expr>),
    Index(Box<Expr>, Box<Expr>),
    Agg(AggKind, bool, Option<Box<Expr>>),
    /// `$name`, with the value it is bound to (C12/C34 statements carry their parameters)
    Param(String, V),
}

#[derive(Clone, Debug)]
pub struct Projection {
    pub distinct: bool,
    pub items: Vec<(Expr, String)>,
    /// ORDER BY over projected aliases: (alias, descending)
    pub order: Vec<(String, bool)>,
    pub skip: Option<usize>,
    pub limit: Option<usize>,
    pub where_: Option<Expr>,
}

#[derive(Clone, Debug)]
pub enum Clause {
    Match { optional: bool, patterns: Vec<PathPat>, where_: Option<Expr> },
    Unwind { expr: Expr, var: String },
    With(Projection),
}

#[derive(Clone, Debug)]
pub struct SingleQuery {
    pub clauses: Vec<Clause>,
    pub ret: Projection,
}

#[derive(Clone, Debug)]
pub struct Query {
    pub first: SingleQuery,
    /// (all, query)
    pub union: Option<(bool, SingleQuery)>,
}

// ---------------------------------------------------------------------------------------------
// rendering
// ---------------------------------------------------------------------------------------------

pub fn v_lit(v: &V) -> String {
    match v {
        V::Null => "null".into(),
        V::Bool(b) => b.to_string(),
        // a leading minus is a unary operator in the grammar (it binds looser than IS NULL, IN,
        // indexing): negative literals are always parenthesised
        V::Int(i) if *i < 0 => format!("({})", lit(&Value::Int(*i))),
        V::Float(f) if *f < 0.0 => format!("({})", lit(&Value::Float(*f))),
        V::Int(i) => lit(&Value::Int(*i)),
        V::Float(f) => lit(&Value::Float(*f)),
        V::Str(s) => lit(&Value::String(s.clone())),
        V::List(xs) => format!("[{}]", xs.iter().map(v_lit).collect::<Vec<_>>().join(", ")),
        V::Map(m) => format!("{{{}}}", m.iter().map(|(k, x)| format!("{k}: {}", v_lit(x))).collect::<Vec<_>>().join(", ")),
        V::Node(_) | V::Rel(_) => "null".into(),
    }
}

pub fn render_expr(e: &Expr) -> String {
    match e {
        Expr::Lit(v) => v_lit(v),
        Expr::Param(n, _) => format!("${n}"),
        Expr::Var(n) => n.clone(),
        Expr::Prop(v, k) => format!("{v}.{k}"),
        Expr::Bin(op, l, r) => format!("({} {op} {})", render_expr(l), render_expr(r)),
        Expr::Not(x) => format!("(NOT {})", render_expr(x)),
        Expr::IsNull(x, neg) => format!("({} IS {}NULL)", render_expr(x), if *neg { "NOT " } else { "" }),
        Expr::In(x, l) => format!("({} IN {})", render_expr(x), render_expr(l)),
        Expr::Func(name, args) => format!("{name}({})", args.iter().map(render_expr).collect::<Vec<_>>().join(", ")),
        Expr::ListLit(xs) => format!("[{}]", xs.iter().map(render_expr).collect::<Vec<_>>().join(", ")),
        Expr::Index(l, i) => format!("{}[{}]", render_expr(l), render_expr(i)),
        Expr::Agg(kind, distinct, arg) => {
            let d = if *distinct { "DISTINCT " } else { "" };
            match (kind, arg) {
                (AggKind::CountStar, _) => "count(*)".into(),
                (k, Some(a)) => format!(
                    "{}({d}{})",
                    match k {
                        AggKind::Count => "count",
                        AggKind::Sum => "sum",
                        AggKind::Avg => "avg",
                        AggKind::Min => "min",
                        AggKind::Max => "max",
                        _ => "collect",
                    },
                    render_expr(a)
                ),
                _ => "count(*)".into(),
            }
        }
    }
}

pub fn render_node(n: &NodePat) -> String {
    let labels: String = n.labels.iter().map(|l| format!(":{l}")).collect();
    let props = if n.props.is_empty() { String::new() } else { format!(" {{{}}}", n.props.iter().map(|(k, v)| format!("{k}: {}", v_lit(v))).collect::<Vec<_>>().join(", ")) };
    format!("({}{labels}{props})", n.var.clone().unwrap_or_default())
}

fn render_rel(r: &RelPat) -> String {
    let types = if r.types.is_empty() { String::new() } else { format!(":{}", r.types.join("|")) };
    let vl = match r.varlen {
        Some((a, b)) => format!("*{a}..{b}"),
        None => String::new(),
    };
    let inner = format!("{}{types}{vl}", r.var.clone().unwrap_or_default());
    let body = if inner.is_empty() { String::new() } else { format!("[{inner}]") };
    match r.dir {
        Dir::Out => format!("-{body}->"),
        Dir::In => format!("<-{body}-"),
        Dir::Both => format!("-{body}-"),
    }
}

pub fn render_path(p: &PathPat) -> String {
    let mut s = render_node(&p.nodes[0]);
    for (i, r) in p.rels.iter().enumerate() {
        s.push_str(&render_rel(r));
        s.push_str(&render_node(&p.nodes[i + 1]));
    }
    s
}

fn render_projection(kw: &str, p: &Projection) -> String {
    let mut s = format!("{kw} {}{}", if p.distinct { "DISTINCT " } else { "" }, p.items.iter().map(|(e, a)| format!("{} AS {a}", render_expr(e))).collect::<Vec<_>>().join(", "));
    if !p.order.is_empty() {
        s.push_str(&format!(" ORDER BY {}", p.order.iter().map(|(a, d)| format!("{a}{}", if *d { " DESC" } else { "" })).collect::<Vec<_>>().join(", ")));
    }
    if let Some(k) = p.skip {
        s.push_str(&format!(" SKIP {k}"));
    }
    if let Some(k) = p.limit {
        s.push_str(&format!(" LIMIT {k}"));
    }
    if let Some(w) = &p.where_ {
        s.push_str(&format!(" WHERE {}", render_expr(w)));
    }
    s
}

pub fn render_clause(c: &Clause) -> String {
    match c {
        Clause::Match { optional, patterns, where_ } => {
            let mut s = format!("{}MATCH {}", if *optional { "OPTIONAL " } else { "" }, patterns.iter().map(render_path).collect::<Vec<_>>().join(", "));
            if let Some(w) = where_ {
                s.push_str(&format!(" WHERE {}", render_expr(w)));
            }
            s
        }
        Clause::Unwind { expr, var } => format!("UNWIND {} AS {var}", render_expr(expr)),
        Clause::With(p) => render_projection("WITH", p),
    }
}

pub fn render_single(q: &SingleQuery) -> String {
    let mut parts: Vec<String> = Vec::new();
    for c in &q.clauses {
        parts.push(render_clause(c));
    }
    parts.push(render_projection("RETURN", &q.ret));
    parts.join(" ")
}

pub fn render(q: &Query) -> String {
    let mut s = render_single(&q.first);
    if let Some((all, second)) = &q.union {
        s.push_str(if *all { " UNION ALL " } else { " UNION " });
        s.push_str(&render_single(second));
    }
    s
}

// ---------------------------------------------------------------------------------------------
// expression evaluation
// ---------------------------------------------------------------------------------------------

pub type Row = BTreeMap<String, V>;

fn num_cmp(a: &V, b: &V) -> Option<Ordering> {
    let to_val = |v: &V| match v {
        V::Int(i) => Some(Value::Int(*i)),
        V::Float(f) => Some(Value::Float(*f)),
        _ => None,
    };
    super::cmp_num(&to_val(a)?, &to_val(b)?)
}

/// Cypher `=`: Some(true/false) or None for null.
pub fn eq3(a: &V, b: &V) -> Option<bool> {
    match (a, b) {
        (V::Null, _) | (_, V::Null) => None,
        (V::Int(_) | V::Float(_), V::Int(_) | V::Float(_)) => Some(num_cmp(a, b) == Some(Ordering::Equal)),
        (V::List(x), V::List(y)) => {
            if x.len() != y.len() {
                return Some(false);
            }
            let mut unknown = false;
            for (p, q) in x.iter().zip(y) {
                match eq3(p, q) {
                    Some(false) => return Some(false),
                    None => unknown = true,
                    _ => {}
                }
            }
            if unknown { None } else { Some(true) }
        }
        _ => Some(a == b),
    }
}

fn order3(a: &V, b: &V) -> Option<Ordering> {
    match (a, b) {
        (V::Null, _) | (_, V::Null) => None,
        (V::Int(_) | V::Float(_), V::Int(_) | V::Float(_)) => num_cmp(a, b),
        (V::Str(x), V::Str(y)) => Some(x.cmp(y)),
        (V::Bool(x), V::Bool(y)) => Some(x.cmp(y)),
        _ => None,
    }
}

fn b3(v: Option<bool>) -> V {
    match v {
        Some(b) => V::Bool(b),
        None => V::Null,
    }
}

fn truth(v: &V) -> Option<bool> {
    match v {
        V::Bool(b) => Some(*b),
        _ => None,
    }
}

fn arith(op: &str, a: &V, b: &V) -> V {
    match (a, b) {
        (V::Null, _) | (_, V::Null) => V::Null,
        (V::Int(x), V::Int(y)) => match op {
            "+" => x.checked_add(*y).map(V::Int).unwrap_or(V::Null),
            "-" => x.checked_sub(*y).map(V::Int).unwrap_or(V::Null),
            "*" => x.checked_mul(*y).map(V::Int).unwrap_or(V::Null),
            "/" => {
                if *y == 0 {
                    V::Null
                } else {
                    V::Int(x.wrapping_div(*y))
                }
            }
            _ => {
                if *y == 0 {
                    V::Null
                } else {
                    V::Int(x.wrapping_rem(*y))
                }
            }
        },
        (V::Int(_) | V::Float(_), V::Int(_) | V::Float(_)) => {
            let f = |v: &V| match v {
                V::Int(i) => *i as f64,
                V::Float(f) => *f,
                _ => 0.0,
            };
            let (x, y) = (f(a), f(b));
            V::Float(match op {
                "+" => x + y,
                "-" => x - y,
                "*" => x * y,
                "/" => x / y,
                _ => x % y,
            })
        }
        (V::Str(x), V::Str(y)) if op == "+" => V::Str(format!("{x}{y}")),
        _ => V::Null,
    }
}

/// Deviations from Cypher semantics that the reference can be asked to imitate. The default is
/// Cypher; a variant is used only to *classify* a disagreement (if imitating one deviation makes
/// the reference agree with the engine, that deviation is the cause).
#[derive(Clone, Copy, Debug, Default, PartialEq)]
pub struct Deviations {
    /// relationship uniqueness enforced inside each path pattern only, not across the
    /// comma-separated patterns of one MATCH
    pub uniqueness_per_path_only: bool,
    /// SKIP/LIMIT applied before DISTINCT
    pub slice_before_distinct: bool,
    /// OPTIONAL MATCH joins its matches back to the outer rows by content: k identical outer
    /// rows each receive the matches of all k
    pub optional_match_multiplies_identical_rows: bool,
    /// the relationships of a variable-length hop are kept distinct among themselves but not
    /// from the other hops of the same MATCH
    pub varlen_not_unique_against_other_hops: bool,
    /// a node variable that is already bound, ends a variable-length hop and is followed by
    /// further hops is not joined with its binding (the pattern continues from any node)
    pub bound_node_after_varlen_not_joined: bool,
    /// no relationship uniqueness at all between hops (homomorphism); the relationships inside
    /// one variable-length hop stay distinct. Used as the upper bound of the uniqueness family.
    pub no_uniqueness_between_hops: bool,
    /// a node variable bound by an earlier clause that appears in the middle of a later pattern
    /// (hops on both sides) is not joined with its binding
    pub bound_middle_node_not_joined: bool,
    /// `MATCH (v)` on a variable that an OPTIONAL MATCH bound to null keeps the row
    pub match_on_null_variable_keeps_row: bool,
}

pub struct Ctx<'a> {
    pub g: &'a Graph,
    pub dev: Deviations,
}

impl Ctx<'_> {
    fn prop_of(&self, v: &V, key: &str) -> V {
        match v {
            V::Node(i) => {
                if key == "uid" {
                    return V::Int(self.g.nodes[*i].uid);
                }
                self.g.nodes[*i].props.get(key).map(from_value).unwrap_or(V::Null)
            }
            V::Rel(i) => self.g.edges[*i].props.get(key).map(from_value).unwrap_or(V::Null),
            V::Map(m) => m.get(key).cloned().unwrap_or(V::Null),
            _ => V::Null,
        }
    }

    pub fn eval(&self, e: &Expr, row: &Row) -> V {
        match e {
            Expr::Lit(v) => v.clone(),
            Expr::Param(_, v) => v.clone(),
            Expr::Var(n) => row.get(n).cloned().unwrap_or(V::Null),
            Expr::Prop(v, k) => self.prop_of(row.get(v).unwrap_or(&V::Null), k),
            Expr::Not(x) => b3(truth(&self.eval(x, row)).map(|b| !b)),
            Expr::IsNull(x, neg) => {
                let n = matches!(self.eval(x, row), V::Null);
                V::Bool(n != *neg)
            }
            Expr::In(x, l) => {
                let (x, l) = (self.eval(x, row), self.eval(l, row));
                match l {
                    V::List(items) => {
                        let mut unknown = false;
                        for it in &items {
                            match eq3(&x, it) {
                                Some(true) => return V::Bool(true),
                                None => unknown = true,
                                _ => {}
                            }
                        }
                        if unknown { V::Null } else { V::Bool(false) }
                    }
                    _ => V::Null,
                }
            }
            Expr::ListLit(xs) => V::List(xs.iter().map(|x| self.eval(x, row)).collect()),
            Expr::Index(l, i) => match (self.eval(l, row), self.eval(i, row)) {
                (V::List(xs), V::Int(i)) => {
                    let idx = if i < 0 { xs.len() as i64 + i } else { i };
                    if idx >= 0 && (idx as usize) < xs.len() { xs[idx as usize].clone() } else { V::Null }
                }
                _ => V::Null,
            },
            Expr::Bin(op, l, r) => {
                let (a, b) = (self.eval(l, row), self.eval(r, row));
                match *op {
                    "AND" => match (truth(&a), truth(&b)) {
                        (Some(false), _) | (_, Some(false)) => V::Bool(false),
                        (Some(true), Some(true)) => V::Bool(true),
                        _ => V::Null,
                    },
                    "OR" => match (truth(&a), truth(&b)) {
                        (Some(true), _) | (_, Some(true)) => V::Bool(true),
                        (Some(false), Some(false)) => V::Bool(false),
                        _ => V::Null,
                    },
                    "XOR" => match (truth(&a), truth(&b)) {
                        (Some(x), Some(y)) => V::Bool(x ^ y),
                        _ => V::Null,
                    },
                    "=" => b3(eq3(&a, &b)),
                    "<>" => b3(eq3(&a, &b).map(|x| !x)),
                    "<" => b3(order3(&a, &b).map(|o| o == Ordering::Less)),
                    "<=" => b3(order3(&a, &b).map(|o| o != Ordering::Greater)),
                    ">" => b3(order3(&a, &b).map(|o| o == Ordering::Greater)),
                    ">=" => b3(order3(&a, &b).map(|o| o != Ordering::Less)),
                    "STARTS WITH" | "ENDS WITH" | "CONTAINS" => match (&a, &b) {
                        (V::Str(x), V::Str(y)) => V::Bool(match *op {
                            "STARTS WITH" => x.starts_with(y.as_str()),
                            "ENDS WITH" => x.ends_with(y.as_str()),
                            _ => x.contains(y.as_str()),
                        }),
                        _ => V::Null,
                    },
                    _ => arith(op, &a, &b),
                }
            }
            Expr::Func(name, args) => {
                let a: Vec<V> = args.iter().map(|x| self.eval(x, row)).collect();
                match (*name, a.as_slice()) {
                    ("id", [V::Node(i)]) => V::Int(*i as i64),
                    ("labels", [V::Node(i)]) => {
                        let mut l: Vec<String> = self.g.nodes[*i].labels.clone();
                        l.sort();
                        V::List(l.into_iter().map(V::Str).collect())
                    }
                    ("type", [V::Rel(i)]) => V::Str(self.g.edges[*i].typ.clone()),
                    ("size", [V::List(xs)]) => V::Int(xs.len() as i64),
                    ("size", [V::Str(s)]) => V::Int(s.chars().count() as i64),
                    ("coalesce", xs) => xs.iter().find(|x| !matches!(x, V::Null)).cloned().unwrap_or(V::Null),
                    ("abs", [V::Int(i)]) => i.checked_abs().map(V::Int).unwrap_or(V::Null),
                    ("abs", [V::Float(f)]) => V::Float(f.abs()),
                    ("toInteger", [V::Int(i)]) => V::Int(*i),
                    ("toInteger", [V::Float(f)]) => V::Int(f.trunc() as i64),
                    ("toInteger", [V::Str(s)]) => s.trim().parse::<i64>().map(V::Int).unwrap_or(V::Null),
                    ("toFloat", [V::Int(i)]) => V::Float(*i as f64),
                    ("toFloat", [V::Float(f)]) => V::Float(*f),
                    ("toString", [V::Int(i)]) => V::Str(i.to_string()),
                    ("toString", [V::Bool(b)]) => V::Str(b.to_string()),
                    ("toString", [V::Str(s)]) => V::Str(s.clone()),
                    ("keys", [V::Node(i)]) => {
                        let mut k: Vec<String> = self.g.nodes[*i].props.keys().cloned().collect();
                        k.push("uid".into());
                        k.sort();
                        V::List(k.into_iter().map(V::Str).collect())
                    }
                    ("startNode", [V::Rel(i)]) => V::Node(self.g.edges[*i].src),
                    ("endNode", [V::Rel(i)]) => V::Node(self.g.edges[*i].dst),
                    ("head", [V::List(xs)]) => xs.first().cloned().unwrap_or(V::Null),
                    ("last", [V::List(xs)]) => xs.last().cloned().unwrap_or(V::Null),
                    _ => V::Null,
                }
            }
            Expr::Agg(..) => V::Null, // handled by the projection
        }
    }
}

// ---------------------------------------------------------------------------------------------
// pattern matching
// ---------------------------------------------------------------------------------------------

fn node_ok(ctx: &Ctx, n: &NodePat, idx: usize) -> bool {
    let node = &ctx.g.nodes[idx];
    n.labels.iter().all(|l| node.labels.contains(l)) && n.props.iter().all(|(k, v)| eq3(&ctx.prop_of(&V::Node(idx), k), v) == Some(true))
}

/// One hop candidates from `at`: (edge index, other end).
fn hops(g: &Graph, r: &RelPat, at: usize) -> Vec<(usize, usize)> {
    let mut out = Vec::new();
    for (i, e) in g.edges.iter().enumerate() {
        if !r.types.is_empty() && !r.types.contains(&e.typ) {
            continue;
        }
        let fwd = e.src == at;
        let bwd = e.dst == at;
        match r.dir {
            Dir::Out if fwd => out.push((i, e.dst)),
            Dir::In if bwd => out.push((i, e.src)),
            Dir::Both => {
                if fwd {
                    out.push((i, e.dst));
                }
                if bwd && !(fwd && e.src == e.dst) {
                    out.push((i, e.src));
                }
            }
            _ => {}
        }
    }
    out
}

struct Matcher<'a> {
    ctx: &'a Ctx<'a>,
    results: Vec<Row>,
    /// index of the clause being matched: anonymous pattern elements get hidden bindings
    /// `__<clause>_<pattern>_<position>` when the OPTIONAL MATCH deviation is imitated (the engine
    /// keeps anonymous elements in its rows, and its row identity therefore includes them)
    clause: usize,
    /// variables that were bound before this clause started
    pre_bound: Vec<String>,
}

impl Matcher<'_> {
    /// Match patterns[pi..] given `row` (bindings so far) and the relationships already used in
    /// this MATCH clause.
    fn patterns(&mut self, pats: &[PathPat], pi: usize, row: Row, used: Vec<usize>) {
        if pi == pats.len() {
            self.results.push(row);
            return;
        }
        let p = &pats[pi];
        let n0 = &p.nodes[0];
        if self.ctx.dev.match_on_null_variable_keeps_row && p.rels.is_empty() && matches!(n0.var.as_ref().and_then(|v| row.get(v)), Some(V::Null)) {
            self.patterns(pats, pi + 1, row, used);
            return;
        }
        let starts: Vec<usize> = match n0.var.as_ref().and_then(|v| row.get(v)) {
            Some(V::Node(i)) => vec![*i],
            Some(_) => vec![], // bound to null (after OPTIONAL MATCH) or a non-node: no match
            None => (0..self.ctx.g.nodes.len()).collect(),
        };
        for s in starts {
            if !node_ok(self.ctx, n0, s) {
                continue;
            }
            let mut r = row.clone();
            if let Some(v) = &n0.var {
                r.insert(v.clone(), V::Node(s));
            } else if self.ctx.dev.optional_match_multiplies_identical_rows {
                r.insert(format!("__{}_{pi}_n0", self.clause), V::Node(s));
            }
            self.step(pats, pi, 0, s, r, used.clone());
        }
    }

    fn step(&mut self, pats: &[PathPat], pi: usize, ri: usize, at: usize, row: Row, used: Vec<usize>) {
        let p = &pats[pi];
        if ri == p.rels.len() {
            let carry = if self.ctx.dev.uniqueness_per_path_only { vec![] } else { used };
            self.patterns(pats, pi + 1, row, carry);
            return;
        }
        let rel = &p.rels[ri];
        let next_node = &p.nodes[ri + 1];
        let unjoined = ri + 1 < p.rels.len() && ((self.ctx.dev.bound_node_after_varlen_not_joined && rel.varlen.is_some()) || (self.ctx.dev.bound_middle_node_not_joined && next_node.var.as_ref().map(|v| self.pre_bound.contains(v)).unwrap_or(false)));
        let bind_end = |this: &mut Self, end: usize, row: Row, used: Vec<usize>| {
            if !node_ok(this.ctx, next_node, end) {
                return;
            }
            let mut r = row;
            if unjoined && next_node.var.as_ref().map(|v| r.contains_key(v)).unwrap_or(false) {
                // imitation: the existing binding is neither checked nor changed
            } else if let Some(v) = &next_node.var {
                match r.get(v) {
                    Some(V::Node(b)) if *b != end => return,
                    Some(V::Node(_)) => {}
                    Some(_) => return,
                    None => {
                        r.insert(v.clone(), V::Node(end));
                    }
                }
            } else if this.ctx.dev.optional_match_multiplies_identical_rows {
                r.insert(format!("__{}_{pi}_n{}", this.clause, ri + 1), V::Node(end));
            }
            this.step(pats, pi, ri + 1, end, r, used);
        };
        match rel.varlen {
            None => {
                for (ei, other) in hops(self.ctx.g, rel, at) {
                    if used.contains(&ei) && !self.ctx.dev.no_uniqueness_between_hops {
                        continue;
                    }
                    let mut r = row.clone();
                    if let Some(v) = &rel.var {
                        match r.get(v) {
                            Some(V::Rel(b)) if *b != ei => continue,
                            Some(V::Rel(_)) => {}
                            Some(_) => continue,
                            None => {
                                r.insert(v.clone(), V::Rel(ei));
                            }
                        }
                    } else if self.ctx.dev.optional_match_multiplies_identical_rows {
                        r.insert(format!("__{}_{pi}_r{ri}", self.clause), V::Rel(ei));
                    }
                    let mut u = used.clone();
                    u.push(ei);
                    bind_end(self, other, r, u);
                }
            }
            Some((lo, hi)) => {
                // trails of length lo..=hi
                let mut stack: Vec<(usize, Vec<usize>)> = vec![(at, vec![])];
                while let Some((cur, trail)) = stack.pop() {
                    let loose = self.ctx.dev.varlen_not_unique_against_other_hops || self.ctx.dev.no_uniqueness_between_hops;
                    if trail.len() >= lo {
                        let mut u = used.clone();
                        if !loose {
                            u.extend(trail.iter().copied());
                        }
                        let mut r = row.clone();
                        if self.ctx.dev.optional_match_multiplies_identical_rows {
                            r.insert(format!("__{}_{pi}_r{ri}", self.clause), V::List(trail.iter().map(|e| V::Rel(*e)).collect()));
                        }
                        bind_end(self, cur, r, u);
                    }
                    if trail.len() < hi {
                        for (ei, other) in hops(self.ctx.g, rel, cur) {
                            if (!loose && used.contains(&ei)) || trail.contains(&ei) {
                                continue;
                            }
                            let mut t = trail.clone();
                            t.push(ei);
                            stack.push((other, t));
                        }
                    }
                }
            }
        }
    }
}

fn pattern_vars(pats: &[PathPat]) -> Vec<String> {
    let mut v = Vec::new();
    for p in pats {
        for n in &p.nodes {
            if let Some(x) = &n.var {
                v.push(x.clone());
            }
        }
        for r in &p.rels {
            if let Some(x) = &r.var {
                v.push(x.clone());
            }
        }
    }
    v
}

// ---------------------------------------------------------------------------------------------
// ordering of scalar values (ORDER BY, min, max)
// ---------------------------------------------------------------------------------------------

pub fn sort_cmp(a: &V, b: &V) -> Ordering {
    fn rank(v: &V) -> u8 {
        match v {
            V::Map(_) => 0,
            V::Node(_) => 1,
            V::Rel(_) => 2,
            V::List(_) => 3,
            V::Str(_) => 5,
            V::Bool(_) => 6,
            V::Int(_) | V::Float(_) => 7,
            V::Null => 9,
        }
    }
    let (ra, rb) = (rank(a), rank(b));
    if ra != rb {
        return ra.cmp(&rb);
    }
    match (a, b) {
        (V::Int(_) | V::Float(_), V::Int(_) | V::Float(_)) => num_cmp(a, b).unwrap_or(Ordering::Equal),
        (V::Str(x), V::Str(y)) => x.cmp(y),
        (V::Bool(x), V::Bool(y)) => x.cmp(y),
        (V::Node(x), V::Node(y)) => x.cmp(y),
        (V::List(x), V::List(y)) => {
            for (p, q) in x.iter().zip(y) {
                let o = sort_cmp(p, q);
                if o != Ordering::Equal {
                    return o;
                }
            }
            x.len().cmp(&y.len())
        }
        _ => Ordering::Equal,
    }
}

// ---------------------------------------------------------------------------------------------
// projections
// ---------------------------------------------------------------------------------------------

fn has_agg(e: &Expr) -> bool {
    match e {
        Expr::Agg(..) => true,
        Expr::Bin(_, l, r) => has_agg(l) || has_agg(r),
        Expr::Not(x) | Expr::IsNull(x, _) => has_agg(x),
        Expr::In(a, b) | Expr::Index(a, b) => has_agg(a) || has_agg(b),
        Expr::Func(_, args) | Expr::ListLit(args) => args.iter().any(has_agg),
        _ => false,
    }
}

/// Result of a projection: column names in order, and rows.
pub struct Table {
    pub cols: Vec<String>,
    pub rows: Vec<Vec<V>>,
}

impl Ctx<'_> {
    fn aggregate(&self, kind: AggKind, distinct: bool, arg: &Option<Box<Expr>>, rows: &[Row]) -> V {
        if kind == AggKind::CountStar {
            return V::Int(rows.len() as i64);
        }
        let arg = arg.as_ref().expect("aggregate argument");
        let mut vals: Vec<V> = rows.iter().map(|r| self.eval(arg, r)).filter(|v| !matches!(v, V::Null)).collect();
        if distinct {
            let mut seen: Vec<String> = Vec::new();
            vals.retain(|v| {
                let c = canon(v, self.g);
                if seen.contains(&c) {
                    false
                } else {
                    seen.push(c);
                    true
                }
            });
        }
        match kind {
            AggKind::Count => V::Int(vals.len() as i64),
            AggKind::Collect => V::List(vals),
            AggKind::Sum => {
                if vals.iter().all(|v| matches!(v, V::Int(_))) {
                    V::Int(vals.iter().map(|v| if let V::Int(i) = v { *i } else { 0 }).sum())
                } else {
                    V::Float(vals.iter().fold(0.0f64, |a, v| a + match v { V::Int(i) => *i as f64, V::Float(f) => *f, _ => 0.0 }))
                }
            }
            AggKind::Avg => {
                if vals.is_empty() {
                    V::Null
                } else {
                    V::Float(vals.iter().map(|v| match v { V::Int(i) => *i as f64, V::Float(f) => *f, _ => 0.0 }).sum::<f64>() / vals.len() as f64)
                }
            }
            AggKind::Min => vals.into_iter().min_by(sort_cmp).unwrap_or(V::Null),
            AggKind::Max => vals.into_iter().max_by(sort_cmp).unwrap_or(V::Null),
            AggKind::CountStar => unreachable!(),
        }
    }

    /// Evaluate an item that may contain aggregates over the group `rows` (`rep` = a row of the
    /// group for the non-aggregate parts, which are grouping keys by construction).
    fn eval_grouped(&self, e: &Expr, rep: &Row, rows: &[Row]) -> V {
        match e {
            Expr::Agg(k, d, a) => self.aggregate(*k, *d, a, rows),
            Expr::Bin(op, l, r) => {
                let (a, b) = (self.eval_grouped(l, rep, rows), self.eval_grouped(r, rep, rows));
                let mut tmp = Row::new();
                tmp.insert("__a".into(), a);
                tmp.insert("__b".into(), b);
                self.eval(&Expr::Bin(op, Box::new(Expr::Var("__a".into())), Box::new(Expr::Var("__b".into()))), &tmp)
            }
            other => self.eval(other, rep),
        }
    }

    /// Projection without ORDER/SKIP/LIMIT: the full result in evaluation order.
    fn project(&self, p: &Projection, input: &[Row]) -> Table {
        let cols: Vec<String> = p.items.iter().map(|(_, a)| a.clone()).collect();
        let mut rows: Vec<Vec<V>> = Vec::new();
        if p.items.iter().any(|(e, _)| has_agg(e)) {
            let key_items: Vec<&Expr> = p.items.iter().filter(|(e, _)| !has_agg(e)).map(|(e, _)| e).collect();
            let mut groups: Vec<(String, Vec<Row>)> = Vec::new();
            for r in input {
                let k = key_items.iter().map(|e| canon_key(&self.eval(e, r), self.g)).collect::<Vec<_>>().join("|");
                match groups.iter_mut().find(|(kk, _)| *kk == k) {
                    Some((_, rs)) => rs.push(r.clone()),
                    None => groups.push((k, vec![r.clone()])),
                }
            }
            if groups.is_empty() && key_items.is_empty() {
                groups.push((String::new(), vec![]));
            }
            for (_, rs) in &groups {
                let empty = Row::new();
                let rep = rs.first().unwrap_or(&empty);
                rows.push(p.items.iter().map(|(e, _)| self.eval_grouped(e, rep, rs)).collect());
            }
        } else {
            for r in input {
                rows.push(p.items.iter().map(|(e, _)| self.eval(e, r)).collect());
            }
        }
        if p.distinct {
            let mut seen: Vec<String> = Vec::new();
            rows.retain(|r| {
                let c = r.iter().map(|v| canon_key(v, self.g)).collect::<Vec<_>>().join("|");
                if seen.contains(&c) {
                    false
                } else {
                    seen.push(c);
                    true
                }
            });
        }
        Table { cols, rows }
    }

    fn sort_table(&self, p: &Projection, t: &mut Table) {
        if p.order.is_empty() {
            return;
        }
        let idx: Vec<(usize, bool)> = p.order.iter().map(|(a, d)| (t.cols.iter().position(|c| c == a).expect("order alias"), *d)).collect();
        t.rows.sort_by(|x, y| {
            for (i, desc) in &idx {
                let o = sort_cmp(&x[*i], &y[*i]);
                if o != Ordering::Equal {
                    return if *desc { o.reverse() } else { o };
                }
            }
            Ordering::Equal
        });
    }

    pub fn rows_after(&self, clauses: &[Clause]) -> Vec<Row> {
        let mut rows: Vec<Row> = vec![Row::new()];
        for (ci, c) in clauses.iter().enumerate() {
            rows = match c {
                Clause::Match { optional, patterns, where_ } => {
                    let mut out = Vec::new();
                    for r in &rows {
                        let mut m = Matcher { ctx: self, results: Vec::new(), clause: ci, pre_bound: r.keys().cloned().collect() };
                        m.patterns(patterns, 0, r.clone(), vec![]);
                        let mut matched: Vec<Row> = m.results;
                        if let Some(w) = where_ {
                            matched.retain(|x| self.eval(w, x) == V::Bool(true));
                        }
                        if matched.is_empty() && *optional {
                            let mut x = r.clone();
                            for v in pattern_vars(patterns) {
                                x.entry(v).or_insert(V::Null);
                            }
                            out.push(x);
                        } else if *optional && self.dev.optional_match_multiplies_identical_rows {
                            let same = rows.iter().filter(|o| *o == r).count();
                            for _ in 0..same {
                                out.extend(matched.iter().cloned());
                            }
                        } else {
                            out.extend(matched);
                        }
                    }
                    out
                }
                Clause::Unwind { expr, var } => {
                    let mut out = Vec::new();
                    for r in &rows {
                        if let V::List(items) = self.eval(expr, r) {
                            for it in items {
                                let mut x = r.clone();
                                x.insert(var.clone(), it);
                                out.push(x);
                            }
                        }
                    }
                    out
                }
                Clause::With(p) => {
                    let t = self.project(p, &rows);
                    let mut out: Vec<Row> = t.rows.into_iter().map(|vals| t.cols.iter().cloned().zip(vals).collect()).collect();
                    if let Some(w) = &p.where_ {
                        out.retain(|x| self.eval(w, x) == V::Bool(true));
                    }
                    out
                }
            };
        }
        rows
    }

    /// Full result of a single query (before SKIP/LIMIT), sorted if ORDER BY is present.
    pub fn eval_single_full(&self, q: &SingleQuery) -> Table {
        let rows = self.rows_after(&q.clauses);
        let mut t = self.project(&q.ret, &rows);
        self.sort_table(&q.ret, &mut t);
        t
    }
}

/// Reference result of a query: the full table (before the final SKIP/LIMIT of a non-union
/// query), plus what SKIP/LIMIT select.
pub struct Expected {
    pub full: Table,
    pub skip: usize,
    pub limit: Option<usize>,
    pub ordered: bool,
    /// indexes of the ORDER BY key columns and their directions
    pub order_cols: Vec<(usize, bool)>,
}

pub fn evaluate(g: &Graph, q: &Query) -> Expected {
    evaluate_with(g, q, Deviations::default())
}

pub fn evaluate_with(g: &Graph, q: &Query, dev: Deviations) -> Expected {
    let ctx = Ctx { g, dev };
    let mut full = if dev.slice_before_distinct && q.union.is_none() && q.first.ret.distinct && (q.first.ret.skip.is_some() || q.first.ret.limit.is_some()) {
        // imitate: project without DISTINCT, sort, slice, then de-duplicate
        let mut s = q.first.clone();
        s.ret.distinct = false;
        let mut t = ctx.eval_single_full(&s);
        let skip = s.ret.skip.unwrap_or(0);
        let rows: Vec<Vec<V>> = t.rows.into_iter().skip(skip).take(s.ret.limit.unwrap_or(usize::MAX)).collect();
        let mut seen: Vec<String> = Vec::new();
        t.rows = rows
            .into_iter()
            .filter(|r| {
                // like DISTINCT and grouping: whether 0.0 and -0.0 are one value when duplicates are
                // removed is not decided here (the key keeps the sign, as the engine's does)
                let c = r.iter().map(|v| canon_key(v, g)).collect::<Vec<_>>().join("|");
                if seen.contains(&c) {
                    false
                } else {
                    seen.push(c);
                    true
                }
            })
            .collect();
        let order_cols = q.first.ret.order.iter().map(|(a, d)| (t.cols.iter().position(|c| c == a).unwrap(), *d)).collect();
        return Expected { full: t, skip: 0, limit: None, ordered: !q.first.ret.order.is_empty(), order_cols };
    } else {
        ctx.eval_single_full(&q.first)
    };
    let (skip, limit, ordered, order_cols);
    if let Some((all, second)) = &q.union {
        // the generator puts no ORDER BY / SKIP / LIMIT into union arms
        let t2 = ctx.eval_single_full(second);
        full.rows.extend(t2.rows);
        if !*all {
            let mut seen: Vec<String> = Vec::new();
            full.rows.retain(|r| {
                // like DISTINCT and grouping: whether 0.0 and -0.0 are one value when duplicates are
                // removed is not decided here (the key keeps the sign, as the engine's does)
                let c = r.iter().map(|v| canon_key(v, g)).collect::<Vec<_>>().join("|");
                if seen.contains(&c) {
                    false
                } else {
                    seen.push(c);
                    true
                }
            });
        }
        skip = 0;
        limit = None;
        ordered = false;
        order_cols = vec![];
    } else {
        skip = q.first.ret.skip.unwrap_or(0);
        limit = q.first.ret.limit;
        ordered = !q.first.ret.order.is_empty();
        order_cols = q.first.ret.order.iter().map(|(a, d)| (full.cols.iter().position(|c| c == a).unwrap(), *d)).collect();
    }
    Expected { full, skip, limit, ordered, order_cols }
}
