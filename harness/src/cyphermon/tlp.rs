//! C19: for any read query Q and predicate p, rows(Q WHERE p) ⊎ rows(Q WHERE NOT (p)) ⊎
//! rows(Q WHERE (p) IS NULL) = rows(Q) as multisets. The engine is checked against itself
//! (ternary logic partitioning); no reference evaluator is needed.
//!
//! For bases ending in OPTIONAL MATCH the filter is applied to completed rows (`WITH * WHERE p`),
//! because a WHERE attached to the optional clause itself is not a row filter by Cypher semantics.

use super::graph::{Graph, GraphCfg, LABELS, TYPES, gen_graph, graph_json, lit, load};
use crate::common::cypher::{QErr, canon_rows, run_read, sorted};
use crate::common::report::{Args, CaseOut, Report, Violation, par_cases, threads};
use crate::common::rng::Rng;
use crate::common::sut::ScratchDir;
use ndb_core::Db;
use ndb_core::query::{Params, Value};
use serde_json::json;
use std::time::{Duration, Instant};

#[derive(Clone)]
struct Base {
    /// text up to (not including) the filter
    text: String,
    /// how the filter is attached: " WHERE " or " WITH * WHERE "
    attach: &'static str,
    ret: String,
    node_vars: Vec<&'static str>,
    rel_vars: Vec<&'static str>,
    num_vars: Vec<&'static str>,
    kind: &'static str,
}

fn gen_base(rng: &mut Rng) -> Base {
    let l = rng.pick(&LABELS);
    let t = rng.pick(&TYPES);
    let dir = |rng: &mut Rng, rel: &str| match rng.below(3) {
        0 => format!("-[{rel}]->"),
        1 => format!("<-[{rel}]-"),
        _ => format!("-[{rel}]-"),
    };
    // inline property maps in the pattern: they are compiled into the same predicate map as
    // top-level equality conjuncts of the WHERE that follows
    let inline = |rng: &mut Rng| match rng.below(3) {
        0 => format!(" {{k: {}}}", rng.range(0, 3)),
        1 => format!(" {{name: '{}'}}", rng.pick(&["a", "ab", "b"])),
        _ => format!(" {{k: {}, name: '{}'}}", rng.range(0, 3), rng.pick(&["a", "ab"])),
    };
    match rng.below(12) {
        9 => {
            let p = inline(rng);
            Base { text: format!("MATCH (n{p})"), attach: " WHERE ", ret: "id(n) AS a".into(), node_vars: vec!["n"], rel_vars: vec![], num_vars: vec![], kind: "inline-properties-scan" }
        }
        10 => {
            let (p, d) = (inline(rng), dir(rng, "r"));
            Base { text: format!("MATCH (n:{l}{p}){d}(m)"), attach: " WHERE ", ret: "id(n) AS a, type(r) AS t, id(m) AS b".into(), node_vars: vec!["n", "m"], rel_vars: vec!["r"], num_vars: vec![], kind: "inline-properties-expand" }
        }
        11 => {
            let rk = rng.range(0, 3);
            let (p, d) = (inline(rng), dir(rng, &format!("r {{k: {rk}}}")));
            Base { text: format!("MATCH (n){d}(m{p})"), attach: " WHERE ", ret: "id(n) AS a, id(m) AS b".into(), node_vars: vec!["n", "m"], rel_vars: vec!["r"], num_vars: vec![], kind: "inline-properties-on-target-and-relationship" }
        }
        0 => Base { text: "MATCH (n)".into(), attach: " WHERE ", ret: "id(n) AS a".into(), node_vars: vec!["n"], rel_vars: vec![], num_vars: vec![], kind: "node-scan" },
        1 => Base { text: format!("MATCH (n:{l})"), attach: " WHERE ", ret: "id(n) AS a".into(), node_vars: vec!["n"], rel_vars: vec![], num_vars: vec![], kind: "label-scan" },
        2 => {
            let d = dir(rng, "r");
            Base { text: format!("MATCH (n){d}(m)"), attach: " WHERE ", ret: "id(n) AS a, type(r) AS t, id(m) AS b".into(), node_vars: vec!["n", "m"], rel_vars: vec!["r"], num_vars: vec![], kind: "expand" }
        }
        3 => {
            let d = dir(rng, &format!("r:{t}"));
            Base { text: format!("MATCH (n:{l}){d}(m)"), attach: " WHERE ", ret: "id(n) AS a, id(m) AS b".into(), node_vars: vec!["n", "m"], rel_vars: vec!["r"], num_vars: vec![], kind: "typed-expand" }
        }
        4 => Base { text: "MATCH (n)-->(m)-->(o)".into(), attach: " WHERE ", ret: "id(n) AS a, id(m) AS b, id(o) AS c".into(), node_vars: vec!["n", "m", "o"], rel_vars: vec![], num_vars: vec![], kind: "two-hop" },
        5 => Base { text: "UNWIND [1, 2, 3, null, 0, -1, 2] AS x MATCH (n)".into(), attach: " WHERE ", ret: "x AS x, id(n) AS a".into(), node_vars: vec!["n"], rel_vars: vec![], num_vars: vec!["x"], kind: "unwind+match" },
        6 => Base { text: "UNWIND [1, 2, 3, null, 0, -1, 2.5] AS x WITH x".into(), attach: " WHERE ", ret: "x AS x".into(), node_vars: vec![], rel_vars: vec![], num_vars: vec!["x"], kind: "unwind" },
        7 => Base { text: "MATCH (n) OPTIONAL MATCH (n)-[r]->(m)".into(), attach: " WITH * WHERE ", ret: "id(n) AS a, type(r) AS t, id(m) AS b".into(), node_vars: vec!["n", "m"], rel_vars: vec!["r"], num_vars: vec![], kind: "optional-match" },
        _ => Base { text: "MATCH (n), (m)".into(), attach: " WHERE ", ret: "id(n) AS a, id(m) AS b".into(), node_vars: vec!["n", "m"], rel_vars: vec![], num_vars: vec![], kind: "cartesian" },
    }
}

struct PGen<'a> {
    rng: &'a mut Rng,
    base: &'a Base,
    kinds: std::collections::BTreeSet<&'static str>,
}

impl PGen<'_> {
    fn node(&mut self) -> Option<&'static str> {
        if self.base.node_vars.is_empty() { None } else { Some(*self.rng.pick(&self.base.node_vars)) }
    }

    fn num(&mut self, depth: u32) -> String {
        let choice = self.rng.below(if depth > 2 { 5 } else { 11 });
        match choice {
            0 => lit(&Value::Int(self.rng.range(-1, 4))),
            1 => lit(&Value::Float(*self.rng.pick(&[0.5, 1.5, 0.0, -2.5]))),
            2 => "null".into(),
            3 | 4 => {
                if let Some(v) = self.node() {
                    format!("{v}.{}", self.rng.pick(&["k", "n", "v"]))
                } else if let Some(x) = self.base.num_vars.first() {
                    x.to_string()
                } else {
                    "1".into()
                }
            }
            5 => {
                self.kinds.insert("arithmetic");
                let op = *self.rng.pick(&["+", "-", "*", "/", "%"]);
                format!("({} {op} {})", self.num(depth + 1), self.num(depth + 1))
            }
            6 => {
                self.kinds.insert("function");
                match self.node() {
                    Some(v) => format!("size({v}.name)"),
                    None => "size('ab')".into(),
                }
            }
            7 => {
                self.kinds.insert("function");
                format!("coalesce({}, {})", self.num(depth + 1), self.num(depth + 1))
            }
            8 => {
                self.kinds.insert("function");
                match self.node() {
                    Some(v) => format!("id({v})"),
                    None => "abs(-2)".into(),
                }
            }
            9 => {
                self.kinds.insert("function");
                format!("abs({})", self.num(depth + 1))
            }
            _ => {
                self.kinds.insert("function");
                match self.node() {
                    Some(v) => format!("toInteger({v}.name)"),
                    None => "toInteger('7')".into(),
                }
            }
        }
    }

    fn string(&mut self, depth: u32) -> String {
        match self.rng.below(if depth > 2 { 3 } else { 6 }) {
            0 => lit(&Value::String(self.rng.pick(&["a", "ab", "b", "", "Bo"]).to_string())),
            1 => "null".into(),
            2 => match self.node() {
                Some(v) => format!("{v}.name"),
                None => "'ab'".into(),
            },
            3 => {
                self.kinds.insert("function");
                format!("toString({})", self.num(depth + 1))
            }
            4 => {
                if let Some(r) = self.base.rel_vars.first() {
                    self.kinds.insert("function");
                    format!("type({r})")
                } else {
                    format!("({} + {})", self.string(depth + 1), self.string(depth + 1))
                }
            }
            _ => match self.node() {
                Some(v) => {
                    self.kinds.insert("list-access");
                    format!("labels({v})[0]")
                }
                None => "'x'".into(),
            },
        }
    }

    fn boolean(&mut self, depth: u32) -> String {
        // top-level `alias.key = literal` (optionally AND ...) is the shape the compiler pushes
        // down into scans and index seeks: generated often
        if depth == 0 && self.rng.chance(1, 4) && let Some(v) = self.node() {
            self.kinds.insert("pushed-down-equality");
            let eq = match self.rng.below(3) {
                0 => format!("{v}.k = {}", self.rng.range(0, 3)),
                1 => format!("{v}.name = '{}'", self.rng.pick(&["a", "ab", "b", "Bob"])),
                _ => format!("{} = {v}.k", self.rng.range(0, 3)),
            };
            return if self.rng.chance(1, 2) { eq } else { format!("{eq} AND {}", self.boolean(2)) };
        }
        // top-level equality between a property of one pattern variable and an expression over
        // ANOTHER pattern variable (bare, negated, NOT-ed, shifted): the shape a pushdown must leave
        // alone until both variables are bound, in both operand orders
        if depth == 0 && self.base.node_vars.len() >= 2 && self.rng.chance(1, 5) {
            self.kinds.insert("cross-variable-equality");
            let a = *self.rng.pick(&self.base.node_vars);
            let others: Vec<&'static str> = self.base.node_vars.iter().copied().filter(|v| *v != a).collect();
            let b = *self.rng.pick(&others);
            let key = *self.rng.pick(&["k", "n"]);
            let rhs = match self.rng.below(7) {
                0 => format!("{b}.{key}"),
                1 => format!("-{b}.{key}"),
                2 => format!("-({b}.{key} - 2)"),
                3 => format!("{b}.{key} + 1"),
                4 => format!("abs({b}.{key})"),
                5 => format!("-{}", self.rng.range(0, 3)),
                _ => format!("-(-{b}.{key})"),
            };
            let eq = match self.rng.below(4) {
                0 => format!("{rhs} = {a}.{key}"),
                1 => format!("{a}.flag = NOT {b}.flag"),
                2 => format!("{a}.name = {b}.name"),
                _ => format!("{a}.{key} = {rhs}"),
            };
            return if self.rng.chance(1, 2) { eq } else { format!("{eq} AND {}", self.boolean(2)) };
        }
        let choice = self.rng.below(if depth > 2 { 8 } else { 17 });
        match choice {
            0 | 1 => {
                self.kinds.insert("comparison");
                let op = *self.rng.pick(&["=", "<>", "<", "<=", ">", ">="]);
                format!("{} {op} {}", self.num(depth + 1), self.num(depth + 1))
            }
            2 => {
                self.kinds.insert("comparison");
                let op = *self.rng.pick(&["=", "<>", "<", ">="]);
                format!("{} {op} {}", self.string(depth + 1), self.string(depth + 1))
            }
            3 => {
                self.kinds.insert("string-operator");
                let op = *self.rng.pick(&["STARTS WITH", "ENDS WITH", "CONTAINS"]);
                format!("{} {op} {}", self.string(depth + 1), self.string(depth + 1))
            }
            4 => {
                self.kinds.insert("in-list");
                let items: Vec<String> = (0..self.rng.below(4)).map(|_| self.num(3)).collect();
                format!("{} IN [{}]", self.num(depth + 1), items.join(", "))
            }
            5 => {
                self.kinds.insert("null-test");
                let x = if self.rng.chance(1, 2) { self.num(depth + 1) } else { self.string(depth + 1) };
                format!("{x} IS {}NULL", if self.rng.chance(1, 2) { "NOT " } else { "" })
            }
            6 => match self.node() {
                Some(v) => {
                    self.kinds.insert("boolean-property");
                    format!("{v}.flag")
                }
                None => "true".into(),
            },
            7 => self.rng.pick(&["true", "false", "null"]).to_string(),
            8 => {
                self.kinds.insert("connective");
                format!("NOT ({})", self.boolean(depth + 1))
            }
            9 | 10 => {
                self.kinds.insert("connective");
                let op = *self.rng.pick(&["AND", "OR", "XOR"]);
                format!("({}) {op} ({})", self.boolean(depth + 1), self.boolean(depth + 1))
            }
            11 => match self.node() {
                Some(v) => {
                    self.kinds.insert("pattern-predicate");
                    let t = *self.rng.pick(&TYPES);
                    match self.rng.below(3) {
                        0 => format!("({v})-[:{t}]->()"),
                        1 => format!("({v})<--()"),
                        _ => format!("({v})--()"),
                    }
                }
                None => "false".into(),
            },
            12 => match self.node() {
                Some(v) => {
                    self.kinds.insert("label-predicate");
                    format!("{v}:{}", self.rng.pick(&LABELS))
                }
                None => "true".into(),
            },
            13 => {
                self.kinds.insert("case");
                format!("CASE WHEN {} THEN {} ELSE {} END", self.boolean(depth + 1), self.boolean(depth + 1), self.boolean(depth + 1))
            }
            14 => {
                self.kinds.insert("quantifier");
                let q = *self.rng.pick(&["any", "all", "none", "single"]);
                format!("{q}(y IN [1, 2, null] WHERE y = {})", self.num(depth + 1))
            }
            15 => match self.node() {
                Some(v) => {
                    self.kinds.insert("exists-subquery");
                    format!("exists {{ MATCH ({v})-->(z) WHERE z.k = {} }}", self.num(3))
                }
                None => "false".into(),
            },
            _ => {
                self.kinds.insert("comparison");
                // cross-kind comparison: number against string
                format!("{} = {}", self.num(depth + 1), self.string(depth + 1))
            }
        }
    }
}

fn one_case(seed: u64, k: usize, out: &mut CaseOut) {
    let mut rng = Rng::derive(seed, k as u64);
    let cfg = GraphCfg { max_nodes: 6, max_edges: 9, parallel_edges: k % 4 == 0, self_loops: true };
    let g: Graph = gen_graph(&mut rng, &cfg);
    let dir = ScratchDir::new("c19");
    let Ok(mut db) = Db::open(dir.db_base()) else {
        out.inconclusive("open");
        return;
    };
    if let Err(e) = load(&db, &g) {
        out.inconclusive(&format!("load:{}", crate::storemon::normalise_msg(&e.to_string())));
        return;
    }
    // storage shape and index presence vary: push-down into index seeks and segment reads
    let with_index = k % 3 == 0;
    if with_index {
        let (l1, l2): (&str, &str) = (LABELS[rng.below(LABELS.len())], LABELS[rng.below(LABELS.len())]);
        let _ = db.create_index(l1, "k");
        let _ = db.create_index(l2, "name");
    }
    match k % 5 {
        1 => {
            let _ = db.compact();
        }
        2 => {
            let _ = db.compact();
            drop(db);
            db = match Db::open(dir.db_base()) {
                Ok(d) => d,
                Err(_) => {
                    out.inconclusive("reopen");
                    return;
                }
            };
        }
        _ => {}
    }
    let params = Params::new();
    let storage_name = ["runs", "compacted", "compacted+reopened", "runs", "runs"][k % 5];
    for qi in 0..12 {
        let base = gen_base(&mut rng);
        let mut pg = PGen { rng: &mut rng, base: &base, kinds: Default::default() };
        let p = pg.boolean(0);
        let kinds: Vec<&str> = pg.kinds.iter().cloned().collect();
        let q_all = format!("{} RETURN {}", base.text, base.ret);
        let q_t = format!("{}{}{} RETURN {}", base.text, base.attach, p, base.ret);
        let q_f = format!("{}{}NOT ({}) RETURN {}", base.text, base.attach, p, base.ret);
        let q_n = format!("{}{}({}) IS NULL RETURN {}", base.text, base.attach, p, base.ret);
        let mut res = Vec::new();
        let mut err: Option<(String, QErr)> = None;
        for q in [&q_all, &q_t, &q_f, &q_n] {
            match run_read(&db, q, &params, false) {
                Ok(r) => res.push(sorted(canon_rows(&r, false))),
                Err(e) => {
                    err = Some((q.clone(), e));
                    break;
                }
            }
        }
        if let Some((q, e)) = err {
            if let QErr::Panic(m) = &e {
                out.violations.push(Violation {
                    signature: format!("C19|query-panicked|{}", base.kind),
                    summary: format!("{q} panicked: {m}"),
                    detail: json!({"query": q, "graph": graph_json(&g)}),
                    replay: json!({"engine":"cyphermon","property":"C19","seed":seed,"case":k,"query":qi}),
                });
            } else {
                out.inconclusive(&format!("query-error:{}", crate::storemon::normalise_msg(&e.to_string()).chars().take(60).collect::<String>()));
            }
            continue;
        }
        out.evaluations += 1;
        out.count("quadruples", 1);
        if with_index {
            out.count("quadruples_with_index_present", 1);
        }
        if !res[3].is_empty() {
            out.count("quadruples_with_nonempty_null_partition", 1);
        }
        if !res[0].is_empty() {
            out.count("quadruples_with_rows", 1);
        }
        for kd in &kinds {
            out.cell(format!("{}:{kd}", base.kind));
        }
        let mut union: Vec<String> = res[1].iter().chain(res[2].iter()).chain(res[3].iter()).cloned().collect();
        union.sort();
        if union != res[0] {
            let lost: Vec<&String> = res[0].iter().filter(|r| !union.contains(r)).collect();
            let kind = if union.len() < res[0].len() { "rows-lost" } else if union.len() > res[0].len() { "rows-duplicated" } else { "rows-differ" };
            out.violations.push(Violation {
                signature: format!("C19|partition-{kind}|{}:{}", base.kind, kinds.join("+")),
                summary: format!("{} rows without filter, {} + {} + {} with WHERE p / NOT p / p IS NULL; p = {p}", res[0].len(), res[1].len(), res[2].len(), res[3].len()),
                detail: json!({"base": q_all, "predicate": p, "where_p": q_t, "rows": res[0], "p_true": res[1], "p_false": res[2], "p_null": res[3], "first_lost": lost.first(), "graph": graph_json(&g), "index": with_index, "storage": storage_name}),
                replay: json!({"engine":"cyphermon","property":"C19","seed":seed,"case":k,"query":qi}),
            });
        }
    }
}

pub fn main(args: &Args) -> Report {
    let mut rep = Report::new(
        "C19",
        &args.tier,
        args.seed,
        "exploration",
        "random graphs (1-6 nodes, typed properties, optional parallel relationships and self loops; with/without indexes; runs, compacted, compacted+reopened) x generated bases (node scan, label scan, expand in three directions, typed expand, two-hop, UNWIND, UNWIND+MATCH, OPTIONAL MATCH with filter on completed rows, cartesian product) x generated boolean predicates (comparisons, string operators, IN, IS NULL, boolean properties, connectives, pattern predicates, label predicates, CASE, quantifiers, EXISTS subqueries, arithmetic, functions, cross-kind comparisons); oracle: multiset(rows WHERE p) + (WHERE NOT p) + (WHERE p IS NULL) == multiset(rows); a quadruple where any query errors is inconclusive. A cell is (base kind, predicate construct)",
    );
    rep.assume("predicates are deterministic; the filter after OPTIONAL MATCH is attached with WITH * WHERE");
    let n = if args.thorough() { 400_000 } else { 4000 };
    let deadline = Instant::now() + Duration::from_secs(args.budget_s(120, 1200));
    let seed = args.seed;
    let (mut out, _) = par_cases(n, threads(), Some(deadline), |k| {
        let mut out = CaseOut::default();
        one_case(seed, k, &mut out);
        out
    });
    out.samples.push(json!({"base": "MATCH (n:A)-[r:R]->(m) RETURN id(n) AS a, id(m) AS b", "predicate": "(n.k < coalesce(m.n, 0)) XOR ((m)--())", "law": "rows(WHERE p) + rows(WHERE NOT (p)) + rows(WHERE (p) IS NULL) == rows()"}));
    let mut seen = std::collections::BTreeMap::<String, usize>::new();
    out.violations.retain(|v| {
        let c = seen.entry(v.signature.clone()).or_default();
        *c += 1;
        *c <= 2
    });
    rep.out = out;
    let t = args.thorough();
    rep.floor("quadruples", rep.counter("quadruples"), if t { 100_000 } else { 5000 });
    rep.floor("quadruples with non-empty NULL partition", rep.counter("quadruples_with_nonempty_null_partition"), if t { 10_000 } else { 500 });
    rep.floor("quadruples with an index present", rep.counter("quadruples_with_index_present"), if t { 10_000 } else { 1000 });
    rep
}
