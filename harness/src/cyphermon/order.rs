//! C20: ORDER BY returns rows sorted by Cypher's ordering of values for every mix of value types;
//! SKIP s LIMIT l returns exactly positions s..s+l-1 of that order.
//!
//! Oracle: an independent comparator in the harness (type ranks, exact i64/f64 comparison, NaN
//! greatest number, null last ascending) judges the key sequence; the ordered output must be a
//! permutation of the unordered rows; SKIP/LIMIT output must be the key slice of the full order
//! (ties may permute, so key sequences are compared).

use super::{Prep, Scratch, boundary_numbers, cmp_num, kind, params};
use crate::common::cypher::{QErr, canon_value};
use crate::common::report::{Args, CaseOut, Report, Violation};
use crate::common::rng::Rng;
use ndb_core::query::Value;
use serde_json::json;
use std::cmp::Ordering;

/// Ascending rank of a value's type in Cypher's global sort order.
fn rank(v: &Value) -> u8 {
    match v {
        Value::Map(_) => 0,
        Value::Node(_) | Value::NodeId(_) => 1,
        Value::Relationship(_) | Value::EdgeKey(_) => 2,
        Value::List(_) => 3,
        Value::Path(_) | Value::ReifiedPath(_) => 4,
        Value::String(_) => 5,
        Value::Bool(_) => 6,
        Value::Int(_) | Value::Float(_) => 7,
        Value::Null => 9,
        _ => 8,
    }
}

/// Reference order. `None` = the harness does not judge this pair (e.g. two maps, two NaNs are
/// equal, temporal/blob values): such pairs may appear in either order.
pub fn ref_cmp(a: &Value, b: &Value) -> Option<Ordering> {
    let (ra, rb) = (rank(a), rank(b));
    if ra != rb {
        return Some(ra.cmp(&rb));
    }
    match (a, b) {
        (Value::Null, Value::Null) => Some(Ordering::Equal),
        (Value::Bool(x), Value::Bool(y)) => Some(x.cmp(y)),
        (Value::String(x), Value::String(y)) => Some(x.as_str().cmp(y.as_str())), // UTF-8 byte order = code point order
        (Value::Int(_) | Value::Float(_), Value::Int(_) | Value::Float(_)) => {
            let nan = |v: &Value| matches!(v, Value::Float(f) if f.is_nan());
            match (nan(a), nan(b)) {
                (true, true) => Some(Ordering::Equal),
                (true, false) => Some(Ordering::Greater),
                (false, true) => Some(Ordering::Less),
                _ => cmp_num(a, b),
            }
        }
        (Value::List(x), Value::List(y)) => {
            for (p, q) in x.iter().zip(y.iter()) {
                match ref_cmp(p, q)? {
                    Ordering::Equal => {}
                    o => return Some(o),
                }
            }
            Some(x.len().cmp(&y.len()))
        }
        _ => None,
    }
}

fn sorted_violation(keys: &[Vec<Value>], dirs: &[bool]) -> Option<(usize, String)> {
    for i in 1..keys.len() {
        let (p, q) = (&keys[i - 1], &keys[i]);
        for (j, desc) in dirs.iter().enumerate() {
            match ref_cmp(&p[j], &q[j]) {
                None => break, // not judged from this key on
                Some(Ordering::Equal) => continue,
                Some(o) => {
                    let o = if *desc { o.reverse() } else { o };
                    if o == Ordering::Greater {
                        return Some((i, format!("row {} key {} = {} comes before row {} key = {}", i - 1, j, canon_value(&p[j], false), i, canon_value(&q[j], false))));
                    }
                    break;
                }
            }
        }
    }
    None
}

fn value_pool(rng: &mut Rng, family: usize) -> Vec<Value> {
    let nums = boundary_numbers();
    let strings = ["", "a", "A", "ab", "b", "é", "z", "2020-01-02", "2020-1-1", "2020-01-10", "12:00", "9", "10", "abc"];
    let mut v = Vec::new();
    let n = 2 + rng.below(14);
    for _ in 0..n {
        let x = match family {
            // 0: numbers only (ints near 2^53 / 2^63 next to floats, NaN, inf, zeros)
            0 => match rng.below(8) {
                0 => Value::Float(f64::NAN),
                1 => Value::Null,
                _ => rng.pick(&nums).clone(),
            },
            // 1: strings (date-like and others) and nulls
            1 => {
                if rng.chance(1, 8) {
                    Value::Null
                } else {
                    Value::String(rng.pick(&strings).to_string())
                }
            }
            // 2: every type mixed
            _ => match rng.below(9) {
                0 => Value::Null,
                1 => Value::Bool(rng.chance(1, 2)),
                2 => Value::String(rng.pick(&strings).to_string()),
                3 => Value::List((0..rng.below(3)).map(|_| rng.pick(&nums).clone()).collect()),
                4 => Value::Map([("a".to_string(), Value::Int(rng.range(0, 3)))].into_iter().collect()),
                5 => Value::Float(f64::NAN),
                6 => Value::List(vec![Value::String(rng.pick(&strings).to_string()), Value::Null]),
                _ => rng.pick(&nums).clone(),
            },
        };
        v.push(x);
    }
    v
}

fn one_case(s: &Scratch, prep: &mut Prep, rng: &mut Rng, k: usize, out: &mut CaseOut) {
    let family = k % 3;
    let nkeys = 1 + rng.below(2);
    let rows: Vec<Value> = {
        let cols: Vec<Vec<Value>> = (0..nkeys)
            .map(|_| {
                let f = if nkeys == 2 { rng.below(3) } else { family };
                value_pool(rng, f)
            })
            .collect();
        let n = cols.iter().map(|c| c.len()).min().unwrap();
        (0..n).map(|i| Value::List(cols.iter().map(|c| c[i].clone()).collect())).collect()
    };
    let dirs: Vec<bool> = (0..nkeys).map(|_| rng.chance(1, 2)).collect();
    let order = (0..nkeys).map(|j| format!("x[{j}]{}", if dirs[j] { " DESC" } else { "" })).collect::<Vec<_>>().join(", ");
    let ret = (0..nkeys).map(|j| format!("x[{j}] AS k{j}")).collect::<Vec<_>>().join(", ");
    let q_full = format!("UNWIND $rows AS x RETURN {ret} ORDER BY {order}");
    let ps = params(&[("rows", Value::List(rows.clone()))]);
    let kinds: std::collections::BTreeSet<&str> = rows.iter().flat_map(|r| if let Value::List(xs) = r { xs.iter().map(kind).collect::<Vec<_>>() } else { vec![] }).collect();
    out.evaluations += 1;
    out.count("sorts", 1);
    if kinds.len() >= 3 {
        out.count("sorts_with_3+_value_kinds", 1);
    }
    let has_big = rows.iter().any(|r| if let Value::List(xs) = r { xs.iter().any(|v| matches!(v, Value::Int(i) if i.unsigned_abs() > 1 << 53)) && xs.iter().any(|v| matches!(v, Value::Float(_))) } else { false })
        || (rows.iter().any(|r| matches!(r, Value::List(xs) if xs.iter().any(|v| matches!(v, Value::Int(i) if i.unsigned_abs() > 1 << 53)))) && rows.iter().any(|r| matches!(r, Value::List(xs) if xs.iter().any(|v| matches!(v, Value::Float(_))))));
    if has_big {
        out.count("sorts_with_big_ints_next_to_floats", 1);
    }
    out.cell(format!("keys={nkeys}:dirs={dirs:?}:kinds={}", kinds.iter().cloned().collect::<Vec<_>>().join("+")));
    let detail = |extra: serde_json::Value| json!({"query": q_full, "rows": rows.iter().map(|r| canon_value(r, false)).collect::<Vec<_>>(), "extra": extra});
    let class = kinds.iter().cloned().collect::<Vec<_>>().join("+");
    let full = match prep.rows(&s.db, &q_full, &ps) {
        Ok(r) => r,
        Err(QErr::Panic(m)) => {
            out.violations.push(Violation { signature: format!("C20|sort-panicked|{class}"), summary: format!("ORDER BY panicked: {m}"), detail: detail(json!({})), replay: json!({"engine":"cyphermon","property":"C20","case":k}) });
            return;
        }
        Err(e) => {
            out.inconclusive(&format!("query-error:{}", crate::storemon::normalise_msg(&e.to_string())));
            return;
        }
    };
    let keys: Vec<Vec<Value>> = full.iter().map(|r| r.iter().map(|(_, v)| v.clone()).collect()).collect();
    // permutation of the input rows
    let mut a: Vec<String> = keys.iter().map(|k| k.iter().map(|v| canon_value(v, false)).collect::<Vec<_>>().join("|")).collect();
    let mut b: Vec<String> = rows.iter().map(|r| if let Value::List(xs) = r { xs.iter().map(|v| canon_value(v, false)).collect::<Vec<_>>().join("|") } else { String::new() }).collect();
    let key_seq = a.clone();
    a.sort();
    b.sort();
    if a != b {
        out.violations.push(Violation { signature: format!("C20|not-a-permutation|{class}"), summary: "the ordered output is not a permutation of the input rows".into(), detail: detail(json!({"output": key_seq})), replay: json!({"engine":"cyphermon","property":"C20","case":k}) });
        return;
    }
    if let Some((_, what)) = sorted_violation(&keys, &dirs) {
        // name the pair of kinds that is out of order
        out.violations.push(Violation { signature: format!("C20|not-sorted|{}", sort_class(&keys, &dirs)), summary: format!("output not sorted: {what}"), detail: detail(json!({"output": key_seq, "directions_desc": dirs})), replay: json!({"engine":"cyphermon","property":"C20","case":k}) });
        return;
    }
    // SKIP / LIMIT slices of the same order
    for _ in 0..2 {
        let sk = rng.below(keys.len() + 2);
        let li = rng.below(keys.len() + 2);
        let q = format!("UNWIND $rows AS x RETURN {ret} ORDER BY {order} SKIP {sk} LIMIT {li}");
        out.count("sorts_with_skip_limit", 1);
        match prep.rows(&s.db, &q, &ps) {
            Ok(r) => {
                let got: Vec<String> = r.iter().map(|r| r.iter().map(|(_, v)| canon_value(v, false)).collect::<Vec<_>>().join("|")).collect();
                let want: Vec<String> = key_seq.iter().skip(sk).take(li).cloned().collect();
                // ties may permute: compare as key sequences under the reference order, i.e. each
                // position must hold a key equal (by ref_cmp) to the one in the full order
                let same_len = got.len() == want.len();
                let keys_equal = same_len
                    && r.iter().zip(keys.iter().skip(sk)).all(|(row, full_key)| {
                        row.iter().zip(full_key.iter()).zip(dirs.iter()).all(|(((_, v), fk), _)| matches!(ref_cmp(v, fk), Some(Ordering::Equal) | None))
                    });
                if !keys_equal {
                    out.violations.push(Violation {
                        signature: format!("C20|skip-limit-is-not-the-slice|{}", if same_len { "keys-differ" } else { "length-differs" }),
                        summary: format!("SKIP {sk} LIMIT {li} returned {got:?}, the slice of the full order is {want:?}"),
                        detail: detail(json!({"skip": sk, "limit": li, "full_order": key_seq})),
                        replay: json!({"engine":"cyphermon","property":"C20","case":k}),
                    });
                    return;
                }
            }
            Err(e) => out.inconclusive(&format!("skip-limit-query-error:{}", crate::storemon::normalise_msg(&e.to_string()))),
        }
    }
}

/// The pair of value kinds found out of order (stable part of the signature).
fn sort_class(keys: &[Vec<Value>], dirs: &[bool]) -> String {
    for i in 1..keys.len() {
        for (j, desc) in dirs.iter().enumerate() {
            match ref_cmp(&keys[i - 1][j], &keys[i][j]) {
                None => break,
                Some(Ordering::Equal) => continue,
                Some(o) => {
                    let o = if *desc { o.reverse() } else { o };
                    if o == Ordering::Greater {
                        let big = |v: &Value| match v {
                            Value::Int(i) => i.unsigned_abs() > 1 << 53,
                            Value::Float(f) => f.abs() > 9007199254740992.0 && f.is_finite(),
                            _ => false,
                        };
                        let (a, b) = (&keys[i - 1][j], &keys[i][j]);
                        let mut ks = [kind(a), kind(b)];
                        ks.sort();
                        return format!("{}~{}{}{}", ks[0], ks[1], if big(a) || big(b) { ":beyond-2^53" } else { "" }, if *desc { ":desc" } else { ":asc" });
                    }
                    break;
                }
            }
        }
    }
    "?".into()
}

pub fn main(args: &Args) -> Report {
    let mut rep = Report::new(
        "C20",
        &args.tier,
        args.seed,
        "exploration",
        "UNWIND $rows AS x RETURN x[0], x[1] ORDER BY one or two keys in random directions, over generated value lists (numbers: integers around 2^53 and 2^63 next to floats, NaN, +-inf, +-0; strings incl. date-like; every type mixed: null, bool, string, list, map, NaN); the output must be a permutation of the input, sorted under an independent comparator (type ranks Map<Node<Rel<List<Path<String<Bool<Number<null, exact int/float comparison, NaN greatest number, DESC = reverse), and ORDER BY .. SKIP s LIMIT l must be the key slice [s, s+l) of the full order. A cell is (key count, directions, value kinds)",
    );
    rep.assume("ties and pairs the comparator does not judge (two maps, temporal values) may appear in either order");
    let s = Scratch::new("c20");
    let mut prep = Prep::default();
    let mut out = CaseOut::default();
    let n = if args.thorough() { 1_000_000 } else { 20_000 };
    let deadline = std::time::Instant::now() + std::time::Duration::from_secs(args.budget_s(90, 900));
    for k in 0..n {
        if std::time::Instant::now() > deadline {
            break;
        }
        let mut rng = Rng::derive(args.seed, k as u64);
        one_case(&s, &mut prep, &mut rng, k, &mut out);
    }
    out.samples.push(json!({"query": "UNWIND $rows AS x RETURN x[0] AS k0 ORDER BY x[0] DESC SKIP 2 LIMIT 3", "rows": "[[9007199254740993],[9007199254740992.0],[NaN],[null],['2020-1-1']]"}));
    let mut seen = std::collections::BTreeMap::<String, usize>::new();
    out.violations.retain(|v| {
        let c = seen.entry(v.signature.clone()).or_default();
        *c += 1;
        *c <= 3
    });
    rep.out = out;
    let t = args.thorough();
    rep.floor("sorts", rep.counter("sorts"), if t { 20_000 } else { 2000 });
    rep.floor("sorts with >= 3 value kinds", rep.counter("sorts_with_3+_value_kinds"), if t { 5000 } else { 500 });
    rep.floor("sorts with |int| > 2^53 next to floats", rep.counter("sorts_with_big_ints_next_to_floats"), if t { 3000 } else { 300 });
    rep.floor("sorts with SKIP/LIMIT", rep.counter("sorts_with_skip_limit"), if t { 5000 } else { 500 });
    rep
}
