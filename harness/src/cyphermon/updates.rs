//! C12: Cypher update statements (CREATE, MERGE, SET, REMOVE, DELETE / DETACH DELETE, FOREACH)
//! change the graph exactly as an independent reference model of Cypher update semantics
//! predicts, report consistent change counts, and a repeated MERGE creates nothing.
//!
//! The model (this file) is written from the openCypher semantics, not from the engine. The read
//! prefix of a statement (MATCH / OPTIONAL MATCH / UNWIND / WITH) is evaluated by the reference
//! evaluator of C11 on the graph as it was when the statement started.

use super::reference::{Clause, Expr, V, render_clause, render_expr};
use ndb_core::query::Value;
use std::collections::{BTreeMap, BTreeSet};

// ---------------------------------------------------------------------------------------------
// statements
// ---------------------------------------------------------------------------------------------

#[derive(Clone, Debug)]
pub struct CNode {
    pub var: Option<String>,
    pub labels: Vec<String>,
    pub props: Vec<(String, Expr)>,
}

#[derive(Clone, Debug)]
pub struct CRel {
    pub var: Option<String>,
    pub typ: String,
    pub props: Vec<(String, Expr)>,
    /// 0: left-to-right `-[]->`, 1: right-to-left `<-[]-`, 2: undirected (MERGE only)
    pub dir: u8,
}

#[derive(Clone, Debug)]
pub struct CPath {
    pub nodes: Vec<CNode>,
    pub rels: Vec<CRel>,
}

#[derive(Clone, Debug)]
pub enum SetItem {
    Prop(String, String, Expr),
    MapMerge(String, Vec<(String, Expr)>),
    MapReplace(String, Vec<(String, Expr)>),
    /// `SET v += $name` / `SET v = $name` with a map parameter
    MapParam(String, bool, String, BTreeMap<String, V>),
    Labels(String, Vec<String>),
}

#[derive(Clone, Debug)]
pub enum RemoveItem {
    Prop(String, String),
    Labels(String, Vec<String>),
}

#[derive(Clone, Debug)]
pub enum UClause {
    Create(Vec<CPath>),
    Merge { path: CPath, on_create: Vec<SetItem>, on_match: Vec<SetItem> },
    Set(Vec<SetItem>),
    Remove(Vec<RemoveItem>),
    Delete { detach: bool, vars: Vec<String> },
    Foreach { var: String, list: Expr, body: Vec<UClause> },
    /// `WITH a, b` passing variables through unchanged
    With(Vec<String>),
}

#[derive(Clone, Debug)]
pub struct UStmt {
    pub prefix: Vec<Clause>,
    pub updates: Vec<UClause>,
    /// `RETURN count(*) AS c`
    pub ret_count: bool,
}

fn render_props(props: &[(String, Expr)]) -> String {
    if props.is_empty() {
        String::new()
    } else {
        format!(" {{{}}}", props.iter().map(|(k, e)| format!("{k}: {}", render_expr(e))).collect::<Vec<_>>().join(", "))
    }
}

fn render_cnode(n: &CNode) -> String {
    let labels: String = n.labels.iter().map(|l| format!(":{l}")).collect();
    format!("({}{labels}{})", n.var.clone().unwrap_or_default(), render_props(&n.props))
}

fn render_cpath(p: &CPath) -> String {
    let mut s = render_cnode(&p.nodes[0]);
    for (i, r) in p.rels.iter().enumerate() {
        let inner = format!("[{}:{}{}]", r.var.clone().unwrap_or_default(), r.typ, render_props(&r.props));
        s.push_str(&match r.dir {
            0 => format!("-{inner}->"),
            1 => format!("<-{inner}-"),
            _ => format!("-{inner}-"),
        });
        s.push_str(&render_cnode(&p.nodes[i + 1]));
    }
    s
}

fn render_map(items: &[(String, Expr)]) -> String {
    format!("{{{}}}", items.iter().map(|(k, e)| format!("{k}: {}", render_expr(e))).collect::<Vec<_>>().join(", "))
}

fn render_set_item(i: &SetItem) -> String {
    match i {
        SetItem::Prop(v, k, e) => format!("{v}.{k} = {}", render_expr(e)),
        SetItem::MapMerge(v, m) => format!("{v} += {}", render_map(m)),
        SetItem::MapReplace(v, m) => format!("{v} = {}", render_map(m)),
        SetItem::MapParam(v, merge, name, _) => format!("{v} {} ${name}", if *merge { "+=" } else { "=" }),
        SetItem::Labels(v, ls) => format!("{v}{}", ls.iter().map(|l| format!(":{l}")).collect::<String>()),
    }
}

pub fn render_uclause(c: &UClause) -> String {
    match c {
        UClause::Create(ps) => format!("CREATE {}", ps.iter().map(render_cpath).collect::<Vec<_>>().join(", ")),
        UClause::Merge { path, on_create, on_match } => {
            let mut s = format!("MERGE {}", render_cpath(path));
            if !on_create.is_empty() {
                s.push_str(&format!(" ON CREATE SET {}", on_create.iter().map(render_set_item).collect::<Vec<_>>().join(", ")));
            }
            if !on_match.is_empty() {
                s.push_str(&format!(" ON MATCH SET {}", on_match.iter().map(render_set_item).collect::<Vec<_>>().join(", ")));
            }
            s
        }
        UClause::Set(items) => format!("SET {}", items.iter().map(render_set_item).collect::<Vec<_>>().join(", ")),
        UClause::Remove(items) => format!(
            "REMOVE {}",
            items
                .iter()
                .map(|i| match i {
                    RemoveItem::Prop(v, k) => format!("{v}.{k}"),
                    RemoveItem::Labels(v, ls) => format!("{v}{}", ls.iter().map(|l| format!(":{l}")).collect::<String>()),
                })
                .collect::<Vec<_>>()
                .join(", ")
        ),
        UClause::Delete { detach, vars } => format!("{}DELETE {}", if *detach { "DETACH " } else { "" }, vars.join(", ")),
        UClause::Foreach { var, list, body } => format!("FOREACH ({var} IN {} | {})", render_expr(list), body.iter().map(render_uclause).collect::<Vec<_>>().join(" ")),
        UClause::With(vs) => format!("WITH {}", vs.join(", ")),
    }
}

pub fn render_stmt(s: &UStmt) -> String {
    let mut parts: Vec<String> = s.prefix.iter().map(render_clause).collect();
    parts.extend(s.updates.iter().map(render_uclause));
    if s.ret_count {
        parts.push("RETURN count(*) AS c".into());
    }
    parts.join(" ")
}

/// The kinds of updating clause in a statement, e.g. "create+set".
pub fn stmt_kinds(s: &UStmt) -> String {
    fn walk(c: &UClause, out: &mut BTreeSet<&'static str>) {
        match c {
            UClause::Create(_) => {
                out.insert("create");
            }
            UClause::Merge { .. } => {
                out.insert("merge");
            }
            UClause::Set(items) => {
                for i in items {
                    out.insert(match i {
                        SetItem::Prop(..) => "set-prop",
                        SetItem::MapMerge(..) | SetItem::MapParam(_, true, ..) => "set-merge-map",
                        SetItem::MapReplace(..) | SetItem::MapParam(_, false, ..) => "set-replace-map",
                        SetItem::Labels(..) => "set-label",
                    });
                }
            }
            UClause::Remove(items) => {
                for i in items {
                    out.insert(match i {
                        RemoveItem::Prop(..) => "remove-prop",
                        RemoveItem::Labels(..) => "remove-label",
                    });
                }
            }
            UClause::Delete { detach, .. } => {
                out.insert(if *detach { "detach-delete" } else { "delete" });
            }
            UClause::Foreach { body, .. } => {
                out.insert("foreach");
                body.iter().for_each(|b| walk(b, out));
            }
            UClause::With(_) => {}
        }
    }
    let mut k = BTreeSet::new();
    s.updates.iter().for_each(|c| walk(c, &mut k));
    k.into_iter().collect::<Vec<_>>().join("+")
}

/// Parameters used by a statement (name -> value), collected from its expressions.
pub fn stmt_params(s: &UStmt) -> BTreeMap<String, V> {
    fn ex(e: &Expr, out: &mut BTreeMap<String, V>) {
        match e {
            Expr::Param(n, v) => {
                out.insert(n.clone(), v.clone());
            }
            Expr::Bin(_, a, b) | Expr::In(a, b) | Expr::Index(a, b) => {
                ex(a, out);
                ex(b, out);
            }
            Expr::Not(a) | Expr::IsNull(a, _) => ex(a, out),
            Expr::Func(_, xs) | Expr::ListLit(xs) => xs.iter().for_each(|x| ex(x, out)),
            Expr::Agg(_, _, Some(a)) => ex(a, out),
            _ => {}
        }
    }
    fn items(is: &[SetItem], out: &mut BTreeMap<String, V>) {
        for i in is {
            match i {
                SetItem::Prop(_, _, e) => ex(e, out),
                SetItem::MapMerge(_, m) | SetItem::MapReplace(_, m) => m.iter().for_each(|(_, e)| ex(e, out)),
                SetItem::MapParam(_, _, n, m) => {
                    out.insert(n.clone(), V::Map(m.clone()));
                }
                SetItem::Labels(..) => {}
            }
        }
    }
    fn path(p: &CPath, out: &mut BTreeMap<String, V>) {
        p.nodes.iter().for_each(|n| n.props.iter().for_each(|(_, e)| ex(e, out)));
        p.rels.iter().for_each(|r| r.props.iter().for_each(|(_, e)| ex(e, out)));
    }
    fn clause(c: &UClause, out: &mut BTreeMap<String, V>) {
        match c {
            UClause::Create(ps) => ps.iter().for_each(|p| path(p, out)),
            UClause::Merge { path: p, on_create, on_match } => {
                path(p, out);
                items(on_create, out);
                items(on_match, out);
            }
            UClause::Set(is) => items(is, out),
            UClause::Foreach { list, body, .. } => {
                ex(list, out);
                body.iter().for_each(|b| clause(b, out));
            }
            _ => {}
        }
    }
    let mut out = BTreeMap::new();
    for c in &s.prefix {
        match c {
            Clause::Match { where_, .. } => {
                if let Some(w) = where_ {
                    ex(w, &mut out);
                }
            }
            Clause::Unwind { expr, .. } => ex(expr, &mut out),
            Clause::With(p) => {
                p.items.iter().for_each(|(e, _)| ex(e, &mut out));
                if let Some(w) = &p.where_ {
                    ex(w, &mut out);
                }
            }
        }
    }
    s.updates.iter().for_each(|c| clause(c, &mut out));
    out
}

pub fn v_to_value(v: &V) -> Value {
    match v {
        V::Null => Value::Null,
        V::Bool(b) => Value::Bool(*b),
        V::Int(i) => Value::Int(*i),
        V::Float(f) => Value::Float(*f),
        V::Str(s) => Value::String(s.clone()),
        V::List(xs) => Value::List(xs.iter().map(v_to_value).collect()),
        V::Map(m) => Value::Map(m.iter().map(|(k, x)| (k.clone(), v_to_value(x))).collect()),
        V::Node(_) | V::Rel(_) => Value::Null,
    }
}

