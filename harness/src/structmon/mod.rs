//! structmon: monitors of single data structures through their public API
//! (C26 on-disk B-tree as a sorted multimap, C27 ordered index key encoding).

pub mod btree;
pub mod keys;
