//! C27: the ordered key encoding preserves order and equality and is prefix free.

use crate::common::report::{Args, CaseOut, Report, Violation, par_cases, threads};
use crate::common::rng::Rng;
use crate::common::value::{canon, to_json};
use nervusdb_api::PropertyValue as PV;
use nervusdb_storage::index::ordered_key::encode_ordered_value as enc;
use serde_json::json;
use std::cmp::Ordering;

fn kind(v: &PV) -> &'static str {
    match v {
        PV::Null => "null",
        PV::Bool(_) => "bool",
        PV::Int(_) => "int",
        PV::Float(_) => "float",
        PV::String(_) => "string",
        PV::DateTime(_) => "datetime",
        PV::Blob(_) => "blob",
        PV::List(_) => "list",
        PV::Map(_) => "map",
    }
}

/// Value order within one kind. None = not comparable / not judged (NaN).
fn value_cmp(a: &PV, b: &PV) -> Option<Ordering> {
    match (a, b) {
        (PV::Null, PV::Null) => Some(Ordering::Equal),
        (PV::Bool(x), PV::Bool(y)) => Some(x.cmp(y)),
        (PV::Int(x), PV::Int(y)) => Some(x.cmp(y)),
        (PV::DateTime(x), PV::DateTime(y)) => Some(x.cmp(y)),
        (PV::Float(x), PV::Float(y)) => x.partial_cmp(y), // numeric: 0.0 == -0.0, NaN unordered
        (PV::String(x), PV::String(y)) => Some(x.as_bytes().cmp(y.as_bytes())),
        (PV::Blob(x), PV::Blob(y)) => Some(x.cmp(y)),
        // lists and maps: only equality is judged (their order is not defined by the property)
        (PV::List(_), PV::List(_)) | (PV::Map(_), PV::Map(_)) => {
            if canon(a) == canon(b) { Some(Ordering::Equal) } else { None }
        }
        _ => None,
    }
}

fn judge(a: &PV, b: &PV, out: &mut CaseOut) {
    out.evaluations += 1;
    let ea = enc(a);
    let eb = enc(b);
    let mut fail = |law: &str, what: String| {
        out.violations.push(Violation {
            signature: format!("C27|{law}|{}-{}", kind(a), kind(b)),
            summary: what,
            detail: json!({"a": to_json(a), "b": to_json(b), "enc_a": hex(&ea), "enc_b": hex(&eb)}),
            replay: json!({"engine":"structmon","property":"C27","a_canon":canon(a),"b_canon":canon(b)}),
        });
    };
    // prefix freedom (within and across kinds)
    if ea.len() < eb.len() && eb.starts_with(&ea) {
        fail("proper-prefix", format!("enc({}) is a proper prefix of enc({})", canon(a), canon(b)));
    }
    if eb.len() < ea.len() && ea.starts_with(&eb) {
        fail("proper-prefix", format!("enc({}) is a proper prefix of enc({})", canon(b), canon(a)));
    }
    if kind(a) != kind(b) {
        if ea == eb {
            fail("cross-kind-collision", format!("different kinds share an encoding: {} / {}", canon(a), canon(b)));
        }
        return;
    }
    let is_nan = |v: &PV| matches!(v, PV::Float(f) if f.is_nan());
    if is_nan(a) || is_nan(b) {
        out.count("nan-pairs-not-judged", 1);
        return;
    }
    match value_cmp(a, b) {
        Some(Ordering::Less) => {
            if ea >= eb {
                fail("order", format!("{} < {} but enc(a) >= enc(b)", canon(a), canon(b)));
            }
        }
        Some(Ordering::Greater) => {
            if ea <= eb {
                fail("order", format!("{} > {} but enc(a) <= enc(b)", canon(a), canon(b)));
            }
        }
        Some(Ordering::Equal) => {
            if ea != eb {
                fail("equal-values-differ", format!("{} = {} but the encodings differ", canon(a), canon(b)));
            }
        }
        None => {
            // same kind, different values whose order is not judged: encodings must still differ
            if ea == eb {
                fail("different-values-collide", format!("{} != {} but the encodings are equal", canon(a), canon(b)));
            }
        }
    }
}

fn hex(b: &[u8]) -> String {
    b.iter().map(|x| format!("{x:02x}")).collect()
}

fn int_boundaries() -> Vec<i64> {
    let mut v = vec![0, 1, -1, i64::MAX, i64::MIN, i64::MAX - 1, i64::MIN + 1];
    for k in 1..63 {
        let p = 1i64 << k;
        for d in [-1i64, 0, 1] {
            v.push(p.wrapping_add(d));
            v.push((-p).wrapping_add(d));
        }
    }
    v
}

fn float_boundaries() -> Vec<f64> {
    let mut v = vec![
        0.0, -0.0, 1.0, -1.0, f64::MIN_POSITIVE, -f64::MIN_POSITIVE, f64::MAX, f64::MIN, f64::INFINITY,
        f64::NEG_INFINITY, f64::NAN, 5e-324, -5e-324, 9007199254740992.0, 9007199254740993.0, 0.1, -0.1, 1e300, -1e300,
    ];
    // adjacent bit patterns around interesting points
    for base in [0.0f64, 1.0, -1.0, 2.0, f64::MIN_POSITIVE, 1e10, -1e10] {
        let b = base.to_bits();
        for d in [1u64, 2] {
            v.push(f64::from_bits(b.wrapping_add(d)));
            v.push(f64::from_bits(b.wrapping_sub(d)));
        }
    }
    v
}

fn byte_strings(alphabet: &[u8], max_len: usize) -> Vec<Vec<u8>> {
    let mut out = vec![vec![]];
    let mut frontier = vec![vec![]];
    for _ in 0..max_len {
        let mut next = Vec::new();
        for s in &frontier {
            for &c in alphabet {
                let mut t: Vec<u8> = s.clone();
                t.push(c);
                next.push(t);
            }
        }
        out.extend(next.iter().cloned());
        frontier = next;
    }
    out
}

fn random_value(rng: &mut Rng, k: usize) -> PV {
    match k {
        0 => PV::Int(rng.next_u64() as i64),
        1 => PV::Float(f64::from_bits(rng.next_u64())),
        2 => {
            let n = rng.below(12);
            let s: String = (0..n).map(|_| ['a', 'b', '\0', '\u{1}', 'é', 'z', '\u{7f}'][rng.below(7)]).collect();
            PV::String(s)
        }
        3 => {
            let n = rng.below(12);
            PV::Blob((0..n).map(|_| [0u8, 1, 0xff, b'a', 0xfe][rng.below(5)]).collect())
        }
        4 => PV::DateTime(rng.next_u64() as i64),
        5 => PV::Int(rng.range(-70000, 70000)),
        6 => PV::Float((rng.range(-100000, 100000) as f64) / 8.0),
        7 => PV::List((0..rng.below(3)).map(|_| PV::Int(rng.range(0, 2))).collect()),
        8 => {
            let mut m = std::collections::BTreeMap::new();
            for _ in 0..rng.below(3) {
                m.insert(["a", "b"][rng.below(2)].to_string(), PV::Int(rng.range(0, 2)));
            }
            PV::Map(m)
        }
        _ => PV::Bool(rng.chance(1, 2)),
    }
}

pub fn main(args: &Args) -> Report {
    let mut rep = Report::new(
        "C27",
        &args.tier,
        args.seed,
        "exploration",
        "pairs of property values; for every pair: same-kind order and equality must agree with byte-wise order/equality of encode_ordered_value, no encoding may be a proper prefix of another, kinds may not collide. Exhaustive over boundary pools (integers +-2^k+-1, all i16-range integers on a stride, float boundaries and adjacent bit patterns, all byte strings over {00,01,ff,'a'} up to length 4/5) and seeded random pairs; a cell is (law, kind pair)",
    );
    rep.assume("NaN pairs are not judged for equality/order (NaN = NaN is not an equality Cypher defines); floats compare numerically, so 0.0 = -0.0");
    rep.assume("'all integers / all floats' cannot be enumerated by running code: the domain is sampled plus boundary-exhaustive");
    let thorough = args.thorough();
    let seed = args.seed;
    // boundary pools, all pairs
    let mut pool: Vec<PV> = vec![PV::Null, PV::Bool(false), PV::Bool(true)];
    pool.extend(int_boundaries().into_iter().map(PV::Int));
    pool.extend(float_boundaries().into_iter().map(PV::Float));
    pool.extend(int_boundaries().into_iter().step_by(7).map(PV::DateTime));
    let strs = byte_strings(&[0x00, 0x01, 0x7f, b'a'], if thorough { 5 } else { 4 });
    let blobs = byte_strings(&[0x00, 0x01, 0xff, b'a'], if thorough { 5 } else { 4 });
    let str_pool: Vec<PV> = strs.iter().map(|b| PV::String(String::from_utf8(b.clone()).unwrap())).collect();
    let blob_pool: Vec<PV> = blobs.iter().map(|b| PV::Blob(b.clone())).collect();
    pool.push(PV::List(vec![]));
    pool.push(PV::List(vec![PV::Int(1)]));
    pool.push(PV::List(vec![PV::Int(2)]));
    pool.push(PV::Map(Default::default()));
    pool.push(PV::Map([("a".to_string(), PV::Int(1))].into_iter().collect()));
    // a sample of strings/blobs joins the cross-kind pool
    for i in (0..str_pool.len()).step_by(17) {
        pool.push(str_pool[i].clone());
        pool.push(blob_pool[i].clone());
    }
    let pool_ref = &pool;
    let n = pool.len();
    let (mut out, _) = par_cases(n, threads(), None, |i| {
        let mut o = CaseOut::default();
        for j in 0..n {
            judge(&pool_ref[i], &pool_ref[j], &mut o);
            if o.violations.len() > 50 {
                break;
            }
        }
        o.cell(format!("pool:{}", kind(&pool_ref[i])));
        o
    });
    // strings × strings and blobs × blobs exhaustively
    for p in [&str_pool, &blob_pool] {
        let m = p.len();
        let (o2, _) = par_cases(m, threads(), None, |i| {
            let mut o = CaseOut::default();
            for j in 0..m {
                judge(&p[i], &p[j], &mut o);
                if o.violations.len() > 20 {
                    break;
                }
            }
            o
        });
        out.merge(o2);
    }
    // all i16-range integers: adjacent and strided pairs
    let (o3, _) = par_cases(16, threads(), None, |t| {
        let mut o = CaseOut::default();
        let lo = -32768i64 + (t as i64) * 4096;
        for x in lo..lo + 4096 {
            for y in [x + 1, x - 1, -x, x + 255, x + 256, x * 65536] {
                judge(&PV::Int(x), &PV::Int(y), &mut o);
                judge(&PV::Float(x as f64 / 4.0), &PV::Float(y as f64 / 4.0), &mut o);
            }
        }
        o.cell(format!("i16-block-{t}"));
        o
    });
    out.merge(o3);
    // random pairs
    let blocks = if thorough { 20_000 } else { 160 };
    let (o4, _) = par_cases(blocks, threads(), None, |b| {
        let mut rng = Rng::derive(seed, b as u64);
        let mut o = CaseOut::default();
        for _ in 0..10_000 {
            let k = rng.below(10);
            let a = random_value(&mut rng, k);
            let k2 = if rng.chance(9, 10) { k } else { rng.below(10) };
            let mut bv = random_value(&mut rng, k2);
            if rng.chance(1, 6) {
                bv = a.clone();
            }
            // near neighbours
            if rng.chance(1, 6) {
                bv = match &a {
                    PV::Int(x) => PV::Int(x.wrapping_add(1)),
                    PV::Float(x) => PV::Float(f64::from_bits(x.to_bits().wrapping_add(1))),
                    PV::String(s) => PV::String(format!("{s}\0")),
                    PV::Blob(x) => {
                        let mut y = x.clone();
                        y.push(0);
                        PV::Blob(y)
                    }
                    o => o.clone(),
                };
            }
            judge(&a, &bv, &mut o);
            o.cell(format!("rand:{}-{}", kind(&a), kind(&bv)));
            if o.violations.len() > 20 {
                break;
            }
        }
        o
    });
    out.merge(o4);
    out.samples.push(json!({"a": "Int(9007199254740992)", "b": "Int(9007199254740993)", "law": "order+equality"}));
    out.samples.push(json!({"a": "String(\"a\\0\")", "b": "String(\"a\")", "law": "prefix freedom + order"}));
    out.samples.push(json!({"a": "Float(0.0)", "b": "Float(-0.0)", "law": "equal values, equal encodings"}));
    // de-duplicate violations by signature: keep first 3 each
    let mut seen = std::collections::BTreeMap::<String, usize>::new();
    out.violations.retain(|v| {
        let c = seen.entry(v.signature.clone()).or_default();
        *c += 1;
        *c <= 3
    });
    rep.out = out;
    rep.floor("pairs judged", rep.out.evaluations, if thorough { 4_000_000 } else { 1_000_000 });
    rep
}
