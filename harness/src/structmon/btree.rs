//! C26: the on-disk B-tree behaves as a sorted multimap of (key, payload) pairs.
//!
//! Payloads are unique sequence numbers, so every history is unambiguous: a scan identifies each
//! stored pair, "most recently inserted for key k" is the pair with the largest payload.

use crate::common::dump::panic_msg;
use crate::common::report::{Args, CaseOut, Report, Violation, par_cases, threads};
use crate::common::rng::Rng;
use crate::common::sut::ScratchDir;
use nervusdb_storage::index::btree::BTree;
use nervusdb_storage::pager::{PageId, Pager};
use serde_json::{Value as J, json};
use std::collections::BTreeMap;
use std::panic::{AssertUnwindSafe, catch_unwind};
use std::time::{Duration, Instant};

#[derive(Clone, Debug)]
enum Step {
    Insert { key: usize },
    /// delete the i-th (mod len) stored pair
    DeleteStored { pick: usize },
    /// delete a pair that is not stored (existing key, unused payload)
    DeleteAbsent { key: usize },
    Reopen,
}

struct Case {
    keys: Vec<Vec<u8>>,
    steps: Vec<Step>,
    family: &'static str,
    /// avoid-mode: a key is never inserted while it is already stored (stays away from the
    /// recorded known findings about equal keys so that everything else is explored in depth)
    unique: bool,
}

fn gen_case(seed: u64, k: usize, thorough: bool) -> Case {
    let mut rng = Rng::derive(seed ^ 0xC26, k as u64);
    let family_id = k % 5;
    let (keys, family): (Vec<Vec<u8>>, &'static str) = match family_id {
        0 => {
            // 1-4 distinct long keys: long runs of equal keys, splits within tens of inserts
            let n = 1 + rng.below(4);
            let len = [8usize, 200, 900, 2000, 3000][rng.below(5)];
            (
                (0..n)
                    .map(|i| {
                        let mut v = vec![b'k'; len];
                        v[len - 1] = b'a' + i as u8;
                        v
                    })
                    .collect(),
                "few-long-keys",
            )
        }
        1 => {
            // realistic property-store keys: [tag][node][len][name]
            let mut ks = Vec::new();
            for node in 0..6u32 {
                for name in ["k", "p", "name", "a-long-property-name"] {
                    let mut v = vec![0u8];
                    v.extend_from_slice(&node.to_be_bytes());
                    v.extend_from_slice(&(name.len() as u32).to_be_bytes());
                    v.extend_from_slice(name.as_bytes());
                    ks.push(v);
                }
            }
            (ks, "property-keys")
        }
        2 => {
            // index keys: [index id][ordered value], few distinct values => many equal keys
            let mut ks = Vec::new();
            for val in 0..5i64 {
                let mut v = 1u32.to_be_bytes().to_vec();
                v.extend_from_slice(&nervusdb_storage::index::ordered_key::encode_ordered_value(
                    &nervusdb_api::PropertyValue::Int(val),
                ));
                ks.push(v);
            }
            for s in ["a", "ab", "", "a\0"] {
                let mut v = 1u32.to_be_bytes().to_vec();
                v.extend_from_slice(&nervusdb_storage::index::ordered_key::encode_ordered_value(
                    &nervusdb_api::PropertyValue::String(s.to_string()),
                ));
                ks.push(v);
            }
            (ks, "index-keys")
        }
        3 => {
            // many distinct medium keys: internal splits
            let n = 200 + rng.below(400);
            (
                (0..n)
                    .map(|i| {
                        let mut v = format!("key-{:05}-", i * 7 % n).into_bytes();
                        v.extend(std::iter::repeat(b'x').take(40 + (i % 5) * 60));
                        v
                    })
                    .collect(),
                "many-medium-keys",
            )
        }
        _ => {
            // single key, only duplicates
            (vec![vec![b'd'; [16usize, 600, 2500][rng.below(3)]]], "single-key")
        }
    };
    let n_steps = if thorough { 300 + rng.below(2700) } else { 60 + rng.below(500) };
    let mut steps = Vec::new();
    let mut phase_delete = false;
    for i in 0..n_steps {
        if i % 97 == 96 {
            phase_delete = !phase_delete;
        }
        let w = if phase_delete { [20u32, 70, 6, 4] } else { [75, 15, 6, 4] };
        steps.push(match rng.weighted(&w) {
            0 => Step::Insert { key: rng.below(keys.len()) },
            1 => Step::DeleteStored { pick: rng.next_u64() as usize },
            2 => Step::DeleteAbsent { key: rng.below(keys.len()) },
            _ => Step::Reopen,
        });
    }
    let unique = k % 2 == 1 && keys.len() >= 20;
    Case { keys, steps, family, unique }
}

fn scan_all(tree: &BTree, pager: &Pager) -> Result<Vec<(Vec<u8>, u64)>, String> {
    scan_from(tree, pager, &[], None)
}

/// Scan from lower_bound(start); if `only_key` is given stop at the first different key.
fn scan_from(tree: &BTree, pager: &Pager, start: &[u8], only_key: Option<&[u8]>) -> Result<Vec<(Vec<u8>, u64)>, String> {
    let mut out = Vec::new();
    let mut cur = tree.cursor_lower_bound(pager, start).map_err(|e| e.to_string())?;
    let mut guard = 0usize;
    while cur.is_valid().map_err(|e| e.to_string())? {
        let k = cur.key().map_err(|e| e.to_string())?;
        if let Some(ok) = only_key
            && k.as_slice() != ok
        {
            break;
        }
        let p = cur.payload().map_err(|e| e.to_string())?;
        out.push((k, p));
        guard += 1;
        if guard > 2_000_000 {
            return Err("scan does not terminate".into());
        }
        if !cur.advance().map_err(|e| e.to_string())? {
            break;
        }
    }
    Ok(out)
}

struct Fail {
    law: String,
    what: String,
    step: usize,
}

/// Execute the first `upto` steps (with `skip` steps removed) and check after every step.
fn run(case: &Case, keep: &[bool], out: &mut CaseOut, check_every: usize) -> Option<Fail> {
    let dir = ScratchDir::new("bt");
    let path = dir.path.join("t.ndb");
    let mut pager = match Pager::open(&path) {
        Ok(p) => p,
        Err(e) => {
            out.inconclusive(&format!("pager-open:{e}"));
            return None;
        }
    };
    let mut tree = match BTree::create(&mut pager) {
        Ok(t) => t,
        Err(e) => {
            out.inconclusive(&format!("btree-create:{e}"));
            return None;
        }
    };
    // model: key index -> payloads in insertion order
    let mut model: BTreeMap<Vec<u8>, Vec<u64>> = BTreeMap::new();
    let mut next_payload: u64 = 1;
    let mut stored: Vec<(usize, u64)> = Vec::new(); // (key idx, payload) in insertion order
    let mut pages_before = 0u64;
    for (i, st) in case.steps.iter().enumerate() {
        if !keep[i] {
            continue;
        }
        let r = catch_unwind(AssertUnwindSafe(|| -> Result<Option<Fail>, String> {
            match st {
                Step::Insert { key } => {
                    let kb = &case.keys[*key];
                    if case.unique && model.contains_key(kb) {
                        return Ok(None);
                    }
                    let p = next_payload;
                    next_payload += 1;
                    tree.insert(&mut pager, kb, p).map_err(|e| format!("insert: {e}"))?;
                    model.entry(kb.clone()).or_default().push(p);
                    stored.push((*key, p));
                    out.count("op.insert", 1);
                }
                Step::DeleteStored { pick } => {
                    if stored.is_empty() {
                        return Ok(None);
                    }
                    let (ki, p) = stored.remove(pick % stored.len());
                    let kb = &case.keys[ki];
                    let ok = tree.delete(&mut pager, kb, p).map_err(|e| format!("delete: {e}"))?;
                    let v = model.get_mut(kb).unwrap();
                    v.retain(|x| *x != p);
                    if v.is_empty() {
                        model.remove(kb);
                    }
                    out.count("op.delete_stored", 1);
                    if !ok {
                        return Ok(Some(Fail {
                            law: "delete-of-stored-pair-returned-false".into(),
                            what: format!("delete(key#{ki}, payload {p}) returned false for a stored pair"),
                            step: i,
                        }));
                    }
                }
                Step::DeleteAbsent { key } => {
                    let kb = &case.keys[*key];
                    let p = next_payload + 1_000_000;
                    let ok = tree.delete(&mut pager, kb, p).map_err(|e| format!("delete: {e}"))?;
                    out.count("op.delete_absent", 1);
                    if ok {
                        return Ok(Some(Fail {
                            law: "delete-of-absent-pair-returned-true".into(),
                            what: format!("delete(key#{key}, unused payload) returned true"),
                            step: i,
                        }));
                    }
                }
                Step::Reopen => {
                    let root = tree.root();
                    pager.sync().map_err(|e| e.to_string())?;
                    // replace the pager by a freshly opened one; the old handle is closed first (a
                    // page file admits one handle at a time)
                    let placeholder = Pager::open(path.with_extension("swap")).map_err(|e| format!("reopen: {e}"))?;
                    let old = std::mem::replace(&mut pager, placeholder);
                    drop(old);
                    pager = Pager::open(&path).map_err(|e| format!("reopen: {e}"))?;
                    tree = BTree::load(PageId::new(root.as_u64()));
                    out.count("op.reopen", 1);
                }
            }
            Ok(None)
        }));
        match r {
            Err(p) => {
                return Some(Fail { law: "panic".into(), what: format!("panic: {}", panic_msg(&p)), step: i });
            }
            Ok(Err(e)) => {
                return Some(Fail { law: format!("error:{}", crate::storemon::normalise_msg(&e)), what: e, step: i });
            }
            Ok(Ok(Some(f))) => return Some(f),
            Ok(Ok(None)) => {}
        }
        let heavy = i % check_every == 0 || i + 1 == case.steps.len() || matches!(st, Step::Reopen);
        if !heavy {
            continue;
        }
        out.evaluations += 1;
        let chk = catch_unwind(AssertUnwindSafe(|| -> Result<Option<Fail>, String> {
            // (1) full scan == model, in key order, equal keys as multisets
            let scan = scan_all(&tree, &pager)?;
            for w in scan.windows(2) {
                if w[0].0 > w[1].0 {
                    return Ok(Some(Fail { law: "scan-not-in-key-order".into(), what: format!("scan out of order at payloads {} / {}", w[0].1, w[1].1), step: i }));
                }
            }
            let mut got: BTreeMap<Vec<u8>, Vec<u64>> = BTreeMap::new();
            for (k, p) in &scan {
                got.entry(k.clone()).or_default().push(*p);
            }
            let mut max_run = 0usize;
            for (k, ps) in &model {
                max_run = max_run.max(ps.len());
                let mut a = ps.clone();
                a.sort();
                let mut b = got.get(k).cloned().unwrap_or_default();
                b.sort();
                if a != b {
                    let missing: Vec<u64> = a.iter().filter(|x| !b.contains(x)).copied().collect();
                    let extra: Vec<u64> = b.iter().filter(|x| !a.contains(x)).copied().collect();
                    let law = if !missing.is_empty() && extra.is_empty() {
                        "scan-misses-stored-pairs"
                    } else if missing.is_empty() {
                        "scan-returns-deleted-or-duplicate-pairs"
                    } else {
                        "scan-differs"
                    };
                    return Ok(Some(Fail { law: law.into(), what: format!("full scan for a key: missing payloads {missing:?}, unexpected payloads {extra:?} (run of {} equal keys)", a.len()), step: i }));
                }
            }
            for k in got.keys() {
                if !model.contains_key(k) {
                    return Ok(Some(Fail { law: "scan-returns-deleted-or-duplicate-pairs".into(), what: "scan returns a key that is not stored".into(), step: i }));
                }
            }
            if max_run >= 20 {
                out.count("runs_of_20_equal_keys_checked", 1);
            }
            // (2) per-key lookups
            for (k, ps) in &model {
                let run = scan_from(&tree, &pager, k, Some(k))?;
                let mut a = ps.clone();
                a.sort();
                let mut b: Vec<u64> = run.iter().map(|x| x.1).collect();
                let first = b.first().copied();
                b.sort();
                if a != b {
                    return Ok(Some(Fail { law: "lookup-misses-or-adds-pairs".into(), what: format!("cursor_lower_bound(k) scan of the run of k: expected {} pairs, got {}", a.len(), b.len()), step: i }));
                }
                let newest = *ps.iter().max().unwrap();
                if first != Some(newest) {
                    return Ok(Some(Fail { law: "lookup-not-most-recent".into(), what: format!("first entry at cursor_lower_bound(k) has payload {first:?}, most recently inserted is {newest} ({} equal keys)", ps.len()), step: i }));
                }
            }
            Ok(None)
        }));
        match chk {
            Err(p) => return Some(Fail { law: "panic-in-read".into(), what: format!("panic: {}", panic_msg(&p)), step: i }),
            Ok(Err(e)) => return Some(Fail { law: format!("read-error:{}", crate::storemon::normalise_msg(&e)), what: e, step: i }),
            Ok(Ok(Some(f))) => return Some(f),
            Ok(Ok(None)) => {}
        }
    }
    let pages_after = std::fs::metadata(&path).map(|m| m.len() / 8192).unwrap_or(0);
    out.count("pages_allocated", pages_after.saturating_sub(pages_before));
    pages_before = pages_after;
    let _ = pages_before;
    None
}

fn step_json(case: &Case, keep: &[bool]) -> J {
    let mut v = Vec::new();
    for (i, s) in case.steps.iter().enumerate() {
        if !keep[i] {
            continue;
        }
        v.push(match s {
            Step::Insert { key } => json!({"insert_key": key}),
            Step::DeleteStored { pick } => json!({"delete_stored_pick": pick}),
            Step::DeleteAbsent { key } => json!({"delete_absent_key": key}),
            Step::Reopen => json!("reopen"),
        });
    }
    J::Array(v)
}

fn run_case(seed: u64, k: usize, thorough: bool, mask: Option<Vec<usize>>, out: &mut CaseOut) -> Option<Violation> {
    let case = gen_case(seed, k, thorough);
    let n = case.steps.len();
    let mut keep = vec![true; n];
    if let Some(m) = &mask {
        keep = (0..n).map(|i| m.contains(&i)).collect();
    }
    out.cell(format!("{}{}:keys={}:len={}", case.family, if case.unique { "-unique" } else { "" }, case.keys.len().min(9), case.keys[0].len() / 500));
    let check_every = if n > 400 { 7 } else { 1 };
    let f = run(&case, &keep, out, check_every)?;
    // shrink: cut after the failing step, then drop steps greedily
    if mask.is_none() {
        for i in (f.step + 1)..n {
            keep[i] = false;
        }
        let mut scratch = CaseOut::default();
        let mut budget = 1200;
        let mut chunk = (f.step + 1) / 2;
        while chunk >= 1 && budget > 0 {
            let mut i = 0;
            while i < n && budget > 0 {
                let idxs: Vec<usize> = (i..(i + chunk).min(n)).filter(|j| keep[*j]).collect();
                if !idxs.is_empty() {
                    for j in &idxs {
                        keep[*j] = false;
                    }
                    budget -= 1;
                    let still = run(&case, &keep, &mut scratch, 1).map(|g| g.law == f.law).unwrap_or(false);
                    if !still {
                        for j in &idxs {
                            keep[*j] = true;
                        }
                    }
                }
                i += chunk;
            }
            if chunk == 1 {
                break;
            }
            chunk /= 2;
        }
    }
    let mut scratch = CaseOut::default();
    let f2 = run(&case, &keep, &mut scratch, 1).unwrap_or(f);
    let kept: Vec<usize> = (0..n).filter(|i| keep[*i]).collect();
    // were two equal keys ever stored at the same time in the (shrunk) witness?
    let mut dup = false;
    {
        let mut st: Vec<(usize, u64)> = Vec::new();
        let mut np = 1u64;
        for i in &kept {
            match &case.steps[*i] {
                Step::Insert { key } => {
                    if case.unique && st.iter().any(|(k2, _)| k2 == key) {
                        continue;
                    }
                    if st.iter().any(|(k2, _)| k2 == key) {
                        dup = true;
                    }
                    st.push((*key, np));
                    np += 1;
                }
                Step::DeleteStored { pick } => {
                    if !st.is_empty() {
                        st.remove(pick % st.len());
                    }
                }
                _ => {}
            }
        }
    }
    Some(Violation {
        signature: format!("C26|{}|{}", f2.law, if dup { "with-equal-keys" } else { "distinct-keys" }),
        summary: f2.what.clone(),
        detail: json!({"family": case.family, "key_lengths": case.keys.iter().map(|k| k.len()).take(6).collect::<Vec<_>>(), "distinct_keys": case.keys.len(), "steps": step_json(&case, &keep), "failing_step": f2.step}),
        replay: json!({"engine":"structmon","property":"C26","seed":seed,"case":k,"thorough":thorough,"keep":kept}),
    })
}

pub fn main(args: &Args) -> Report {
    let mut rep = Report::new(
        "C26",
        &args.tier,
        args.seed,
        "exploration",
        "generated insert/delete/reopen sequences on BTree (public API, real Pager on a scratch file) with unique payloads; after every step (every 7th for long sequences): full scan == reference multimap in key order, per-key cursor_lower_bound scan == stored pairs of that key, first entry == most recently inserted payload, delete returns true exactly for stored pairs and removes exactly that pair; a cell is (key family, alphabet size, key length class)",
    );
    rep.assume("payloads are unique, so a scan identifies every stored pair");
    if let Some(p) = &args.replay {
        let j: J = serde_json::from_str(&std::fs::read_to_string(p).expect("read")).expect("json");
        let mut out = CaseOut::default();
        let keep: Option<Vec<usize>> = j["keep"].as_array().map(|a| a.iter().map(|x| x.as_u64().unwrap() as usize).collect());
        if let Some(v) = run_case(j["seed"].as_u64().unwrap(), j["case"].as_u64().unwrap() as usize, j["thorough"].as_bool().unwrap_or(false), keep, &mut out) {
            out.violations.push(v);
        }
        rep.out = out;
        return rep;
    }
    let thorough = args.thorough();
    let n_cases = if thorough { 3000 } else { 480 };
    let deadline = Instant::now() + Duration::from_secs(args.budget_s(120, 1500));
    let seed = args.seed;
    let (out, done) = par_cases(n_cases, threads(), Some(deadline), |k| {
        let mut out = CaseOut::default();
        if let Some(v) = run_case(seed, k, thorough, None, &mut out) {
            out.violations.push(v);
        }
        if k < 2 {
            let c = gen_case(seed, k, thorough);
            out.samples.push(json!({"case": k, "family": c.family, "distinct_keys": c.keys.len(), "key_len": c.keys[0].len(), "steps": c.steps.len(), "first_steps": step_json(&c, &vec![true; c.steps.len()]).as_array().unwrap().iter().take(12).cloned().collect::<Vec<_>>()}));
        }
        out
    });
    rep.out = out;
    rep.extra.insert("cases_done".into(), json!(done));
    rep.floor("sequences", done as u64, if thorough { 1000 } else { 200 });
    rep.floor("inserts", rep.counter("op.insert"), if thorough { 300_000 } else { 3_000 });
    rep
}
