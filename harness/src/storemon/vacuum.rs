//! C28: vacuuming a closed database succeeds and leaves its logical content unchanged
//! (relationships in both directions, properties, labels, indexes, vectors); the database stays
//! fully usable afterwards.
//!
//! Oracle (differential, model-free): a generated history is executed and the database closed;
//! the files are copied to a twin directory; the original is vacuumed; both are opened and every
//! read view must agree; the same generated continuation is applied to both and must agree
//! again, also after one more reopen of both.

use super::vector::vector_facts;
use crate::common::dump::{Universe, index_facts};
use crate::common::r#gen::{GenCfg, HistoryGen};
use crate::common::model::{Facts, Model, Op, diff_facts, history_to_json};
use crate::common::report::{Args, CaseOut, Report, Violation, par_cases, threads};
use crate::common::rng::Rng;
use crate::common::sut::{ScratchDir, StepError, Sut};
use crate::common::{diff_signature, facts_diff_json};
use nervusdb_api::PropertyValue as PV;
use serde_json::json;
use std::time::{Duration, Instant};

/// Every read view of a database: graph dump, index lookups for all values the model ever stored
/// under an indexed field, vector searches.
pub fn full_view(sut: &Sut, cfg: &GenCfg, model: &Model) -> Facts {
    let uni = Universe { keys: &cfg.keys, types: &cfg.types };
    let mut f = sut.dump(&uni);
    let idx: Vec<(String, String)> = model.indexes.iter().cloned().collect();
    if !idx.is_empty() {
        let mut vals: Vec<PV> = Vec::new();
        for n in &model.nodes {
            for (k, v) in &n.props {
                if idx.iter().any(|(_, fld)| fld == k) && !vals.contains(v) {
                    vals.push(v.clone());
                }
            }
        }
        vals.push(PV::Int(424242));
        f.extend(index_facts(&sut.db().snapshot(), &idx, &vals));
    }
    if cfg.vectors {
        f.extend(vector_facts(sut.db(), cfg.vector_dim, 50));
    }
    f
}

fn gen_case(seed: u64, k: usize) -> (GenCfg, Vec<Op>, Vec<Op>, Model) {
    let mut rng = Rng::derive(seed, k as u64);
    let mut cfg = GenCfg::default();
    // families: 0 plain, 1 with compaction, 2 with indexes, 3 with vectors, 4 everything
    let fam = k % 5;
    cfg.op_weights = match fam {
        0 => [100, 0, 0, 0, 0, 4],
        1 => [100, 30, 8, 0, 4, 4],
        2 => [100, 12, 4, 14, 4, 4],
        3 => [100, 12, 4, 0, 4, 4],
        _ => [100, 25, 6, 10, 6, 6],
    };
    cfg.vectors = fam >= 3;
    // keep away from the triggers of findings recorded under C04/C05 in half of the cases
    if k % 2 == 1 {
        cfg.multi_label = false;
        cfg.append_only = true;
    }
    let n_ops = 6 + rng.below(20);
    let cfg2 = cfg.clone();
    let mut g = HistoryGen::new(&cfg2);
    let mut h = g.gen_history(&mut rng, n_ops);
    if fam == 1 || fam == 4 {
        // make sure at least one segment exists when the database is closed
        h.push(Op::Compact);
        if rng.chance(1, 2) {
            let w = g.gen_tx(&mut rng);
            let op = Op::Tx { writes: w, commit: true };
            g.model.apply_op(&op);
            h.push(op);
        }
    }
    let model_at_close = g.model.clone();
    // continuation: writes only (plus one compaction now and then)
    let mut cont_cfg = cfg.clone();
    cont_cfg.op_weights = [100, 15, 0, 0, 0, 0];
    let mut g2 = HistoryGen { cfg: &cont_cfg, model: g.model.clone(), next_ext: g.next_ext };
    let n_cont = 2 + rng.below(5);
    let cont = g2.gen_history(&mut rng, n_cont);
    (cfg, h, cont, model_at_close)
}

fn copy_db(from: &std::path::Path, to: &std::path::Path) -> std::io::Result<()> {
    for ext in ["ndb", "wal"] {
        let src = from.with_extension(ext);
        if src.exists() {
            std::fs::copy(&src, to.with_extension(ext))?;
        }
    }
    Ok(())
}

fn viol(k: usize, seed: u64, stage: &str, what: String, diff: &[(String, String, String)], h: &[Op], cont: &[Op], shape: &str) -> Violation {
    let sig_diff = if diff.is_empty() { crate::storemon::normalise_msg(&what) } else { diff_signature(diff) };
    Violation {
        signature: format!("C28|{stage}:{sig_diff}|{shape}"),
        summary: what,
        detail: json!({"history": history_to_json(h), "continuation": history_to_json(cont), "diff": facts_diff_json(&diff[..diff.len().min(12)], "not-vacuumed", "vacuumed")}),
        replay: json!({"engine":"storemon","property":"C28","seed":seed,"case":k}),
    }
}

fn run_case(seed: u64, k: usize, out: &mut CaseOut) -> Option<Violation> {
    let (cfg, h, cont, model) = gen_case(seed, k);
    let has_segment = h.iter().any(|o| matches!(o, Op::Compact | Op::Checkpoint));
    let has_index = !model.indexes.is_empty();
    let has_vectors = !model.vectors.is_empty();
    let shape = format!("segments={has_segment},indexes={has_index},vectors={has_vectors}");
    let dir = ScratchDir::new("c28");
    let twin = ScratchDir::new("c28t");
    let mut sut = match Sut::open(&dir.db_base()) {
        Ok(s) => s,
        Err(_) => {
            out.inconclusive("open");
            return None;
        }
    };
    for op in &h {
        if let Err(e) = sut.apply(op) {
            // a failing step before the vacuum is some other property's matter
            out.inconclusive(&format!("history-step-failed:{}", crate::storemon::normalise_msg(&e.to_string())));
            return None;
        }
    }
    // close (checkpoint-on-close) in half of the cases, plain drop in the others
    let db = sut.db.take().unwrap();
    if k % 4 < 2 {
        if db.close().is_err() {
            out.inconclusive("close-failed");
            return None;
        }
    } else {
        drop(db);
    }
    if copy_db(&dir.db_base(), &twin.db_base()).is_err() {
        out.inconclusive("copy");
        return None;
    }
    out.evaluations += 1;
    out.count("vacuums", 1);
    if has_segment {
        out.count("vacuums_with_segment", 1);
    }
    if has_index {
        out.count("vacuums_with_index", 1);
    }
    if has_vectors {
        out.count("vacuums_with_vectors", 1);
    }
    out.cell(format!("{shape},close={}", k % 4 < 2));
    // the operation under test
    let base = dir.db_base();
    let vr = crate::common::sut::guard(|| ndb_core::vacuum(&base).map_err(|e| e.to_string()));
    if let Err(e) = vr {
        let kind = if matches!(e, StepError::Panic(_)) { "vacuum-panicked" } else { "vacuum-failed" };
        return Some(viol(k, seed, kind, format!("vacuum of a closed database failed: {e}"), &[], &h, &[], &shape));
    }
    let mut a = match Sut::open(&twin.db_base()) {
        Ok(s) => s,
        Err(_) => {
            out.inconclusive("twin-open-failed");
            return None;
        }
    };
    let mut b = match Sut::open(&dir.db_base()) {
        Ok(s) => s,
        Err(e) => return Some(viol(k, seed, "open-after-vacuum-failed", format!("the vacuumed database does not open: {e}"), &[], &h, &[], &shape)),
    };
    let d = diff_facts(&full_view(&a, &cfg, &model), &full_view(&b, &cfg, &model), usize::MAX);
    if !d.is_empty() {
        return Some(viol(k, seed, "content-changed-by-vacuum", "the vacuumed database differs from its un-vacuumed copy".into(), &d, &h, &[], &shape));
    }
    // continuation on both
    let mut m = model.clone();
    for (i, op) in cont.iter().enumerate() {
        let ra = a.apply(op);
        let rb = b.apply(op);
        m.apply_op(op);
        match (ra, rb) {
            (Ok(()), Ok(())) => {}
            (Err(_), Err(_)) => {
                out.inconclusive("continuation-step-failed-on-both");
                return None;
            }
            (Ok(()), Err(e)) => return Some(viol(k, seed, "write-after-vacuum-failed", format!("continuation step {i} fails only on the vacuumed database: {e}"), &[], &h, &cont, &shape)),
            (Err(_), Ok(())) => {
                out.inconclusive("continuation-step-failed-on-twin-only");
                return None;
            }
        }
        let d = diff_facts(&full_view(&a, &cfg, &m), &full_view(&b, &cfg, &m), usize::MAX);
        if !d.is_empty() {
            return Some(viol(k, seed, "content-differs-after-writes", format!("after continuation step {i} the vacuumed database differs from its un-vacuumed copy"), &d, &h, &cont, &shape));
        }
        out.count("continuation_steps_compared", 1);
    }
    let ra = a.apply(&Op::Reopen { close: false });
    let rb = b.apply(&Op::Reopen { close: false });
    match (ra, rb) {
        (Ok(()), Ok(())) => {
            let d = diff_facts(&full_view(&a, &cfg, &m), &full_view(&b, &cfg, &m), usize::MAX);
            if !d.is_empty() {
                return Some(viol(k, seed, "content-differs-after-second-reopen", "after writes and a reopen the vacuumed database differs from its un-vacuumed copy".into(), &d, &h, &cont, &shape));
            }
            out.count("second_reopens_compared", 1);
        }
        (Ok(()), Err(e)) => return Some(viol(k, seed, "reopen-after-vacuum-failed", format!("reopen after writes fails only on the vacuumed database: {e}"), &[], &h, &cont, &shape)),
        _ => out.inconclusive("twin-reopen-failed"),
    }
    None
}

pub fn main(args: &Args) -> Report {
    let mut rep = Report::new(
        "C28",
        &args.tier,
        args.seed,
        "exploration",
        "generated histories (plain / compaction / indexes / vectors / all), closed or dropped; files copied to a twin; the original is vacuumed; both are opened and every read view (graph dump incl. both neighbour directions, index lookups, vector searches) must agree; a generated continuation of writes is applied to both and compared after every step and after one more reopen. A cell is (segments, indexes, vectors, close kind)",
    );
    rep.assume("the un-vacuumed copy is the reference, so defects of other properties (recorded under C04/C05) cancel out");
    if let Some(p) = &args.replay {
        let j: serde_json::Value = serde_json::from_str(&std::fs::read_to_string(p).expect("read replay")).expect("json");
        let mut out = CaseOut::default();
        if let Some(v) = run_case(j["seed"].as_u64().unwrap(), j["case"].as_u64().unwrap() as usize, &mut out) {
            out.violations.push(v);
        }
        rep.out = out;
        return rep;
    }
    let n = if args.thorough() { 40_000 } else { 600 };
    let deadline = Instant::now() + Duration::from_secs(args.budget_s(120, 1200));
    let seed = args.seed;
    let (out, done) = par_cases(n, threads(), Some(deadline), |k| {
        let mut out = CaseOut::default();
        if let Some(v) = run_case(seed, k, &mut out) {
            out.violations.push(v);
        }
        if k < 3 {
            let (_, h, cont, _) = gen_case(seed, k);
            out.samples.push(json!({"case": k, "history": history_to_json(&h), "continuation": history_to_json(&cont)}));
        }
        out
    });
    rep.out = out;
    rep.extra.insert("cases_done".into(), json!(done));
    let t = args.thorough();
    rep.floor("vacuums", rep.counter("vacuums"), if t { 3000 } else { 200 });
    rep.floor("vacuums with a CSR segment", rep.counter("vacuums_with_segment"), if t { 1000 } else { 80 });
    rep.floor("vacuums with indexes", rep.counter("vacuums_with_index"), if t { 500 } else { 30 });
    rep.floor("vacuums with vectors", rep.counter("vacuums_with_vectors"), if t { 500 } else { 30 });
    rep
}
