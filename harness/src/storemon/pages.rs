//! C18: however large the node table, property store, relationship segments, indexes, vectors or
//! statistics grow, and in whatever order, writing one of them never changes the stored content
//! of another; the database stays readable and correct after reopen.
//!
//! Two monitors run together on generated growth histories:
//! * page-ownership checker (online, via the `page` hook that runs inside `&mut Pager` methods): a
//!   page belongs to the structure class (source file of the caller) that obtained it from
//!   `allocate_page`, or that first `ensure_allocated` it while it was free; a write or an
//!   `ensure_allocated` by another class on an owned page is a cross-structure write;
//! * model monitor: after the history and after a reopen the dump must equal the reference model.

use crate::common::dump::Universe;
use crate::common::model::{Model, Op, W, diff_facts};
use crate::common::report::{Args, CaseOut, Report, Violation, par_cases, threads};
use crate::common::rng::Rng;
use crate::common::sut::{ScratchDir, Sut};
use crate::common::{diff_signature, facts_diff_json};
use ndb_core::PropertyValue as PV;
use ndb_core::verif::{Hooks, PageOp};
use serde_json::json;
use std::collections::{BTreeMap, BTreeSet};
use std::panic::Location;
use std::sync::{Arc, Mutex};
use std::time::{Duration, Instant};

#[derive(Default)]
struct OwnerState {
    owner: BTreeMap<u64, String>,
    /// (writer class, owner class, op) -> first page id seen
    cross: BTreeMap<(String, String, String), u64>,
    writes: u64,
    allocs: u64,
    classes: BTreeSet<String>,
    /// pages allocated per class (growth of each structure)
    pages_by_class: BTreeMap<String, u64>,
}

struct Owners {
    st: Mutex<OwnerState>,
}

fn class_of(loc: &'static Location<'static>) -> String {
    loc.file().rsplit('/').next().unwrap_or("?").to_string()
}

impl Hooks for Owners {
    fn page(&self, op: PageOp, page_id: u64, caller: &'static Location<'static>) {
        let cls = class_of(caller);
        let mut st = self.st.lock().unwrap();
        st.classes.insert(cls.clone());
        match op {
            PageOp::Allocate => {
                st.allocs += 1;
                *st.pages_by_class.entry(cls.clone()).or_default() += 1;
                // (allocate_page claims the page through ensure_allocated first: a page that still
                // belongs to another structure is reported there, as a foreign claim)
                st.owner.insert(page_id, cls);
            }
            PageOp::Free => {
                st.owner.remove(&page_id);
            }
            PageOp::EnsureAllocated => match st.owner.get(&page_id).cloned() {
                None => {
                    *st.pages_by_class.entry(cls.clone()).or_default() += 1;
                    st.owner.insert(page_id, cls);
                }
                Some(o) if o != cls => {
                    st.cross.entry((cls, o, "claims".into())).or_insert(page_id);
                }
                _ => {}
            },
            PageOp::Write => {
                st.writes += 1;
                match st.owner.get(&page_id).cloned() {
                    Some(o) if o != cls => {
                        st.cross.entry((cls, o, "writes".into())).or_insert(page_id);
                    }
                    // a write to a page nobody allocated is judged by the allocator itself
                    _ => {}
                }
            }
        }
    }
}

fn big_value(rng: &mut Rng) -> PV {
    match rng.below(4) {
        0 => PV::String("x".repeat(9000 + rng.below(9000))), // more than one page: blob chain
        1 => PV::String("y".repeat(200 + rng.below(2000))),
        2 => PV::Int(rng.range(-1000, 1000)),
        _ => PV::List((0..rng.below(40)).map(|i| PV::Int(i as i64)).collect()),
    }
}

/// family 0/1: many nodes (crossing the 512-record page boundary of the node table) with other
/// structures growing in between; family 2: few nodes, heavy growth of everything else.
fn gen_history(seed: u64, k: usize) -> (usize, Vec<Op>, Model) {
    let mut rng = Rng::derive(seed, k as u64);
    let fam = k % 4;
    if fam == 3 {
        return gen_eof_history(&mut rng);
    }
    let target_nodes = match fam {
        0 => 520 + rng.below(200),
        1 => 1030 + rng.below(300),
        _ => 60 + rng.below(200),
    };
    let mut m = Model::default();
    let mut h: Vec<Op> = Vec::new();
    let mut next_ext = 10_000u64;
    let labels = ["A", "B", "C"];
    let keys = ["k", "p", "q"];
    let push = |h: &mut Vec<Op>, m: &mut Model, op: Op| {
        m.apply_op(&op);
        h.push(op);
    };
    while m.nodes.len() < target_nodes {
        // a batch of nodes
        let batch = (20 + rng.below(180)).min(target_nodes - m.nodes.len());
        let mut ws = Vec::new();
        for _ in 0..batch {
            ws.push(W::CreateNode { ext: next_ext, labels: vec![rng.pick(&labels).to_string()] });
            next_ext += 1;
        }
        push(&mut h, &mut m, Op::Tx { writes: ws, commit: true });
        // growth of the other structures, in random order
        let n_other = if fam == 2 { 3 + rng.below(5) } else { 1 + rng.below(3) };
        for _ in 0..n_other {
            let n_nodes = m.nodes.len() as u32;
            match rng.below(6) {
                0 | 1 => {
                    let mut ws = Vec::new();
                    for _ in 0..1 + rng.below(6) {
                        let val = big_value(&mut rng);
                        let key = if matches!(&val, PV::String(_) | PV::List(_)) { "p".to_string() } else { rng.pick(&keys).to_string() };
                        ws.push(W::SetNodeProp { node: rng.below(n_nodes as usize) as u32, key, val });
                    }
                    push(&mut h, &mut m, Op::Tx { writes: ws, commit: true });
                }
                2 => {
                    let mut ws = Vec::new();
                    for _ in 0..1 + rng.below(30) {
                        let (s, d) = (rng.below(n_nodes as usize) as u32, rng.below(n_nodes as usize) as u32);
                        let t = rng.pick(&["R", "S"]).to_string();
                        if !m.edges.contains_key(&(s, t.clone(), d)) && !ws.iter().any(|w| matches!(w, W::CreateEdge { src, typ, dst } if *src == s && *typ == t && *dst == d)) {
                            ws.push(W::CreateEdge { src: s, typ: t, dst: d });
                        }
                    }
                    if !ws.is_empty() {
                        push(&mut h, &mut m, Op::Tx { writes: ws, commit: true });
                    }
                }
                3 => push(&mut h, &mut m, Op::Compact),
                4 => {
                    let op = Op::CreateIndex { label: rng.pick(&labels).to_string(), field: rng.pick(&["k", "q"]).to_string() };
                    push(&mut h, &mut m, op);
                }
                _ => {
                    let mut ws = Vec::new();
                    for _ in 0..1 + rng.below(12) {
                        ws.push(W::SetVector { node: rng.below(n_nodes as usize) as u32, vec: vec![rng.f64_unit() as f32, rng.f64_unit() as f32, rng.f64_unit() as f32] });
                    }
                    push(&mut h, &mut m, Op::Tx { writes: ws, commit: true });
                }
            }
        }
    }
    push(&mut h, &mut m, Op::Compact);
    (fam, h, m)
}

/// The node table is the last structure in the file when it grows past a 512-record boundary
/// (only nodes are created before), and only then do other structures allocate pages.
fn gen_eof_history(rng: &mut Rng) -> (usize, Vec<Op>, Model) {
    let mut m = Model::default();
    let mut h: Vec<Op> = Vec::new();
    let mut next_ext = 50_000u64;
    let mut push = |h: &mut Vec<Op>, m: &mut Model, op: Op| {
        m.apply_op(&op);
        h.push(op);
    };
    let first = 513 + rng.below(30);
    let mut nodes_tx = |n: usize, next_ext: &mut u64| {
        let ws: Vec<W> = (0..n)
            .map(|_| {
                *next_ext += 1;
                W::CreateNode { ext: *next_ext, labels: vec!["A".to_string()] }
            })
            .collect();
        Op::Tx { writes: ws, commit: true }
    };
    // one or several transactions, nothing else in between
    let mut left = first;
    while left > 0 {
        let n = left.min(100 + rng.below(500));
        let op = nodes_tx(n, &mut next_ext);
        push(&mut h, &mut m, op);
        left -= n;
    }
    // now the other structures allocate
    match rng.below(3) {
        0 => push(&mut h, &mut m, Op::CreateIndex { label: "A".into(), field: "k".into() }),
        1 => push(&mut h, &mut m, Op::Tx { writes: vec![W::SetNodeProp { node: 3, key: "p".into(), val: PV::String("z".repeat(10_000)) }], commit: true }),
        _ => push(&mut h, &mut m, Op::Compact),
    }
    // indexed property values and more nodes (the node table grows again)
    let n_nodes = m.nodes.len();
    let ws: Vec<W> = (0..60).map(|i| W::SetNodeProp { node: (i * 7 % n_nodes) as u32, key: "k".into(), val: PV::Int((i % 5) as i64) }).collect();
    push(&mut h, &mut m, Op::Tx { writes: ws, commit: true });
    let op = nodes_tx(100 + rng.below(500), &mut next_ext);
    push(&mut h, &mut m, op);
    push(&mut h, &mut m, Op::Compact);
    (3, h, m)
}

fn run_case(seed: u64, k: usize, out: &mut CaseOut) -> Vec<Violation> {
    let (fam, h, model) = gen_history(seed, k);
    let owners = Arc::new(Owners { st: Mutex::new(OwnerState::default()) });
    ndb_core::verif::install_thread(owners.clone() as Arc<dyn Hooks>);
    let mut viols = Vec::new();
    let dir = ScratchDir::new("c18");
    let keys: Vec<String> = ["k", "p", "q"].iter().map(|s| s.to_string()).collect();
    let types: Vec<String> = ["R", "S"].iter().map(|s| s.to_string()).collect();
    let uni = Universe { keys: &keys, types: &types };
    let famname = ["512-boundary", "1024-boundary", "few-nodes-heavy-growth", "node-table-at-end-of-file"][fam];
    let replay = json!({"engine":"storemon","property":"C18","seed":seed,"case":k});
    let mut step_failure: Option<String> = None;
    let mut sut = match Sut::open(&dir.db_base()) {
        Ok(s) => Some(s),
        Err(_) => {
            out.inconclusive("open");
            None
        }
    };
    if let Some(s) = sut.as_mut() {
        for (i, op) in h.iter().enumerate() {
            if let Err(e) = s.apply(op) {
                step_failure = Some(format!("step {i} failed: {e}"));
                break;
            }
        }
    }
    let spill = {
        let st = owners.st.lock().unwrap();
        st.cross.keys().any(|(w, _, _)| w == "idmap.rs")
    };
    let ctx = if spill { "after-node-table-spilled-into-foreign-pages" } else { "no-cross-structure-write-observed" };
    if let Some(s) = sut.as_mut() {
        out.evaluations += 1;
        out.count(&format!("histories.{famname}"), 1);
        out.count("nodes_created", model.nodes.len() as u64);
        if let Some(f) = &step_failure {
            // a failing operation is not by itself a cross-structure corruption; the history ends here
            out.inconclusive(&format!("history-step-failed:{}", crate::storemon::normalise_msg(f)));
        } else {
            let want = model.facts();
            let got = s.dump(&uni);
            let d = diff_facts(&want, &got, usize::MAX);
            if !d.is_empty() {
                viols.push(Violation {
                    signature: format!("C18|content-differs-before-reopen:{}|{ctx}", diff_signature(&d)),
                    summary: format!("after the growth history the dump differs from the model in {} facts", d.len()),
                    detail: json!({"family": famname, "diff": facts_diff_json(&d[..d.len().min(12)], "model", "database")}),
                    replay: replay.clone(),
                });
            }
            match s.apply(&Op::Reopen { close: k % 2 == 0 }) {
                Err(e) => viols.push(Violation {
                    signature: format!("C18|reopen-failed:{}|{ctx}", crate::storemon::normalise_msg(&e.to_string())),
                    summary: format!("the database does not reopen after the growth history: {e}"),
                    detail: json!({"family": famname, "nodes": model.nodes.len()}),
                    replay: replay.clone(),
                }),
                Ok(()) => {
                    out.count("reopen_dumps_compared", 1);
                    let got = s.dump(&uni);
                    let d = diff_facts(&want, &got, usize::MAX);
                    if !d.is_empty() {
                        viols.push(Violation {
                            signature: format!("C18|content-differs-after-reopen:{}|{ctx}", diff_signature(&d)),
                            summary: format!("after reopen the dump differs from the model in {} facts", d.len()),
                            detail: json!({"family": famname, "diff": facts_diff_json(&d[..d.len().min(12)], "model", "database")}),
                            replay: replay.clone(),
                        });
                    }
                }
            }
        }
    }
    drop(sut);
    ndb_core::verif::uninstall_thread();
    let st = owners.st.lock().unwrap();
    out.count("page_writes_observed", st.writes);
    out.count("page_allocations_observed", st.allocs);
    for c in &st.classes {
        out.cell(format!("class:{c}"));
    }
    for (c, n) in &st.pages_by_class {
        out.count(&format!("pages_obtained.{c}"), *n);
    }
    let foreign_before_boundary = fam < 2 && st.pages_by_class.iter().any(|(c, n)| c != "idmap.rs" && *n > 0);
    if foreign_before_boundary {
        out.count("histories_crossing_a_node_table_page_boundary_with_foreign_allocations", 1);
    }
    out.cell(format!("{famname}:cross={}", !st.cross.is_empty()));
    for ((w, o, opk), page) in &st.cross {
        viols.push(Violation {
            signature: format!("C18|cross-structure-page-write|{w} {opk} a page owned by {o}"),
            summary: format!("{w} {opk} page {page}, which was allocated by {o}"),
            detail: json!({"family": famname, "writer_class": w, "owner_class": o, "first_page": page, "nodes": model.nodes.len(), "history_ops": h.len()}),
            replay: replay.clone(),
        });
    }
    viols
}

pub fn main(args: &Args) -> Report {
    let mut rep = Report::new(
        "C18",
        &args.tier,
        args.seed,
        "exploration",
        "growth histories: batches of 20-200 nodes up to 520-1300 nodes (node-table page boundaries at 512 and 1024 records) or few nodes with heavy growth elsewhere, interleaved in random order with multi-page property values, relationship batches, compaction (segments, property store, statistics), index creation and vector insertions; online page-ownership checker over every allocate/ensure/write/free of the pager (owner = class that allocated the page), plus model equality of the dump before and after reopen. A cell is a structure class observed or (family, cross-write seen)",
    );
    rep.assume("a structure rewriting its own pages, or the allocator reusing a freed page, is not flagged");
    if let Some(p) = &args.replay {
        let j: serde_json::Value = serde_json::from_str(&std::fs::read_to_string(p).expect("read replay")).expect("json");
        let mut out = CaseOut::default();
        let v = run_case(j["seed"].as_u64().unwrap(), j["case"].as_u64().unwrap() as usize, &mut out);
        out.violations.extend(v);
        rep.out = out;
        return rep;
    }
    let n = if args.thorough() { 1200 } else { 24 };
    let deadline = Instant::now() + Duration::from_secs(args.budget_s(150, 1500));
    let seed = args.seed;
    let (out, _) = par_cases(n, threads(), Some(deadline), |k| {
        let mut out = CaseOut::default();
        let v = run_case(seed, k, &mut out);
        out.violations.extend(v);
        if k < 2 {
            let (_, h, m) = gen_history(seed, k);
            let kinds: Vec<String> = h.iter().take(14).map(|o| match o {
                Op::Tx { writes, .. } => format!("tx[{} writes, first={:?}]", writes.len(), writes.first().map(|w| format!("{w:?}").chars().take(40).collect::<String>())),
                o => format!("{o:?}"),
            }).collect();
            out.samples.push(json!({"case": k, "nodes": m.nodes.len(), "ops": h.len(), "first_ops": kinds}));
        }
        out
    });
    rep.out = out;
    let t = args.thorough();
    rep.floor("histories crossing a node-table page boundary with foreign allocations", rep.counter("histories_crossing_a_node_table_page_boundary_with_foreign_allocations"), if t { 100 } else { 6 });
    rep.floor("page writes observed", rep.counter("page_writes_observed"), if t { 200_000 } else { 10_000 });
    rep.floor("reopen dumps compared", rep.counter("reopen_dumps_compared"), if t { 100 } else { 6 });
    rep
}
