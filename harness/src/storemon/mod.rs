//! storemon: model and differential monitors over storage-level histories
//! (C04 reopen, C05 compaction/checkpoint, C06 model agreement, C07 abandoned transactions).

pub mod bulk;
pub mod pages;
pub mod vacuum;
pub mod vector;
pub mod ids;

use crate::common::dump::Universe;
use crate::common::r#gen::{GenCfg, HistoryGen};
use crate::common::model::{Facts, Model, Op, W, diff_facts, history_to_json};
use crate::common::shrink::{Mask, apply_mask, full_mask, mask_from_json, mask_to_json, shape, shrink};
use crate::common::report::{Args, CaseOut, Report, Violation, par_cases, threads};
use crate::common::rng::Rng;
use crate::common::sut::{ScratchDir, StepError, Sut};
use crate::common::{diff_signature, facts_diff_json};
use serde_json::{Value as J, json};
use std::time::{Duration, Instant};

#[derive(Clone, Copy, PartialEq, Eq, Debug)]
pub enum Kind {
    C04,
    C05,
    C06,
    C07,
}

impl Kind {
    fn id(self) -> &'static str {
        match self {
            Kind::C04 => "C04",
            Kind::C05 => "C05",
            Kind::C06 => "C06",
            Kind::C07 => "C07",
        }
    }
}

fn cfg_for(kind: Kind, rng: &mut Rng) -> (GenCfg, usize) {
    let mut cfg = GenCfg::default();
    let n_ops;
    match kind {
        Kind::C06 => {
            cfg.op_weights = [100, 0, 0, 0, 0, 0];
            n_ops = 10 + rng.below(30);
        }
        Kind::C05 => {
            // tx, compact, checkpoint
            cfg.op_weights = [100, 35, 10, 0, 0, 0];
            n_ops = 8 + rng.below(22);
            // families forced by the generator
            match rng.below(6) {
                0 => {
                    // edge-free histories: compaction of runs without relationships
                    cfg.types = vec![];
                }
                1 => {
                    // property-free
                    cfg.keys = vec!["k".into()];
                }
                _ => {}
            }
        }
        Kind::C04 => {
            cfg.op_weights = [100, 15, 4, 6, 14, 14];
            n_ops = 8 + rng.below(22);
        }
        Kind::C07 => {
            cfg.op_weights = [100, 8, 0, 4, 5, 5];
            cfg.abandon_pm = 350;
            cfg.vectors = true;
            n_ops = 8 + rng.below(22);
        }
    }
    (cfg, n_ops)
}

/// Is this op one of those whose invisibility the property asserts?
fn invisible(kind: Kind, op: &Op) -> bool {
    match kind {
        Kind::C05 => matches!(op, Op::Compact | Op::Checkpoint),
        Kind::C04 => matches!(op, Op::Reopen { .. }),
        Kind::C07 => matches!(op, Op::Tx { commit: false, .. }),
        Kind::C06 => false,
    }
}

fn gen_case(kind: Kind, seed: u64, k: usize) -> (GenCfg, Vec<Op>) {
    let mut rng = Rng::derive(seed, k as u64);
    let (mut cfg, n_ops) = cfg_for(kind, &mut rng);
    // Every second case stays away from the triggers of the recorded known findings (label sets
    // beyond the first label, deletes/removals/overwrites around compaction) so that the rest of
    // the behaviour is still explored in depth instead of every history ending at a known defect.
    if k % 2 == 1 {
        cfg.multi_label = false;
        if kind == Kind::C05 {
            cfg.append_only = true;
        }
    }
    // One property of one node overwritten hundreds of times with a compaction after each
    // overwrite: the property store then holds enough versions for its B-tree leaves to split
    // while versions of the same key are being added ("overwritten values stay overwritten").
    if kind == Kind::C05 && k % 400 == 399 && !cfg.keys.is_empty() && !cfg.labels.is_empty() {
        let key = cfg.keys[0].clone();
        let mut h = vec![Op::Tx { writes: vec![W::CreateNode { ext: 1000, labels: vec![cfg.labels[0].clone()] }, W::CreateNode { ext: 1001, labels: vec![cfg.labels[0].clone()] }], commit: true }];
        let n = 420 + rng.below(80);
        for i in 0..n {
            h.push(Op::Tx { writes: vec![W::SetNodeProp { node: (i % 7 == 6) as u32, key: key.clone(), val: nervusdb_api::PropertyValue::Int(i as i64) }], commit: true });
            h.push(if i % 50 == 49 { Op::Checkpoint } else { Op::Compact });
        }
        return (cfg, h);
    }
    let cfg2 = cfg.clone();
    let mut g = HistoryGen::new(&cfg2);
    // families with edge-free configs cannot generate edge ops: the generator skips them
    let h = if cfg.types.is_empty() {
        gen_edge_free(&mut g, &mut rng, n_ops)
    } else {
        g.gen_history(&mut rng, n_ops)
    };
    (cfg, h)
}

fn gen_edge_free(g: &mut HistoryGen<'_>, rng: &mut Rng, n_ops: usize) -> Vec<Op> {
    // a generator config without relationship types: build transactions from node-only writes
    let mut out = Vec::new();
    for _ in 0..n_ops {
        match rng.weighted(&[100, 40, 10]) {
            0 => {
                let mut ws = Vec::new();
                let n = 1 + rng.below(4);
                for _ in 0..n {
                    let live = g.model.live_nodes();
                    let pending_nodes = ws
                        .iter()
                        .filter(|w| matches!(w, W::CreateNode { .. }))
                        .count();
                    if live.is_empty() && pending_nodes == 0 || rng.chance(1, 3) {
                        let ext = g.next_ext;
                        g.next_ext += 1;
                        ws.push(W::CreateNode {
                            ext,
                            labels: vec![rng.pick(&g.cfg.labels).clone()],
                        });
                    } else if !live.is_empty() {
                        ws.push(W::SetNodeProp {
                            node: *rng.pick(&live),
                            key: rng.pick(&g.cfg.keys).clone(),
                            val: crate::common::value::gen_value(rng, 0),
                        });
                    }
                }
                let op = Op::Tx { writes: ws, commit: true };
                g.model.apply_op(&op);
                out.push(op);
            }
            1 => out.push(Op::Compact),
            _ => out.push(Op::Checkpoint),
        }
    }
    out
}

#[derive(Clone)]
struct Divergence {
    step: usize,
    what: String,
    diff: Vec<(String, String, String)>,
    signature: String,
}

impl Divergence {
    /// "prefix:cat+cat" -> (prefix, {cats})
    fn parts(&self) -> (String, std::collections::BTreeSet<String>) {
        match self.signature.split_once(':') {
            Some((p, c)) if !p.contains("panic") && !p.contains("error") => (
                p.to_string(),
                c.split('+').map(|x| x.to_string()).collect(),
            ),
            _ => (self.signature.clone(), Default::default()),
        }
    }
    /// A shrunk witness still shows the same defect if it fails at the same kind of step and
    /// every kind of difference it shows was already present in the original.
    fn refines(&self, orig: &Divergence) -> bool {
        let (p1, c1) = self.parts();
        let (p0, c0) = orig.parts();
        p1 == p0 && c1.is_subset(&c0)
    }
}

fn step_err_sig(e: &StepError) -> String {
    match e {
        StepError::Panic(m) => format!("panic:{}", normalise_msg(m)),
        StepError::Err(m) => format!("error:{}", normalise_msg(m)),
    }
}

pub fn normalise_msg(m: &str) -> String {
    // strip numbers so that ids/offsets do not fragment signatures
    let mut out = String::new();
    let mut last_digit = false;
    for c in m.chars() {
        if c.is_ascii_digit() {
            if !last_digit {
                out.push('#');
            }
            last_digit = true;
        } else {
            out.push(c);
            last_digit = false;
        }
    }
    out.chars().take(120).collect()
}

pub enum Oracle {
    /// the reference content after this step
    Expect(Facts),
    /// nothing to compare at this step
    Skip,
    /// the reference execution itself failed at this step: nothing can be concluded
    RefFailed(String),
}

/// Execute a history on a fresh database. For every step the oracle is asked first (a
/// differential oracle executes the step on the reference database), then the step runs on the
/// database under test and its dump is compared.
fn run_against<F>(
    tag: &str,
    cfg: &GenCfg,
    history: &[Op],
    mut oracle: F,
    out: &mut CaseOut,
    kind: Kind,
) -> Option<Divergence>
where
    F: FnMut(usize, &Op) -> Oracle,
{
    let dir = ScratchDir::new(tag);
    let uni = Universe {
        keys: &cfg.keys,
        types: &cfg.types,
    };
    let mut sut = match Sut::open(&dir.db_base()) {
        Ok(s) => s,
        Err(e) => {
            return Some(Divergence {
                step: 0,
                what: format!("open failed: {e}"),
                diff: vec![],
                signature: format!("open-{}", step_err_sig(&e)),
            });
        }
    };
    let mut prev: Option<Facts> = None;
    for (i, op) in history.iter().enumerate() {
        count_op(out, op);
        let expect = oracle(i, op);
        let res = sut.apply(op);
        if let Oracle::RefFailed(why) = &expect {
            // the same step fails without the operations under test: not this property's matter
            out.inconclusive(&format!(
                "reference-step-failed:{}:{}",
                op_name(op),
                if res.is_err() { "both" } else { "reference-only" }
            ));
            let _ = why;
            return None;
        }
        if let Err(e) = res {
            return Some(Divergence {
                step: i,
                what: format!("{} failed: {e}", op_name(op)),
                diff: vec![],
                signature: format!("{}-{}", op_name(op), step_err_sig(&e)),
            });
        }
        let mut got = sut.dump(&uni);
        if cfg.vectors {
            got.extend(vector::vector_facts(sut.db(), cfg.vector_dim, 50));
        }
        out.evaluations += 1;
        // an op that must be invisible may not change the dump of the database it ran on
        if invisible(kind, op)
            && let Some(p) = &prev
        {
            let d = diff_facts(p, &got, 12);
            if !d.is_empty() {
                return Some(Divergence {
                    step: i,
                    what: format!("{} changed the content of the database", op_name(op)),
                    signature: format!("{}-changed:{}", op_name(op), diff_signature(&d)),
                    diff: d,
                });
            }
        }
        if let Oracle::Expect(exp) = expect {
            let d = diff_facts(&exp, &got, 12);
            if !d.is_empty() {
                return Some(Divergence {
                    step: i,
                    what: format!("after {} the database differs from the reference", op_name(op)),
                    signature: format!("after-{}:{}", op_name(op), diff_signature(&d)),
                    diff: d,
                });
            }
        }
        prev = Some(got);
    }
    None
}

fn op_name(op: &Op) -> &'static str {
    match op {
        Op::Tx { commit: true, .. } => "commit",
        Op::Tx { commit: false, .. } => "abandon",
        Op::Compact => "compact",
        Op::Checkpoint => "checkpoint",
        Op::CreateIndex { .. } => "create_index",
        Op::Reopen { close: true } => "close+reopen",
        Op::Reopen { close: false } => "drop+reopen",
    }
}

fn count_op(out: &mut CaseOut, op: &Op) {
    out.count(&format!("op.{}", op_name(op)), 1);
    if let Op::Tx { writes, commit } = op {
        // cell: the set of write kinds a transaction combines
        let mut kinds: Vec<&str> = writes.iter().map(w_kind).collect();
        kinds.sort();
        kinds.dedup();
        out.cell(format!("{}[{}]", if *commit { "tx" } else { "abandoned" }, kinds.join(",")));
        for w in writes {
            let n = match w {
                W::CreateNode { labels, .. } => {
                    if labels.len() > 1 {
                        "w.create_node_multilabel"
                    } else {
                        "w.create_node"
                    }
                }
                W::AddLabel { .. } => "w.add_label",
                W::RemoveLabel { .. } => "w.remove_label",
                W::CreateEdge { .. } => "w.create_edge",
                W::DeleteEdge { .. } => "w.delete_edge",
                W::DeleteNode { .. } => "w.delete_node",
                W::SetNodeProp { .. } => "w.set_node_prop",
                W::RemoveNodeProp { .. } => "w.remove_node_prop",
                W::SetEdgeProp { .. } => "w.set_edge_prop",
                W::RemoveEdgeProp { .. } => "w.remove_edge_prop",
                W::SetVector { .. } => "w.set_vector",
            };
            out.count(n, 1);
        }
    }
}

/// Coverage cell of a history: which structural situations it contains.
fn history_cells(kind: Kind, h: &[Op], out: &mut CaseOut) {
    let mut compacted = false;
    let mut since_compact_delete = false;
    let mut label_change_since_compact = false;
    let mut n_edges_created = 0usize;
    for (i, op) in h.iter().enumerate() {
        match op {
            Op::Tx { writes, commit: true } => {
                let mut del_then_create = false;
                let mut seen_del: Vec<(u32, String, u32)> = vec![];
                for w in writes {
                    match w {
                        W::DeleteEdge { src, typ, dst } => seen_del.push((*src, typ.clone(), *dst)),
                        W::CreateEdge { src, typ, dst } => {
                            n_edges_created += 1;
                            if seen_del.contains(&(*src, typ.clone(), *dst)) {
                                del_then_create = true;
                            }
                        }
                        W::DeleteNode { .. } | W::RemoveNodeProp { .. } | W::RemoveEdgeProp { .. } => {
                            if compacted {
                                since_compact_delete = true;
                            }
                        }
                        W::AddLabel { .. } | W::RemoveLabel { .. } => label_change_since_compact = true,
                        W::CreateNode { labels, .. } if labels.len() > 1 => {
                            label_change_since_compact = true
                        }
                        _ => {}
                    }
                }
                if del_then_create {
                    out.count("fam.delete_recreate_in_tx", 1);
                    out.cell(format!("{}:delete-recreate-in-tx", kind.id()));
                }
            }
            Op::Compact | Op::Checkpoint => {
                if n_edges_created == 0 {
                    out.count("fam.compaction_without_relationships", 1);
                    out.cell(format!("{}:edge-free-compaction", kind.id()));
                }
                if since_compact_delete {
                    out.count("fam.compaction_after_delete_of_compacted", 1);
                    out.cell(format!("{}:recompaction-after-delete", kind.id()));
                    since_compact_delete = false;
                }
                if label_change_since_compact {
                    out.count("fam.compaction_after_label_change", 1);
                    label_change_since_compact = false;
                }
                compacted = true;
            }
            Op::Reopen { close } => {
                if compacted {
                    out.count("fam.reopen_after_compaction", 1);
                }
                out.cell(format!("{}:reopen-close={close}-compacted={compacted}", kind.id()));
            }
            Op::Tx { commit: false, writes } => {
                for w in writes {
                    out.cell(format!("{}:abandon-{}", kind.id(), w_kind(w)));
                }
            }
            Op::CreateIndex { .. } => {
                out.cell(format!("{}:index-at-{}", kind.id(), (i * 4) / h.len().max(1)));
            }
        }
    }
    // shape cell: (ops bucket, tx count bucket)
    let txs = h.iter().filter(|o| matches!(o, Op::Tx { .. })).count();
    out.cell(format!("{}:shape-{}-{}", kind.id(), h.len() / 4, txs / 4));
}

fn w_kind(w: &W) -> &'static str {
    match w {
        W::CreateNode { .. } => "create_node",
        W::AddLabel { .. } => "add_label",
        W::RemoveLabel { .. } => "remove_label",
        W::CreateEdge { .. } => "create_edge",
        W::DeleteEdge { .. } => "delete_edge",
        W::DeleteNode { .. } => "delete_node",
        W::SetNodeProp { .. } => "set_node_prop",
        W::RemoveNodeProp { .. } => "remove_node_prop",
        W::SetEdgeProp { .. } => "set_edge_prop",
        W::RemoveEdgeProp { .. } => "remove_edge_prop",
        W::SetVector { .. } => "set_vector",
    }
}

/// One case: returns the violation (if any). `mask` (replay of a shrunk case) selects the kept
/// operations and writes.
pub fn run_case(kind: Kind, seed: u64, k: usize, mask: Option<&Mask>, out: &mut CaseOut) -> Option<Violation> {
    let (cfg, full) = gen_case(kind, seed, k);
    let h: Vec<Op> = match mask {
        Some(m) => match apply_mask(&full, m) {
            Some(h) => h,
            None => {
                out.inconclusive("replay-mask-ill-formed");
                return None;
            }
        },
        None => full.clone(),
    };
    history_cells(kind, &h, out);
    let div = check_history(kind, &cfg, &h, out)?;
    let mut keep: Mask = match mask {
        Some(m) => m.clone(),
        None => full_mask(&full),
    };
    if mask.is_none() {
        let orig = div.clone();
        let mut scratch = CaseOut::default();
        keep = shrink(&full, keep, 600, |hh| {
            check_history(kind, &cfg, hh, &mut scratch)
                .map(|d| d.refines(&orig))
                .unwrap_or(false)
        });
    }
    let hh = apply_mask(&full, &keep).unwrap_or(h);
    let mut scratch = CaseOut::default();
    let cur_div = check_history(kind, &cfg, &hh, &mut scratch).unwrap_or(div);
    let cause = classify_cause(kind, &hh, &cur_div);
    let signature = format!("{}|{}|{}", kind.id(), cur_div.signature, cause);
    Some(Violation {
        signature,
        summary: format!("{} (step {} of {})", cur_div.what, cur_div.step, hh.len()),
        detail: json!({
            "history": history_to_json(&hh),
            "shape": shape(&hh),
            "diff": facts_diff_json(&cur_div.diff, "expected", "observed"),
            "cause_class": cause,
        }),
        replay: json!({"engine":"storemon","property":kind.id(),"seed":seed,"case":k,"keep":mask_to_json(&keep)}),
    })
}

/// Dropping an op that creates nodes shifts later internal ids; `well_formed` then rejects most
/// such trials because ext ids and node references no longer line up, which is what we want.
fn check_history(kind: Kind, cfg: &GenCfg, h: &[Op], out: &mut CaseOut) -> Option<Divergence> {
    match kind {
        Kind::C06 => {
            let mut m = Model::default();
            run_against(
                "c06",
                cfg,
                h,
                |_, op| {
                    m.apply_op(op);
                    Oracle::Expect(m.facts())
                },
                out,
                kind,
            )
        }
        Kind::C04 | Kind::C05 | Kind::C07 => {
            // reference: the same history without the operations under test, on its own database
            let dir = ScratchDir::new("base");
            let uni = Universe {
                keys: &cfg.keys,
                types: &cfg.types,
            };
            let mut base_sut = match Sut::open(&dir.db_base()) {
                Ok(s) => s,
                Err(_) => {
                    out.inconclusive("reference-open-failed");
                    return None;
                }
            };
            run_against(
                "var",
                cfg,
                h,
                |_, op| {
                    if invisible(kind, op) {
                        return Oracle::Skip;
                    }
                    match base_sut.apply(op) {
                        Ok(()) => {
                            let mut f = base_sut.dump(&uni);
                            if cfg.vectors {
                                f.extend(vector::vector_facts(base_sut.db(), cfg.vector_dim, 50));
                            }
                            Oracle::Expect(f)
                        }
                        Err(e) => Oracle::RefFailed(e.to_string()),
                    }
                },
                out,
                kind,
            )
        }
    }
}

/// Cause classes: predicates over the *shrunk* witness history and the kinds of difference it
/// shows. A cause names one specific failing history pattern; anything that matches no predicate
/// keeps "-" plus its shape and can never be attributed to a known finding.
fn classify_cause(kind: Kind, h: &[Op], d: &Divergence) -> String {
    let _ = kind;
    let (prefix, cats) = d.parts();
    let only = |allowed: &[&str]| !cats.is_empty() && cats.iter().all(|c| allowed.contains(&c.as_str()));
    let committed_writes = || {
        h.iter().flat_map(|op| match op {
            Op::Tx { writes, commit: true } => writes.clone(),
            _ => vec![],
        })
    };
    let n_compactions_before = |idx: usize| {
        h[..idx.min(h.len())]
            .iter()
            .filter(|o| matches!(o, Op::Compact | Op::Checkpoint))
            .count()
    };
    let total_compactions = n_compactions_before(h.len());
    let has_reopen = h.iter().any(|o| matches!(o, Op::Reopen { .. }));
    // same label removed and then added again for one node inside one transaction
    let label_remove_then_add = h.iter().any(|op| {
        if let Op::Tx { writes, commit: true } = op {
            let mut removed: Vec<(u32, String)> = vec![];
            for w in writes {
                match w {
                    W::RemoveLabel { node, label } => removed.push((*node, label.clone())),
                    W::AddLabel { node, label } if removed.contains(&(*node, label.clone())) => return true,
                    _ => {}
                }
            }
        }
        false
    });
    let label_set_changes = committed_writes().any(|w| {
        matches!(w, W::AddLabel { .. } | W::RemoveLabel { .. })
            || matches!(w, W::CreateNode { ref labels, .. } if labels.len() > 1)
    });
    let has_abandoned_vector = h.iter().any(|op| {
        matches!(op, Op::Tx { writes, commit: false } if writes.iter().any(|w| matches!(w, W::SetVector { .. })))
    });
    if only(&["vector-search:changed", "vector-search:extra", "vector-search:lost"]) && has_abandoned_vector {
        return "vector-write-of-abandoned-transaction-is-applied".into();
    }
    let has_remove_prop = committed_writes().any(|w| matches!(w, W::RemoveNodeProp { .. } | W::RemoveEdgeProp { .. }));
    let has_delete_node = committed_writes().any(|w| matches!(w, W::DeleteNode { .. }));
    let has_delete_edge = committed_writes().any(|w| matches!(w, W::DeleteEdge { .. }));
    let is_compaction_step = prefix.starts_with("compact-changed") || prefix.starts_with("checkpoint-changed");
    let is_reopen_step = prefix.contains("reopen-changed");

    if only(&["labels:changed", "labels:lost", "labels:extra"]) {
        if label_remove_then_add && prefix == "after-commit" && !has_reopen {
            return "label-removed-then-added-in-one-transaction".into();
        }
        if label_set_changes && has_reopen && (is_reopen_step || prefix.starts_with("after-")) {
            return "label-set-beyond-first-label-not-restored-by-reopen".into();
        }
    }
    if only(&["node-prop:extra", "edge-prop:extra"]) && has_remove_prop {
        if prefix == "after-commit" && total_compactions >= 1 {
            return "property-removal-after-compaction-has-no-effect".into();
        }
        if is_compaction_step {
            return "removed-property-reappears-after-compaction".into();
        }
    }
    if only(&["node-prop:changed", "edge-prop:changed", "!incoherent-n:extra", "!incoherent-e:extra"])
        && is_compaction_step
        && total_compactions >= 2
    {
        return "overwritten-property-reverts-after-second-compaction".into();
    }
    if is_compaction_step
        && has_delete_node
        && cats.contains("dead:lost")
        && only(&["dead:lost", "ext:extra", "labels:extra", "node-prop:extra", "in:extra", "out:extra", "edge-prop:extra"])
    {
        return "deleted-node-resurrects-after-compaction".into();
    }
    if is_compaction_step
        && has_delete_edge
        && total_compactions >= 2
        && only(&["in:extra", "out:extra", "in:changed", "out:changed", "edge-prop:extra"])
    {
        return "deleted-relationship-resurrects-after-recompaction".into();
    }
    format!("-;shape={}", shape(h))
}

pub fn main(kind: Kind, args: &Args) -> Report {
    let rule = match kind {
        Kind::C06 => "generated histories of committed transactions; after every commit all read interfaces (nodes, labels, external ids, single and whole-map property reads, typed/untyped outgoing and incoming neighbours with multiplicity, relationship properties) are dumped and compared with a plain in-memory property graph; a cell is a structural situation of a history",
        Kind::C05 => "same history executed on two databases, with and without compact/checkpoint at generated positions; dumps compared after every transaction, and before/after every compaction; a cell is a structural situation (edge-free compaction, recompaction after delete, ...)",
        Kind::C04 => "same history executed with and without close/drop+reopen steps; dumps (incl. internal ids) compared after every transaction and before/after every reopen",
        Kind::C07 => "same history executed with and without abandoned transactions; dumps compared after every step",
    };
    let mut rep = Report::new(kind.id(), &args.tier, args.seed, "exploration", rule);
    rep.assume("only well-formed writes are generated (relationships between live nodes, properties removed before their relationship/node is deleted, external ids never reused)");
    rep.assume("release profile build with hooks compiled in and idle");
    if let Some(p) = &args.replay {
        let j: J = serde_json::from_str(&std::fs::read_to_string(p).expect("read replay")).expect("json");
        let seed = j["seed"].as_u64().unwrap();
        let case = j["case"].as_u64().unwrap() as usize;
        let keep: Option<Mask> = mask_from_json(&j["keep"]);
        let mut out = CaseOut::default();
        if let Some(v) = run_case(kind, seed, case, keep.as_ref(), &mut out) {
            out.violations.push(v);
        }
        rep.out = out;
        return rep;
    }
    let n_cases = match (kind, args.thorough()) {
        (Kind::C06, false) => 3000,
        (Kind::C06, true) => 150000,
        (_, false) => 2000,
        (_, true) => 80000,
    };
    let deadline = Instant::now() + Duration::from_secs(args.budget_s(150, 1500));
    let seed = args.seed;
    let (out, done) = par_cases(n_cases, threads(), Some(deadline), |k| {
        let mut out = CaseOut::default();
        if let Some(v) = run_case(kind, seed, k, None, &mut out) {
            out.violations.push(v);
        }
        if k < 3 {
            let (_, h) = gen_case(kind, seed, k);
            out.samples.push(json!({"case": k, "history": history_to_json(&h)}));
        }
        out
    });
    rep.out = out;
    rep.extra.insert("cases_planned".into(), json!(n_cases));
    rep.extra.insert("cases_done".into(), json!(done));
    // coverage floors
    match kind {
        Kind::C06 => {
            rep.floor("commits checked", rep.counter("op.commit"), 3000);
            for w in ["w.create_node", "w.create_edge", "w.delete_edge", "w.delete_node", "w.set_node_prop", "w.remove_node_prop", "w.set_edge_prop", "w.remove_edge_prop", "w.add_label", "w.remove_label"] {
                rep.floor(w, rep.counter(w), 150);
            }
        }
        Kind::C05 => {
            rep.floor("compactions+checkpoints", rep.counter("op.compact") + rep.counter("op.checkpoint"), 800);
            rep.floor("compactions without relationships", rep.counter("fam.compaction_without_relationships"), 100);
            rep.floor("recompaction after delete of compacted data", rep.counter("fam.compaction_after_delete_of_compacted"), 100);
        }
        Kind::C04 => {
            rep.floor("reopen cycles", rep.counter("op.close+reopen") + rep.counter("op.drop+reopen"), 800);
            rep.floor("reopen after compaction", rep.counter("fam.reopen_after_compaction"), 150);
            rep.floor("delete+recreate in one tx", rep.counter("fam.delete_recreate_in_tx"), 50);
        }
        Kind::C07 => {
            rep.floor("abandoned transactions", rep.counter("op.abandon"), 800);
        }
    }
    rep
}
