//! C30: a database produced by the bulk loader has the same logical content and answers every
//! query the same as a database built by committing the same nodes and relationships.
//!
//! Oracle (differential): one generated node/relationship set is loaded through
//! `ndb_core::bulkload` into database B and through write transactions into database T (same
//! input order, so internal ids are comparable). Every dump view, the Cypher view and a set of
//! generated queries must agree; again after T is compacted and both are reopened; and again
//! after the same extra transaction was committed to both.

use crate::common::cypher::{canon_rows, cypher_view, run_read, sorted};
use crate::common::dump::{Universe, dump_db, panic_msg};
use crate::common::model::{Facts, diff_facts};
use crate::common::report::{Args, CaseOut, Report, Violation, par_cases, threads};
use crate::common::rng::Rng;
use crate::common::sut::ScratchDir;
use crate::common::value::{canon, gen_scalar_simple, gen_value, to_json};
use crate::common::{diff_signature, facts_diff_json};
use ndb_core::query::{Params, Value};
use ndb_core::{BulkEdge, BulkNode, Db, PropertyValue as PV};
use serde_json::json;
use std::collections::BTreeMap;
use std::panic::{AssertUnwindSafe, catch_unwind};
use std::time::{Duration, Instant};

const LABELS: [&str; 4] = ["A", "B", "R", "Person"];
const TYPES: [&str; 3] = ["R", "S", "KNOWS"];
const KEYS: [&str; 4] = ["k", "name", "v", "w"];

#[derive(Clone, Debug)]
pub struct Input {
    pub nodes: Vec<(u64, String, BTreeMap<String, PV>)>,
    pub edges: Vec<(usize, String, usize, BTreeMap<String, PV>)>,
    pub family: &'static str,
}

fn gen_props(rng: &mut Rng, simple: bool) -> BTreeMap<String, PV> {
    let mut m = BTreeMap::new();
    for k in KEYS {
        if rng.chance(2, 5) {
            let v = if simple { gen_scalar_simple(rng) } else { gen_value(rng, 0) };
            if !matches!(v, PV::Null) {
                m.insert(k.to_string(), v);
            }
        }
    }
    m
}

fn gen_input(seed: u64, k: usize) -> Input {
    let mut rng = Rng::derive(seed, k as u64);
    // every 20th input is large: hundreds of nodes that each carry a padded string besides the usual
    // properties, so that the property tree, the node table and the segments span many pages
    let large = k % 20 == 19;
    let family = if large { "large" } else { ["no-relationships", "parallel-relationships", "plain", "self-loops", "dense"][k % 5] };
    let n = if large { 150 + rng.below(450) } else { 1 + rng.below(if family == "dense" { 6 } else { 12 }) };
    let simple = k % 2 == 0;
    let mut nodes: Vec<_> = (0..n).map(|i| (5000 + i as u64 * 3, rng.pick(&LABELS).to_string(), gen_props(&mut rng, simple))).collect();
    if large {
        for (i, node) in nodes.iter_mut().enumerate() {
            let len = 20 + rng.below(180);
            node.2.insert("pad".to_string(), PV::String(format!("{i:05}-{}", "x".repeat(len))));
        }
    }
    let mut edges = Vec::new();
    let ne = match family {
        "no-relationships" => 0,
        "dense" => n * 3,
        _ => rng.below(2 * n + 1),
    };
    for _ in 0..ne {
        let s = rng.below(n);
        let d = if family == "self-loops" && rng.chance(1, 3) { s } else { rng.below(n) };
        let t = rng.pick(&TYPES).to_string();
        edges.push((s, t, d, gen_props(&mut rng, true)));
    }
    if family == "parallel-relationships" && !edges.is_empty() {
        // duplicates of the same (src, type, dst): without properties, so that the comparison is
        // about multiplicity and not about which copy's properties win
        for _ in 0..1 + rng.below(3) {
            let e = edges[rng.below(edges.len())].clone();
            edges.push((e.0, e.1, e.2, BTreeMap::new()));
        }
    }
    Input { nodes, edges, family }
}

fn input_json(inp: &Input) -> serde_json::Value {
    json!({
        "family": inp.family,
        "nodes": inp.nodes.iter().map(|(e, l, p)| json!({"ext": e, "label": l, "props": p.iter().map(|(k, v)| (k.clone(), to_json(v))).collect::<serde_json::Map<_, _>>()})).collect::<Vec<_>>(),
        "edges": inp.edges.iter().map(|(s, t, d, p)| json!({"src": s, "type": t, "dst": d, "props": p.iter().map(|(k, v)| (k.clone(), to_json(v))).collect::<serde_json::Map<_, _>>()})).collect::<Vec<_>>(),
    })
}

fn load_bulk(base: &std::path::Path, inp: &Input) -> Result<(), String> {
    let nodes: Vec<BulkNode> = inp.nodes.iter().map(|(e, l, p)| BulkNode { external_id: *e, label: l.clone(), properties: p.clone() }).collect();
    let edges: Vec<BulkEdge> = inp
        .edges
        .iter()
        .map(|(s, t, d, p)| BulkEdge { src_external_id: inp.nodes[*s].0, rel_type: t.clone(), dst_external_id: inp.nodes[*d].0, properties: p.clone() })
        .collect();
    let b = base.to_path_buf();
    match catch_unwind(AssertUnwindSafe(|| ndb_core::bulkload(&b, nodes, edges))) {
        Ok(Ok(())) => Ok(()),
        Ok(Err(e)) => Err(format!("error: {e}")),
        Err(p) => Err(format!("panic: {}", panic_msg(&p))),
    }
}

fn load_txn(db: &Db, inp: &Input, split: usize) -> Result<(), String> {
    let es = |e: ndb_core::Error| e.to_string();
    // nodes first (possibly in several transactions), then relationships
    let chunks: Vec<&[(u64, String, BTreeMap<String, PV>)]> = inp.nodes.chunks(split.max(1)).collect();
    let mut ids = Vec::new();
    for ch in chunks {
        let mut txn = db.begin_write();
        for (e, l, p) in ch {
            let lid = txn.get_or_create_label(l).map_err(es)?;
            let id = txn.create_node(*e, lid).map_err(es)?;
            ids.push(id);
            for (k, v) in p {
                txn.set_node_property(id, k.clone(), v.clone()).map_err(es)?;
            }
        }
        txn.commit().map_err(es)?;
    }
    let mut txn = db.begin_write();
    for (s, t, d, p) in &inp.edges {
        let tid = txn.get_or_create_rel_type(t).map_err(es)?;
        txn.create_edge(ids[*s], tid, ids[*d]);
        for (k, v) in p {
            txn.set_edge_property(ids[*s], tid, ids[*d], k.clone(), v.clone()).map_err(es)?;
        }
    }
    txn.commit().map_err(es)
}

fn pv_to_value(v: &PV) -> Value {
    match v {
        PV::Null => Value::Null,
        PV::Bool(b) => Value::Bool(*b),
        PV::Int(i) => Value::Int(*i),
        PV::Float(f) => Value::Float(*f),
        PV::String(s) => Value::String(s.clone()),
        PV::DateTime(t) => Value::DateTime(*t),
        PV::Blob(b) => Value::Blob(b.clone()),
        PV::List(xs) => Value::List(xs.iter().map(pv_to_value).collect()),
        PV::Map(m) => Value::Map(m.iter().map(|(k, x)| (k.clone(), pv_to_value(x))).collect()),
    }
}

/// Generated read queries: (text, params-as-one-value).
fn queries(inp: &Input, rng: &mut Rng) -> Vec<(String, Option<Value>)> {
    let mut qs: Vec<(String, Option<Value>)> = Vec::new();
    for l in LABELS {
        qs.push((format!("MATCH (n:{l}) RETURN id(n) AS i"), None));
    }
    for t in TYPES {
        qs.push((format!("MATCH (a)-[:{t}]->(b) RETURN id(a) AS a, id(b) AS b"), None));
        qs.push((format!("MATCH (b)<-[:{t}]-(a) RETURN id(a) AS a, id(b) AS b"), None));
    }
    qs.push(("MATCH (a)-->(b)-->(c) RETURN id(a) AS a, id(b) AS b, id(c) AS c".into(), None));
    qs.push(("MATCH (a)<--(b)<--(c) RETURN id(a) AS a, id(b) AS b, id(c) AS c".into(), None));
    qs.push(("MATCH (a)-[*1..2]->(b) RETURN id(a) AS a, id(b) AS b".into(), None));
    qs.push(("MATCH (a)-[r]-(b) RETURN id(a) AS a, type(r) AS t, id(b) AS b".into(), None));
    qs.push(("MATCH ()-[r]->() RETURN type(r) AS t, count(*) AS c".into(), None));
    qs.push(("MATCH (n) RETURN labels(n)[0] AS l, count(*) AS c".into(), None));
    qs.push(("MATCH (n) OPTIONAL MATCH (n)-[r]->(m) RETURN id(n) AS n, type(r) AS t, id(m) AS m".into(), None));
    qs.push(("MATCH (a)-[r:R|S]->(b) WHERE id(a) <= id(b) RETURN id(a) AS a, id(b) AS b, r.k AS k".into(), None));
    for k in KEYS {
        qs.push((format!("MATCH (n) WHERE n.{k} IS NOT NULL RETURN id(n) AS i, n.{k} AS v"), None));
        qs.push((format!("MATCH ()-[r]->() WHERE r.{k} IS NOT NULL RETURN r.{k} AS v"), None));
    }
    // equality lookups with values that exist
    let mut vals: Vec<(String, PV)> = Vec::new();
    for (_, _, p) in &inp.nodes {
        for (k, v) in p {
            vals.push((k.clone(), v.clone()));
        }
    }
    for _ in 0..6.min(vals.len()) {
        let (k, v) = vals[rng.below(vals.len())].clone();
        qs.push((format!("MATCH (n) WHERE n.{k} = $v RETURN id(n) AS i"), Some(pv_to_value(&v))));
        let l = rng.pick(&LABELS);
        qs.push((format!("MATCH (n:{l} {{{k}: $v}}) RETURN id(n) AS i"), Some(pv_to_value(&v))));
    }
    qs
}

fn full(db: &Db) -> Facts {
    let keys: Vec<String> = KEYS.iter().map(|s| s.to_string()).collect();
    let types: Vec<String> = TYPES.iter().map(|s| s.to_string()).collect();
    let mut f = dump_db(db, &Universe { keys: &keys, types: &types });
    f.extend(cypher_view(db));
    f
}

fn viol(seed: u64, k: usize, stage: &str, what: String, diff: &[(String, String, String)], inp: &Input, extra: serde_json::Value) -> Violation {
    let sig = if diff.is_empty() { crate::storemon::normalise_msg(&what) } else { diff_signature(diff) };
    Violation {
        signature: format!("C30|{stage}:{sig}|{}", inp.family),
        summary: what,
        detail: json!({"input": input_json(inp), "diff": facts_diff_json(&diff[..diff.len().min(12)], "transactional", "bulk"), "extra": extra}),
        replay: json!({"engine":"storemon","property":"C30","seed":seed,"case":k}),
    }
}

fn compare_queries(seed: u64, k: usize, stage: &str, t: &Db, b: &Db, inp: &Input, out: &mut CaseOut) -> Option<Violation> {
    let mut rng = Rng::derive(seed ^ 0x51ed, k as u64);
    for (q, pv) in queries(inp, &mut rng) {
        let mut params = Params::new();
        if let Some(v) = &pv {
            params.insert("v", v.clone());
        }
        let rt = run_read(t, &q, &params, true);
        let rb = run_read(b, &q, &params, true);
        out.count("queries_compared", 1);
        match (rt, rb) {
            (Ok(x), Ok(y)) => {
                let (x, y) = (sorted(canon_rows(&x, false)), sorted(canon_rows(&y, false)));
                if !x.is_empty() {
                    out.count("queries_with_rows", 1);
                }
                if x != y {
                    return Some(viol(seed, k, &format!("{stage}-query-rows-differ"), format!("query answers differ between the two databases: {q}"), &[], inp, json!({"query": q, "param_v": pv.as_ref().map(|v| crate::common::cypher::canon_value(v, false)), "transactional_rows": x, "bulk_rows": y})));
                }
            }
            (Err(e1), Err(_)) => {
                out.inconclusive(&format!("query-fails-on-both:{}", crate::storemon::normalise_msg(&e1.to_string())));
            }
            (Ok(_), Err(e)) => return Some(viol(seed, k, &format!("{stage}-query-fails-on-bulk-only"), format!("query fails only on the bulk-loaded database: {q}: {e}"), &[], inp, json!({"query": q}))),
            (Err(e), Ok(_)) => return Some(viol(seed, k, &format!("{stage}-query-fails-on-transactional-only"), format!("query fails only on the transactional database: {q}: {e}"), &[], inp, json!({"query": q}))),
        }
    }
    None
}

fn run_case(seed: u64, k: usize, out: &mut CaseOut) -> Option<Violation> {
    let inp = gen_input(seed, k);
    let (dt, dbk) = (ScratchDir::new("c30t"), ScratchDir::new("c30b"));
    out.evaluations += 1;
    out.count("pairs", 1);
    out.count(&format!("pairs.{}", inp.family), 1);
    out.cell(format!("{}:nodes={}:edges={}", inp.family, inp.nodes.len().min(9), (inp.edges.len() / 4).min(6)));
    if let Err(e) = load_bulk(&dbk.db_base(), &inp) {
        return Some(viol(seed, k, "bulk-load-failed", format!("the bulk loader failed on a well-formed input: {e}"), &[], &inp, json!({})));
    }
    let t = match Db::open(dt.db_base()) {
        Ok(d) => d,
        Err(_) => {
            out.inconclusive("open");
            return None;
        }
    };
    if let Err(e) = load_txn(&t, &inp, 1 + k % 4) {
        out.inconclusive(&format!("transactional-load-failed:{}", crate::storemon::normalise_msg(&e)));
        return None;
    }
    let b = match catch_unwind(AssertUnwindSafe(|| Db::open(dbk.db_base()))) {
        Ok(Ok(d)) => d,
        Ok(Err(e)) => return Some(viol(seed, k, "open-of-bulk-loaded-failed", format!("the bulk-loaded database does not open: {e}"), &[], &inp, json!({}))),
        Err(p) => return Some(viol(seed, k, "open-of-bulk-loaded-panicked", format!("opening the bulk-loaded database panicked: {}", panic_msg(&p)), &[], &inp, json!({}))),
    };
    let d = diff_facts(&full(&t), &full(&b), usize::MAX);
    if !d.is_empty() {
        return Some(viol(seed, k, "content-differs", "dump of the bulk-loaded database differs from the transactional one".into(), &d, &inp, json!({})));
    }
    if let Some(v) = compare_queries(seed, k, "fresh", &t, &b, &inp, out) {
        return Some(v);
    }
    // a bulk-loaded database is a database like any other: vacuuming it (before it was ever
    // compacted) must leave it equal to the transactional one as well
    let b = if k % 3 == 0 {
        drop(b);
        out.count("bulk_loaded_databases_vacuumed", 1);
        if let Err(e) = ndb_core::vacuum(dbk.db_base()) {
            return Some(viol(seed, k, "vacuum-of-bulk-loaded-failed", format!("vacuum of the bulk-loaded database failed: {e}"), &[], &inp, json!({})));
        }
        let b = match catch_unwind(AssertUnwindSafe(|| Db::open(dbk.db_base()))) {
            Ok(Ok(d)) => d,
            Ok(Err(e)) => return Some(viol(seed, k, "open-after-vacuum-of-bulk-loaded-failed", format!("the bulk-loaded database does not open after vacuum: {e}"), &[], &inp, json!({}))),
            Err(p) => return Some(viol(seed, k, "open-after-vacuum-of-bulk-loaded-panicked", format!("opening the vacuumed bulk-loaded database panicked: {}", panic_msg(&p)), &[], &inp, json!({}))),
        };
        let d = diff_facts(&full(&t), &full(&b), usize::MAX);
        if !d.is_empty() {
            return Some(viol(seed, k, "content-differs-after-vacuum-of-bulk-loaded", "after vacuum the bulk-loaded database differs from the transactional one".into(), &d, &inp, json!({})));
        }
        b
    } else {
        b
    };
    // compact T (so both are segment-backed), reopen both
    if t.compact().is_err() {
        out.inconclusive("compact-of-transactional-failed");
        return None;
    }
    drop(t);
    drop(b);
    let (t, b) = match (Db::open(dt.db_base()), catch_unwind(AssertUnwindSafe(|| Db::open(dbk.db_base())))) {
        (Ok(t), Ok(Ok(b))) => (t, b),
        (Ok(_), Ok(Err(e))) => return Some(viol(seed, k, "reopen-of-bulk-loaded-failed", format!("the bulk-loaded database does not reopen: {e}"), &[], &inp, json!({}))),
        (Ok(_), Err(p)) => return Some(viol(seed, k, "reopen-of-bulk-loaded-panicked", panic_msg(&p), &[], &inp, json!({}))),
        _ => {
            out.inconclusive("reopen-of-transactional-failed");
            return None;
        }
    };
    let d = diff_facts(&full(&t), &full(&b), usize::MAX);
    if !d.is_empty() {
        return Some(viol(seed, k, "content-differs-after-compact+reopen", "after compaction of the transactional database and a reopen of both, the dumps differ".into(), &d, &inp, json!({})));
    }
    if let Some(v) = compare_queries(seed, k, "reopened", &t, &b, &inp, out) {
        return Some(v);
    }
    out.count("pairs_compared_after_reopen", 1);
    // the same extra transaction on both: a new node linked to node 0, a property overwrite
    let extra = |db: &Db| -> Result<(), String> {
        let es = |e: ndb_core::Error| e.to_string();
        let mut txn = db.begin_write();
        let l = txn.get_or_create_label("A").map_err(es)?;
        let r = txn.get_or_create_rel_type("S").map_err(es)?;
        let id = txn.create_node(999_999, l).map_err(es)?;
        txn.create_edge(0, r, id);
        txn.create_edge(id, r, 0);
        txn.set_node_property(0, "k".into(), PV::Int(77)).map_err(es)?;
        txn.set_node_property(id, "name".into(), PV::String("late".into())).map_err(es)?;
        txn.commit().map_err(es)
    };
    let (rt, rb) = (extra(&t), catch_unwind(AssertUnwindSafe(|| extra(&b))));
    match (rt, rb) {
        (Ok(()), Ok(Ok(()))) => {
            let d = diff_facts(&full(&t), &full(&b), usize::MAX);
            if !d.is_empty() {
                return Some(viol(seed, k, "content-differs-after-later-write", "after the same extra transaction the dumps differ".into(), &d, &inp, json!({})));
            }
            out.count("pairs_compared_after_later_write", 1);
        }
        (Ok(()), Ok(Err(e))) => return Some(viol(seed, k, "later-write-fails-on-bulk-only", format!("a later transaction fails only on the bulk-loaded database: {e}"), &[], &inp, json!({}))),
        (Ok(()), Err(p)) => return Some(viol(seed, k, "later-write-panics-on-bulk-only", panic_msg(&p), &[], &inp, json!({}))),
        _ => out.inconclusive("later-write-failed-on-transactional"),
    }
    let _ = canon;
    None
}

pub fn main(args: &Args) -> Report {
    let mut rep = Report::new(
        "C30",
        &args.tier,
        args.seed,
        "exploration",
        "generated node/relationship sets (families: no relationships, parallel relationships, self loops, dense, plain; one label per node as the bulk API requires; label and type names shared; all property kinds) loaded by ndb_core::bulkload and by write transactions in the same order; all dump views, the Cypher view and ~45 generated read queries (label scans, typed expansions in both directions, two-hop, variable length, OPTIONAL MATCH, aggregation, equality lookups with stored values) are compared, again after compaction+reopen and after the same later transaction. A cell is (family, node bucket, edge bucket)",
    );
    rep.assume("internal ids are compared because both loaders assign them in input order");
    if let Some(p) = &args.replay {
        let j: serde_json::Value = serde_json::from_str(&std::fs::read_to_string(p).expect("read replay")).expect("json");
        let mut out = CaseOut::default();
        if let Some(v) = run_case(j["seed"].as_u64().unwrap(), j["case"].as_u64().unwrap() as usize, &mut out) {
            out.violations.push(v);
        }
        rep.out = out;
        return rep;
    }
    let n = if args.thorough() { 50_000 } else { 1000 };
    let deadline = Instant::now() + Duration::from_secs(args.budget_s(120, 1200));
    let seed = args.seed;
    let (out, done) = par_cases(n, threads(), Some(deadline), |k| {
        let mut out = CaseOut::default();
        if let Some(v) = run_case(seed, k, &mut out) {
            out.violations.push(v);
        }
        if k < 3 {
            out.samples.push(json!({"case": k, "input": input_json(&gen_input(seed, k))}));
        }
        out
    });
    rep.out = out;
    rep.extra.insert("cases_done".into(), json!(done));
    let t = args.thorough();
    rep.floor("pairs", rep.counter("pairs"), if t { 2000 } else { 200 });
    rep.floor("pairs without relationships", rep.counter("pairs.no-relationships"), if t { 400 } else { 40 });
    rep.floor("pairs with parallel relationships", rep.counter("pairs.parallel-relationships"), if t { 400 } else { 40 });
    rep.floor("pairs with large inputs (property tree of many pages)", rep.counter("pairs.large"), if t { 100 } else { 10 });
    rep.floor("queries compared", rep.counter("queries_compared"), if t { 50_000 } else { 5000 });
    rep
}
