//! placeholder
