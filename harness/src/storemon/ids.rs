//! C32: every created node gets an identity no other node ever had, the identity is stable across
//! compaction and reopen, and creating nodes never fails because of identity allocation —
//! whatever the system clock does.
//!
//! The clock component of generated external ids is supplied by the `clock` hook (per thread):
//! stalled, stepping backwards, alternating, advancing 1 ns per call, or the real clock.

use crate::common::cypher::{QErr, run_write};
use crate::common::report::{Args, CaseOut, Report, Violation, par_cases, threads};
use crate::common::rng::Rng;
use crate::common::sut::ScratchDir;
use ndb_core::query::{Params, prepare};
use ndb_core::verif::Hooks;
use ndb_core::{Db, GraphSnapshot};
use serde_json::json;
use std::collections::BTreeMap;
use std::sync::Arc;
use std::sync::atomic::{AtomicU64, Ordering};
use std::time::{Duration, Instant};

#[derive(Clone, Copy, Debug, PartialEq)]
enum ClockKind {
    Stalled,
    Backwards,
    Alternating,
    OneNsPerCall,
    Real,
}

struct Clock {
    kind: ClockKind,
    calls: AtomicU64,
    base: u64,
}

impl Hooks for Clock {
    fn clock(&self, counter: u64) -> Option<u64> {
        let n = self.calls.fetch_add(1, Ordering::SeqCst);
        let now = match self.kind {
            ClockKind::Real => return None,
            ClockKind::Stalled => self.base,
            // an NTP step: every 7th call the clock jumps back by 5 ns
            ClockKind::Backwards => self.base + n - 5 * (n / 7).min(n / 5),
            ClockKind::Alternating => self.base + (n % 2) * 3,
            ClockKind::OneNsPerCall => self.base + n,
        };
        Some(counter + now)
    }
}

#[derive(Clone, Debug)]
enum Step {
    /// auto-commit statement
    Stmt(String),
    /// several statements inside one explicit write transaction
    Txn(Vec<String>),
    Compact,
    Reopen,
}

fn gen_stmt(rng: &mut Rng, uid: &mut u64) -> String {
    let n = *rng.pick(&[1usize, 1, 2, 3, 5, 10, 40, 150, 500]);
    *uid += 1;
    match rng.below(5) {
        0 => format!("CREATE (:L {{u: {uid}}})"),
        1 => format!("CREATE (:L {{u: {uid}}}), (:M {{u: {uid}}}), (:L {{u: {uid}}})"),
        2 => format!("UNWIND range(1, {n}) AS i CREATE (:L {{u: {uid}, i: i}})"),
        3 => format!("UNWIND range(1, {}) AS i CREATE (a:L {{u: {uid}, i: i}})-[:R]->(b:M {{u: {uid}, i: i}})", n.min(150)),
        _ => format!("UNWIND range(1, {}) AS i MERGE (:K {{u: {uid}, i: i}})", n.min(40)),
    }
}

fn gen_steps(seed: u64, k: usize) -> Vec<Step> {
    let mut rng = Rng::derive(seed, k as u64);
    let mut uid = 0u64;
    let n = 4 + rng.below(10);
    let mut v = Vec::new();
    for _ in 0..n {
        match rng.weighted(&[60, 20, 8, 12]) {
            0 => v.push(Step::Stmt(gen_stmt(&mut rng, &mut uid))),
            1 => {
                let m = 2 + rng.below(3);
                v.push(Step::Txn((0..m).map(|_| gen_stmt(&mut rng, &mut uid)).collect()));
            }
            2 => v.push(Step::Compact),
            _ => v.push(Step::Reopen),
        }
    }
    v
}

fn step_json(s: &Step) -> serde_json::Value {
    match s {
        Step::Stmt(q) => json!({"auto-commit": q}),
        Step::Txn(qs) => json!({"one-transaction": qs}),
        Step::Compact => json!("compact"),
        Step::Reopen => json!("reopen"),
    }
}

fn is_identity_error(msg: &str) -> bool {
    let m = msg.to_ascii_lowercase();
    m.contains("external id") || m.contains("duplicate external") || m.contains("already exists")
}

/// internal id -> external id for every id ever assigned
fn identity_map(db: &Db) -> BTreeMap<u32, u64> {
    let s = db.snapshot();
    let mut m = BTreeMap::new();
    let mut i = 0u32;
    while let Some(e) = s.resolve_external(i) {
        m.insert(i, e);
        i += 1;
    }
    m
}

fn run_case(seed: u64, k: usize, kind: ClockKind, out: &mut CaseOut) -> Option<Violation> {
    let steps = gen_steps(seed, k);
    let clock = Arc::new(Clock { kind, calls: AtomicU64::new(0), base: 1_700_000_000_000_000_000 + (k as u64) * 1_000_000 });
    ndb_core::verif::install_thread(clock.clone() as Arc<dyn Hooks>);
    let r = run_case_inner(seed, k, kind, &steps, out);
    ndb_core::verif::uninstall_thread();
    out.count(&format!("clock_calls.{kind:?}"), clock.calls.load(Ordering::SeqCst));
    r
}

fn run_case_inner(seed: u64, k: usize, kind: ClockKind, steps: &[Step], out: &mut CaseOut) -> Option<Violation> {
    let dir = ScratchDir::new("c32");
    let mut db = match Db::open(dir.db_base()) {
        Ok(d) => d,
        Err(_) => {
            out.inconclusive("open");
            return None;
        }
    };
    let params = Params::new();
    let viol = |kindname: &str, what: String, upto: usize| Violation {
        signature: format!("C32|{kindname}|clock={kind:?}"),
        summary: what,
        detail: json!({"clock": format!("{kind:?}"), "steps": steps[..=upto.min(steps.len() - 1)].iter().map(step_json).collect::<Vec<_>>()}),
        replay: json!({"engine":"storemon","property":"C32","seed":seed,"case":k,"clock":format!("{kind:?}")}),
    };
    let mut known: BTreeMap<u32, u64> = BTreeMap::new();
    for (i, st) in steps.iter().enumerate() {
        match st {
            Step::Stmt(q) => {
                out.evaluations += 1;
                out.count(&format!("statements.{kind:?}"), 1);
                match run_write(&db, q, &params) {
                    Ok(_) => {}
                    Err(QErr::Runtime(m)) | Err(QErr::Commit(m)) if is_identity_error(&m) => {
                        return Some(viol("create-failed-on-identity-allocation", format!("statement failed because of identity allocation: {q}: {m}"), i));
                    }
                    Err(e) => {
                        out.inconclusive(&format!("statement-failed:{}", crate::storemon::normalise_msg(&e.to_string())));
                        return None;
                    }
                }
            }
            Step::Txn(qs) => {
                let mut txn = db.begin_write();
                for q in qs {
                    out.evaluations += 1;
                    out.count(&format!("statements.{kind:?}"), 1);
                    out.count("statements_in_explicit_transactions", 1);
                    let prepared = match prepare(q) {
                        Ok(p) => p,
                        Err(_) => {
                            out.inconclusive("prepare");
                            return None;
                        }
                    };
                    let snap = db.snapshot();
                    if let Err(e) = prepared.execute_mixed(&snap, &mut txn, &params) {
                        let m = e.to_string();
                        if is_identity_error(&m) {
                            return Some(viol("create-failed-on-identity-allocation", format!("statement inside a transaction failed because of identity allocation: {q}: {m}"), i));
                        }
                        out.inconclusive(&format!("statement-failed:{}", crate::storemon::normalise_msg(&m)));
                        return None;
                    }
                }
                if let Err(e) = txn.commit() {
                    let m = e.to_string();
                    if is_identity_error(&m) {
                        return Some(viol("commit-failed-on-identity-allocation", format!("commit failed because of identity allocation: {m}"), i));
                    }
                    out.inconclusive("commit-failed");
                    return None;
                }
            }
            Step::Compact => {
                if db.compact().is_err() {
                    out.inconclusive("compact-failed");
                    return None;
                }
                out.count("compactions", 1);
            }
            Step::Reopen => {
                drop(db);
                db = match Db::open(dir.db_base()) {
                    Ok(d) => d,
                    Err(e) => {
                        out.inconclusive(&format!("reopen-failed:{}", crate::storemon::normalise_msg(&e.to_string())));
                        return None;
                    }
                };
                out.count("reopens", 1);
            }
        }
        // uniqueness and stability after every step
        let now = identity_map(&db);
        let mut seen: BTreeMap<u64, u32> = BTreeMap::new();
        for (iid, ext) in &now {
            if let Some(other) = seen.insert(*ext, *iid) {
                return Some(viol("two-nodes-share-an-identity", format!("internal ids {other} and {iid} share external id {ext}"), i));
            }
        }
        for (iid, ext) in &known {
            match now.get(iid) {
                Some(e) if e == ext => {}
                other => {
                    let what = match st {
                        Step::Compact => "compaction",
                        Step::Reopen => "reopen",
                        _ => "a later statement",
                    };
                    return Some(viol(&format!("identity-changed-by-{}", what.replace(' ', "-")), format!("node {iid} had external id {ext}, after {what} it has {other:?}"), i));
                }
            }
        }
        out.count("nodes_created", (now.len() - known.len()) as u64);
        known = now;
    }
    None
}

pub fn main(args: &Args) -> Report {
    let mut rep = Report::new(
        "C32",
        &args.tier,
        args.seed,
        "exploration",
        "create-heavy Cypher histories (single CREATE, multi-node CREATE, UNWIND range(1,n) CREATE with n up to 500, MERGE, several statements in one explicit transaction, back to back) with compaction and reopen, under a controlled clock (stalled, stepping backwards, alternating, 1 ns per call) and the real clock; after every step: no statement failed on identity allocation, all external ids over all internal ids ever assigned are distinct, and no node's (internal, external) pair changed. A cell is (clock behaviour, step kinds)",
    );
    rep.assume("the controlled clock only returns values a real system clock can return (stalls and backward steps happen under NTP and coarse timers)");
    let kinds = [ClockKind::Stalled, ClockKind::Backwards, ClockKind::Alternating, ClockKind::OneNsPerCall, ClockKind::Real];
    if let Some(p) = &args.replay {
        let j: serde_json::Value = serde_json::from_str(&std::fs::read_to_string(p).expect("read replay")).expect("json");
        let kind = kinds.iter().copied().find(|c| format!("{c:?}") == j["clock"].as_str().unwrap_or("")).unwrap_or(ClockKind::Stalled);
        let mut out = CaseOut::default();
        if let Some(v) = run_case(j["seed"].as_u64().unwrap(), j["case"].as_u64().unwrap() as usize, kind, &mut out) {
            out.violations.push(v);
        }
        rep.out = out;
        return rep;
    }
    let n = if args.thorough() { 30_000 } else { 1200 };
    let deadline = Instant::now() + Duration::from_secs(args.budget_s(100, 900));
    let seed = args.seed;
    let (out, _) = par_cases(n, threads(), Some(deadline), |k| {
        let mut out = CaseOut::default();
        let kind = kinds[k % kinds.len()];
        let steps = gen_steps(seed, k);
        let mut ks: Vec<&str> = steps.iter().map(|s| match s { Step::Stmt(_) => "stmt", Step::Txn(_) => "txn", Step::Compact => "compact", Step::Reopen => "reopen" }).collect();
        ks.sort();
        ks.dedup();
        out.cell(format!("{kind:?}:{}", ks.join("+")));
        if let Some(v) = run_case(seed, k, kind, &mut out) {
            out.violations.push(v);
        }
        if k < 3 {
            out.samples.push(json!({"clock": format!("{kind:?}"), "steps": steps.iter().map(step_json).collect::<Vec<_>>()}));
        }
        out
    });
    rep.out = out;
    let t = args.thorough();
    for c in kinds {
        rep.floor(&format!("statements under clock {c:?}"), rep.counter(&format!("statements.{c:?}")), if t { 500 } else { 60 });
    }
    rep.floor("nodes created", rep.counter("nodes_created"), if t { 50_000 } else { 3000 });
    rep
}
