//! Vector-search view of a database and the C31 monitor.

use crate::common::model::Facts;
use ndb_core::Db;
use std::panic::{AssertUnwindSafe, catch_unwind};

pub fn query_set(dim: usize) -> Vec<Vec<f32>> {
    let mut qs = vec![vec![0.0f32; dim]];
    for i in 0..dim.min(3) {
        let mut v = vec![0.0f32; dim];
        v[i] = 1.0;
        qs.push(v);
    }
    qs.push(vec![2.5f32; dim]);
    qs
}

/// Results of a fixed set of searches, rendered so that ties may permute freely.
pub fn vector_facts(db: &Db, dim: usize, k: usize) -> Facts {
    let mut f = Facts::new();
    for (qi, q) in query_set(dim).iter().enumerate() {
        let r = catch_unwind(AssertUnwindSafe(|| db.search_vector(q, k)));
        let s = match r {
            Ok(Ok(mut hits)) => {
                hits.sort_by(|a, b| a.1.total_cmp(&b.1).then(a.0.cmp(&b.0)));
                hits.iter()
                    .map(|(n, d)| format!("{n}@{:08x}", d.to_bits()))
                    .collect::<Vec<_>>()
                    .join(" ")
            }
            Ok(Err(e)) => format!("error: {e}"),
            Err(_) => "panic".to_string(),
        };
        f.insert(format!("vs/{qi}"), s);
    }
    f
}
