//! Vector-search view of a database and the C31 monitor.

use crate::common::model::Facts;
use ndb_core::Db;
use std::panic::{AssertUnwindSafe, catch_unwind};

pub fn query_set(dim: usize) -> Vec<Vec<f32>> {
    let mut qs = vec![vec![0.0f32; dim]];
    for i in 0..dim.min(3) {
        let mut v = vec![0.0f32; dim];
        v[i] = 1.0;
        qs.push(v);
    }
    qs.push(vec![2.5f32; dim]);
    qs
}

/// Results of a fixed set of searches, rendered so that ties may permute freely.
pub fn vector_facts(db: &Db, dim: usize, k: usize) -> Facts {
    let mut f = Facts::new();
    for (qi, q) in query_set(dim).iter().enumerate() {
        let r = catch_unwind(AssertUnwindSafe(|| db.search_vector(q, k)));
        let s = match r {
            Ok(Ok(mut hits)) => {
                hits.sort_by(|a, b| a.1.total_cmp(&b.1).then(a.0.cmp(&b.0)));
                hits.iter()
                    .map(|(n, d)| format!("{n}@{:08x}", d.to_bits()))
                    .collect::<Vec<_>>()
                    .join(" ")
            }
            Ok(Err(e)) => format!("error: {e}"),
            Err(_) => "panic".to_string(),
        };
        f.insert(format!("vs/{qi}"), s);
    }
    f
}

// ---------------------------------------------------------------------------------------------
// C31 monitor
// ---------------------------------------------------------------------------------------------

use crate::common::report::{Args, CaseOut, Report, Violation, par_cases, threads};
use crate::common::rng::Rng;
use crate::common::sut::ScratchDir;
use serde_json::json;
use std::collections::{BTreeMap, BTreeSet};
use std::time::{Duration, Instant};

#[derive(Clone, Debug)]
enum VOp {
    /// create a node and give it a vector
    Add(Vec<f32>),
    /// overwrite the vector of an existing live node (index into the list of live vector nodes)
    Reinsert(usize, Vec<f32>),
    /// delete a node that has a vector
    Delete(usize),
    Reopen,
    Compact,
    Search(Vec<f32>, usize),
}

fn vop_json(op: &VOp) -> serde_json::Value {
    match op {
        VOp::Add(v) => json!({"op":"create-node+set_vector","vec":v}),
        VOp::Reinsert(i, v) => json!({"op":"set_vector-again","nth_live_vector_node":i,"vec":v}),
        VOp::Delete(i) => json!({"op":"delete-node","nth_live_vector_node":i}),
        VOp::Reopen => json!({"op":"reopen"}),
        VOp::Compact => json!({"op":"compact"}),
        VOp::Search(q, k) => json!({"op":"search","query":q,"k":k}),
    }
}

fn gen_vec(rng: &mut Rng, dim: usize, pool: &[f32]) -> Vec<f32> {
    (0..dim).map(|_| *rng.pick(pool)).collect()
}

/// An index that stays "few" (at most `cap` vectors, no deletes) while the same nodes get new
/// vectors again and again, with k larger than the index between the re-inserts.
fn gen_reinsert_heavy(seed: u64, k: usize, cap: usize) -> (usize, Vec<VOp>) {
    let mut rng = Rng::derive(seed ^ 0x5e1, k as u64);
    let dim = 2 + rng.below(3);
    let pool: Vec<f32> = vec![0.0, 1.0, -1.0, 0.5, 2.0, -3.5, 10.0, 0.25, 100.0, -0.125, 7.0, 1e-3];
    let n_nodes = 3 + rng.below(cap.saturating_sub(2).max(1));
    let mut ops = Vec::new();
    for _ in 0..n_nodes.min(cap) {
        ops.push(VOp::Add(gen_vec(&mut rng, dim, &pool)));
    }
    let live = n_nodes.min(cap);
    for i in 0..(15 + rng.below(25)) {
        ops.push(VOp::Reinsert(rng.below(live), gen_vec(&mut rng, dim, &pool)));
        if i % 4 == 3 {
            ops.push(VOp::Search(gen_vec(&mut rng, dim, &[1000.0, -1000.0, 0.0, 3.0]), 50));
        }
        if rng.chance(1, 12) {
            ops.push(if rng.chance(1, 2) { VOp::Reopen } else { VOp::Compact });
        }
    }
    let q = gen_vec(&mut rng, dim, &pool);
    ops.push(VOp::Search(q.clone(), 50));
    ops.push(VOp::Reopen);
    ops.push(VOp::Search(q, 50));
    (dim, ops)
}

fn gen_vcase(seed: u64, k: usize, small: bool) -> (usize, Vec<VOp>) {
    let mut rng = Rng::derive(seed, k as u64);
    let dim = 1 + rng.below(8);
    // a small coordinate pool produces ties and duplicates
    let pool: Vec<f32> = if k % 3 == 0 { vec![0.0, 1.0, -1.0, 0.5] } else { vec![0.0, 1.0, -1.0, 0.5, 2.0, -3.5, 10.0, 0.25, 100.0, -0.125, 7.0, 1e-3] };
    let n_ops = if small { 6 + rng.below(14) } else { 20 + rng.below(60) };
    let mut live = 0usize;
    let mut ops = Vec::new();
    let mut stored: Vec<Vec<f32>> = Vec::new();
    for _ in 0..n_ops {
        let w = rng.weighted(&[40, if live > 0 { 12 } else { 0 }, if live > 1 { 6 } else { 0 }, 6, 4, 30]);
        match w {
            0 => {
                let v = gen_vec(&mut rng, dim, &pool);
                stored.push(v.clone());
                live += 1;
                ops.push(VOp::Add(v));
            }
            1 => {
                let v = gen_vec(&mut rng, dim, &pool);
                stored.push(v.clone());
                ops.push(VOp::Reinsert(rng.below(live), v));
            }
            2 => {
                ops.push(VOp::Delete(rng.below(live)));
                live -= 1;
            }
            3 => ops.push(VOp::Reopen),
            4 => ops.push(VOp::Compact),
            _ => {
                // query at a stored point, a midpoint of two stored points, or far away
                let q = match rng.below(3) {
                    0 if !stored.is_empty() => stored[rng.below(stored.len())].clone(),
                    1 if stored.len() > 1 => {
                        let (a, b) = (&stored[rng.below(stored.len())], &stored[rng.below(stored.len())]);
                        a.iter().zip(b).map(|(x, y)| (x + y) / 2.0).collect()
                    }
                    _ => gen_vec(&mut rng, dim, &[1000.0, -1000.0, 0.0, 3.0]),
                };
                ops.push(VOp::Search(q, *rng.pick(&[1usize, 2, 3, 5, 10, 50])));
            }
        }
    }
    // always end with searches before and after a reopen
    let q = gen_vec(&mut rng, dim, &pool);
    ops.push(VOp::Search(q.clone(), 10));
    ops.push(VOp::Reopen);
    ops.push(VOp::Search(q, 10));
    (dim, ops)
}

fn euclid(a: &[f32], b: &[f32]) -> f64 {
    a.iter().zip(b).map(|(x, y)| ((*x as f64) - (*y as f64)).powi(2)).sum::<f64>().sqrt()
}

fn close(a: f64, b: f64) -> bool {
    (a - b).abs() <= 1e-4 * a.abs().max(b.abs()) + 1e-5
}

struct VViol {
    kind: String,
    what: String,
    step: usize,
}

/// Executes the case; returns the first oracle failure.
fn run_vcase(dim: usize, ops: &[VOp], m_param: usize, out: &mut CaseOut) -> Result<Option<VViol>, String> {
    let mut soft: Option<VViol> = None;
    let r = run_vcase_inner(dim, ops, m_param, out, &mut soft)?;
    // a hard failure is reported first; the soft one (deleted node returned) only if nothing else failed
    Ok(r.or(soft))
}

/// `soft`: first observation of a deleted node in a result. It is recorded and the case goes on
/// (the remaining oracles then treat the deleted node's last vector as stored), so that histories
/// with deletions still exercise the other oracles.
fn run_vcase_inner(dim: usize, ops: &[VOp], m_param: usize, out: &mut CaseOut, soft: &mut Option<VViol>) -> Result<Option<VViol>, String> {
    let _ = dim;
    let mut ghosts: BTreeMap<u32, Vec<f32>> = BTreeMap::new(); // deleted nodes' last vectors
    let dir = ScratchDir::new("c31");
    let mut db = Some(Db::open(dir.db_base()).map_err(|e| e.to_string())?);
    // model
    let mut vectors: BTreeMap<u32, Vec<f32>> = BTreeMap::new(); // live nodes with a vector
    let mut ever: BTreeSet<u32> = BTreeSet::new(); // nodes the index ever received a vector for
    let mut next_ext = 1u64;
    // searches repeated after the next reopen: (query, k, sorted distances before)
    let mut pending: Vec<(Vec<f32>, usize, Vec<f64>)> = Vec::new();
    let es = |e: ndb_core::Error| e.to_string();
    for (step, op) in ops.iter().enumerate() {
        let d = db.as_ref().unwrap();
        match op {
            VOp::Add(v) => {
                let mut txn = d.begin_write();
                let l = txn.get_or_create_label("V").map_err(es)?;
                let id = txn.create_node(next_ext, l).map_err(es)?;
                next_ext += 1;
                txn.set_vector(id, v.clone()).map_err(es)?;
                txn.commit().map_err(es)?;
                vectors.insert(id, v.clone());
                ever.insert(id);
                out.count("vector_inserts", 1);
                pending.clear(); // a new vector legitimately changes later results
            }
            VOp::Reinsert(i, v) => {
                let id = *vectors.keys().nth(*i).ok_or("ill-formed case")?;
                let mut txn = d.begin_write();
                txn.set_vector(id, v.clone()).map_err(es)?;
                txn.commit().map_err(es)?;
                vectors.insert(id, v.clone());
                out.count("vector_reinserts", 1);
                pending.clear(); // distances legitimately change
            }
            VOp::Delete(i) => {
                let id = *vectors.keys().nth(*i).ok_or("ill-formed case")?;
                let mut txn = d.begin_write();
                txn.tombstone_node(id);
                txn.commit().map_err(es)?;
                if let Some(v) = vectors.remove(&id) {
                    ghosts.insert(id, v);
                }
                out.count("vector_node_deletes", 1);
                pending.clear();
            }
            VOp::Compact => d.compact().map_err(es)?,
            VOp::Reopen => {
                drop(db.take());
                db = Some(Db::open(dir.db_base()).map_err(|e| format!("reopen: {e}"))?);
                let d = db.as_ref().unwrap();
                for (q, k, before) in pending.drain(..) {
                    let hits = d.search_vector(&q, k).map_err(es)?;
                    let mut after: Vec<f64> = hits.iter().map(|h| h.1 as f64).collect();
                    after.sort_by(|a, b| a.total_cmp(b));
                    out.count("searches_repeated_after_reopen", 1);
                    if after.len() != before.len() || after.iter().zip(&before).any(|(a, b)| !close(*a, *b)) {
                        return Ok(Some(VViol { kind: "result-changed-by-reopen".into(), what: format!("search {q:?} k={k}: distances before reopen {before:?}, after {after:?}"), step }));
                    }
                }
            }
            VOp::Search(q, k) => {
                let hits = match catch_unwind(AssertUnwindSafe(|| d.search_vector(q, *k))) {
                    Ok(Ok(h)) => h,
                    Ok(Err(e)) => return Ok(Some(VViol { kind: "search-failed".into(), what: format!("search returned an error: {e}"), step })),
                    Err(_) => return Ok(Some(VViol { kind: "search-panicked".into(), what: "search panicked".into(), step })),
                };
                out.evaluations += 1;
                out.count("searches", 1);
                let few = ever.len() <= 2 * m_param + 1;
                if few {
                    out.count("searches_on_few_vectors", 1);
                }
                if hits.len() > *k {
                    return Ok(Some(VViol { kind: "more-than-k-results".into(), what: format!("k={k}, got {}", hits.len()), step }));
                }
                let ids: BTreeSet<u32> = hits.iter().map(|h| h.0).collect();
                if ids.len() != hits.len() {
                    return Ok(Some(VViol { kind: "node-repeated".into(), what: format!("result lists a node twice: {hits:?}"), step }));
                }
                let mut ghost_seen = false;
                for (id, _) in &hits {
                    if !vectors.contains_key(id) {
                        if ghosts.contains_key(id) {
                            ghost_seen = true;
                            if soft.is_none() {
                                *soft = Some(VViol { kind: "deleted-node-returned".into(), what: format!("node {id} was deleted but is in the result: {hits:?}"), step });
                            }
                            continue;
                        }
                        return Ok(Some(VViol { kind: "node-without-vector-returned".into(), what: format!("node {id} is in the result but never had a vector: {hits:?}"), step }));
                    }
                }
                for w in hits.windows(2) {
                    if w[0].1 > w[1].1 {
                        return Ok(Some(VViol { kind: "distances-not-sorted".into(), what: format!("{hits:?}"), step }));
                    }
                }
                for (id, dist) in &hits {
                    let want = euclid(q, vectors.get(id).or_else(|| ghosts.get(id)).unwrap());
                    if !close(*dist as f64, want) {
                        return Ok(Some(VViol { kind: "wrong-distance".into(), what: format!("node {id}: reported {dist}, Euclidean distance to its current vector is {want}"), step }));
                    }
                }
                if few && !ghost_seen && ghosts.is_empty() {
                    let mut brute: Vec<f64> = vectors.values().map(|v| euclid(q, v)).collect();
                    brute.sort_by(|a, b| a.total_cmp(b));
                    brute.truncate(*k);
                    let got: Vec<f64> = hits.iter().map(|h| h.1 as f64).collect();
                    if got.len() != brute.len() || got.iter().zip(&brute).any(|(a, b)| !close(*a, *b)) {
                        return Ok(Some(VViol { kind: "not-the-k-nearest-on-few-vectors".into(), what: format!("index holds {} vectors (m={m_param}); expected distances {brute:?}, got {got:?}", ever.len()), step }));
                    }
                }
                let mut sorted: Vec<f64> = hits.iter().map(|h| h.1 as f64).collect();
                sorted.sort_by(|a, b| a.total_cmp(b));
                pending.push((q.clone(), *k, sorted));
            }
        }
    }
    Ok(None)
}

pub fn main(args: &Args) -> Report {
    let mut rep = Report::new(
        "C31",
        &args.tier,
        args.seed,
        "exploration",
        "generated sequences of vector inserts (dimension 1-8, coordinate pools with ties and duplicates), re-inserts for the same node, node deletions, compaction, reopen and searches (at stored points, midpoints, far away; k in 1..50) with NERVUSDB_HNSW_M=4 and with the default; every result is checked online: at most k, distinct, only live nodes with a stored vector, non-decreasing, each distance equal to the Euclidean distance to the node's current vector, exactly the k nearest while the index holds at most 2m+1 vectors, and unchanged by reopen. A cell is (m, dimension, operation kinds present)",
    );
    rep.assume("HNSW level choice is random (thread_rng): every violating case is re-executed 5 times and the reproduction count is part of the witness");
    rep.assume("distances are compared with relative tolerance 1e-4 (f32 arithmetic in the engine, f64 in the oracle)");
    let thorough = args.thorough();
    let mut total = CaseOut::default();
    for (phase, m_param) in [(0u64, 4usize), (1, 16)] {
        // the parameter is read from the environment when a database is opened
        unsafe {
            if m_param == 4 {
                std::env::set_var("NERVUSDB_HNSW_M", "4");
            } else {
                std::env::remove_var("NERVUSDB_HNSW_M");
            }
        }
        let n = if thorough { 40_000 } else { 1200 };
        let deadline = Instant::now() + Duration::from_secs(args.budget_s(60, 600));
        let seed = args.seed ^ (phase << 40);
        let (out, _) = par_cases(n, threads(), Some(deadline), |k| {
            let mut out = CaseOut::default();
            let small = k % 2 == 0;
            let (dim, ops) = if k % 5 == 4 { gen_reinsert_heavy(seed, k, 2 * m_param + 1) } else { gen_vcase(seed, k, small) };
            let kinds: BTreeSet<&str> = ops.iter().map(|o| match o { VOp::Add(_) => "add", VOp::Reinsert(..) => "reinsert", VOp::Delete(_) => "delete", VOp::Reopen => "reopen", VOp::Compact => "compact", VOp::Search(..) => "search" }).collect();
            out.cell(format!("m={m_param}:dim={dim}:{}", kinds.into_iter().collect::<Vec<_>>().join("+")));
            match run_vcase(dim, &ops, m_param, &mut out) {
                Err(e) => out.inconclusive(&format!("step-failed:{}", crate::storemon::normalise_msg(&e))),
                Ok(None) => {}
                Ok(Some(v)) => {
                    // shrink: drop operations from the end (prefix up to the failing step), then re-run
                    let prefix = &ops[..=v.step.min(ops.len() - 1)];
                    let mut repro = 0;
                    let mut scratch = CaseOut::default();
                    for _ in 0..5 {
                        if let Ok(Some(v2)) = run_vcase(dim, prefix, m_param, &mut scratch)
                            && v2.kind == v.kind
                        {
                            repro += 1;
                        }
                    }
                    let has = |f: fn(&VOp) -> bool| prefix.iter().any(f);
                    let ctx = format!(
                        "m={m_param}{}{}",
                        if has(|o| matches!(o, VOp::Reinsert(..))) { ",after-reinsert" } else { "" },
                        if has(|o| matches!(o, VOp::Delete(_))) { ",after-node-delete" } else { "" }
                    );
                    out.violations.push(Violation {
                        signature: format!("C31|{}|{ctx}", v.kind),
                        summary: v.what.clone(),
                        detail: json!({"dimension": dim, "m": m_param, "operations": prefix.iter().map(vop_json).collect::<Vec<_>>(), "failing_step": v.step, "reproduced": format!("{repro}/5")}),
                        replay: json!({"engine":"storemon","property":"C31","seed":seed,"case":k,"m":m_param}),
                    });
                }
            }
            if k < 2 {
                out.samples.push(json!({"m": m_param, "dimension": dim, "operations": ops.iter().take(12).map(vop_json).collect::<Vec<_>>()}));
            }
            out
        });
        total.merge(out);
    }
    unsafe {
        std::env::remove_var("NERVUSDB_HNSW_M");
    }
    rep.out = total;
    rep.floor("searches", rep.counter("searches"), if thorough { 20_000 } else { 2000 });
    rep.floor("searches while the index holds <= 2m+1 vectors", rep.counter("searches_on_few_vectors"), if thorough { 5000 } else { 500 });
    rep.floor("searches repeated after reopen", rep.counter("searches_repeated_after_reopen"), if thorough { 3000 } else { 300 });
    rep.floor("re-insertions", rep.counter("vector_reinserts"), if thorough { 3000 } else { 300 });
    rep
}
